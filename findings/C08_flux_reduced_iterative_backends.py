import numpy as np, darsia, warnings
warnings.filterwarnings("ignore")
def run(shape, form, ls, weight=None):
    rng=np.random.default_rng(1)
    a=rng.random(shape); b=rng.random(shape); b*=a.sum()/b.sum()
    mk=lambda arr: darsia.Image(arr.copy(), dimensions=[1.0]*len(shape), scalar=True)
    opts=dict(formulation=form, linear_solver=ls, num_iter=1, verbose=False, return_info=True, regularization=1e-10, L=1.0)
    w=darsia.WassersteinDistanceNewton(darsia.generate_grid(mk(a)), None, opts)
    # direct access: solve the initial darcy system through linear_solve
    rhs=np.concatenate([np.zeros(w.grid.num_faces), w.mass_matrix_cells.dot(np.ravel(a-b,"F")), np.zeros(1)])
    sol,_=w.linear_solve(w.darcy_init.copy(), rhs.copy(), np.zeros_like(rhs))
    return sol, np.linalg.norm(w.darcy_init.dot(sol)-rhs)/np.linalg.norm(rhs)
for shape in [(6,6),(10,10),(20,20)]:
    ref,_=run(shape,"full","direct")
    for form in ["flux_reduced","pressure"]:
        for ls in ["direct","amg","cg"]:
            try:
                s,res=run(shape,form,ls)
                print(shape,form,ls,"rel.diff to full/direct %.2e"%(np.linalg.norm(s-ref)/np.linalg.norm(ref)),"residual of full system %.2e"%res)
            except Exception as e: print(shape,form,ls,"EXC",type(e).__name__,str(e)[:80])
