"""E6 -- hidden state across calls of one object.

For a class and entry methods, every read of an attribute that the call closure itself
writes ("call-written") must either be preceded by a write in the same top-level call on
every path (interprocedural must-write dataflow over the CFGs), or be justified:

 J1  the cached value does not depend on anything that can vary between calls;
 J2  the reuse path is guarded by a *comparison* between the current key and something
     derived from the cache itself (or from an attribute written together with it).

Anything else is a stale-cache finding: the value observed depends on earlier calls.
"""
from __future__ import annotations

import ast

from . import cfg as C
from .srcmodel import norm


def self_attr(n, selfname="self"):
    """'A' if n is `self.A`, else None."""
    if isinstance(n, ast.Attribute) and isinstance(n.value, ast.Name) and n.value.id == selfname:
        return n.attr
    return None


def attr_writes(stmt_node, selfname="self"):
    """Attributes of self (re)bound by a CFG node: (attr, kind) kind in bind/mutate/del."""
    out = []
    st = stmt_node.stmt
    if st is None:
        return out
    tgts = []
    if stmt_node.kind == "stmt":
        if isinstance(st, ast.Assign):
            tgts = st.targets
        elif isinstance(st, (ast.AugAssign, ast.AnnAssign)):
            if not (isinstance(st, ast.AnnAssign) and st.value is None):
                tgts = [st.target]
        elif isinstance(st, ast.Delete):
            for t in st.targets:
                a = self_attr(t, selfname)
                if a:
                    out.append((a, "del"))
    elif stmt_node.kind == "for":
        tgts = [st.target]
    elif stmt_node.kind == "with":
        tgts = [i.optional_vars for i in st.items if i.optional_vars is not None]

    def walk_t(t):
        if isinstance(t, (ast.Tuple, ast.List)):
            for e in t.elts:
                walk_t(e)
            return
        a = self_attr(t, selfname)
        if a:
            out.append((a, "bind" if not isinstance(st, ast.AugAssign) else "mutate"))
            return
        b = t
        while isinstance(b, (ast.Subscript, ast.Attribute)):
            a = self_attr(b, selfname)
            if a:
                out.append((a, "mutate"))
                return
            b = b.value

    for t in tgts:
        walk_t(t)
    return out


def own_exprs(node):
    st = node.stmt
    if st is None:
        return []
    if node.kind in ("if", "while"):
        return [st.test]
    if node.kind == "for":
        return [st.iter]
    if node.kind == "with":
        return [i.context_expr for i in st.items]
    if node.kind == "handler":
        return [st.type] if st.type is not None else []
    if node.kind == "def":
        return []
    return [st]


def attr_reads(node, selfname="self"):
    """(attr, kind, astnode) for loads of self.A / hasattr(self,'A') / getattr(self,'A') in a CFG node."""
    out = []
    for e in own_exprs(node):
        for n in ast.walk(e):
            if isinstance(n, ast.Attribute) and isinstance(n.ctx, ast.Load):
                a = self_attr(n, selfname)
                if a:
                    out.append((a, "read", n))
            elif isinstance(n, ast.Call) and isinstance(n.func, ast.Name) and n.func.id in ("hasattr", "getattr") and len(n.args) >= 2:
                if isinstance(n.args[0], ast.Name) and n.args[0].id == selfname and isinstance(n.args[1], ast.Constant):
                    out.append((n.args[1].value, "hasattr" if n.func.id == "hasattr" else "read", n))
            elif isinstance(n, ast.AugAssign):
                a = self_attr(n.target, selfname)
                if a:
                    out.append((a, "read", n.target))
    return out


class FuncInfo:
    def __init__(self, func):
        self.func = func
        self.cfg = C.CFG(func.node)
        self.selfname = func.params[0] if func.params else "self"
        self.RD, _ = C.reaching_definitions(self.cfg, func.params)
        self.calls = {}  # node id -> list of (call ast, callee Func)


class StateAnalysis:
    def __init__(self, model, cls, entries, ctor=("__init__",), max_depth=6, extra_varying=()):
        self.model, self.cls = model, cls
        self.entries = [model.method(cls, e) for e in entries]
        self.entries = [e for e in self.entries if e is not None]
        self.max_depth = max_depth
        self.infos = {}
        self.closure = self._closure(self.entries)
        self.ctor_closure = self._closure([f for f in (model.method(cls, c) for c in ctor) if f is not None])
        self.call_written = self._written(self.closure)
        self.ctor_written = self._written(self.ctor_closure)
        # attributes assignable after construction by any other public method of the hierarchy
        self.late_written = {}
        for k in model.mro(cls):
            for name, f in k.methods.items():
                if f in self.ctor_closure:
                    continue
                for a, sites in self._written([f]).items():
                    self.late_written.setdefault(a, []).extend(sites)
        self.extra_varying = set(extra_varying)
        # attribute stores whose name is computed (setattr(self, name, v), self.__dict__[k] = v, vars(self)[k] = v): the analysis cannot
        # tell which attributes they write, so its negative verdicts for this class are not reliable
        self.dynamic_writes = []
        for f_ in self.closure:
            sn = f_.params[0] if f_.params else "self"
            for c_ in ast.walk(f_.node):
                if isinstance(c_, ast.Call) and isinstance(c_.func, ast.Name) and c_.func.id == "setattr" and len(c_.args) == 3 and norm(c_.args[0]) == sn \
                        and not isinstance(c_.args[1], ast.Constant):
                    self.dynamic_writes.append((f_, c_))
                elif isinstance(c_, ast.Subscript) and isinstance(c_.ctx, ast.Store) and norm(c_.value) in (f"{sn}.__dict__", f"vars({sn})"):
                    self.dynamic_writes.append((f_, c_))
        self._memo = {}
        self._summary_memo = {}
        self.stats = dict(functions=len(self.closure), cfg_nodes=sum(len(self.info(f).cfg.nodes) for f in self.closure))

    # -- basics ------------------------------------------------------------------
    def info(self, f):
        if f not in self.infos:
            fi = FuncInfo(f)
            for n in fi.cfg.nodes:
                for e in own_exprs(n):
                    for c in ast.walk(e):
                        if isinstance(c, ast.Call) and isinstance(c.func, ast.Attribute) and isinstance(c.func.value, ast.Name) and c.func.value.id == fi.selfname:
                            tgt = self.model.method(self.cls, c.func.attr)
                            if tgt is not None:
                                fi.calls.setdefault(n.id, []).append((c, tgt))
                        elif isinstance(c, ast.Call) and isinstance(c.func, ast.Attribute) and isinstance(c.func.value, ast.Call) and norm(c.func.value.func) == "super":
                            tgt = self.model.resolve_call(c, f, self.cls)
                            if tgt is not None and not isinstance(tgt, str):
                                fi.calls.setdefault(n.id, []).append((c, tgt))
            self.infos[f] = fi
        return self.infos[f]

    def _closure(self, roots):
        seen, out = set(), []
        work = list(roots)
        while work:
            f = work.pop()
            if f in seen or f is None:
                continue
            seen.add(f)
            out.append(f)
            for lst in self.info(f).calls.values():
                for _, tgt in lst:
                    work.append(tgt)
        return out

    def _written(self, funcs):
        w = {}
        for f in funcs:
            fi = self.info(f)
            for n in fi.cfg.nodes:
                for a, k in attr_writes(n, fi.selfname):
                    w.setdefault(a, []).append((f, n, k))
                # setattr(self, name, value)
                for e in own_exprs(n):
                    for c in ast.walk(e):
                        if isinstance(c, ast.Call) and isinstance(c.func, ast.Name) and c.func.id == "setattr" and c.args and isinstance(c.args[0], ast.Name) and c.args[0].id == fi.selfname:
                            key = c.args[1].value if isinstance(c.args[1], ast.Constant) else "*"
                            w.setdefault(key, []).append((f, n, "bind"))
        return w

    # -- must-write --------------------------------------------------------------
    def summary(self, f, depth=0):
        """Attributes bound on every normal return path of f (interprocedural)."""
        if f in self._summary_memo:
            return self._summary_memo[f]
        self._summary_memo[f] = frozenset()  # recursion guard
        IN, OUT = self._mustwrite(f, frozenset(), depth)
        fi = self.info(f)
        res = None
        for p, lab in fi.cfg.exit.pred:
            o = OUT.get(p.id)
            if o is None:
                continue
            res = o if res is None else (res & o)
        self._summary_memo[f] = res or frozenset()
        return self._summary_memo[f]

    def _mustwrite(self, f, entry_state, depth):
        fi = self.info(f)

        def transfer(n, s):
            s2 = set(s)
            if depth < self.max_depth:
                for _, tgt in fi.calls.get(n.id, []):
                    s2 |= self.summary(tgt, depth + 1)
            for a, k in attr_writes(n, fi.selfname):
                if k == "bind":
                    s2.add(a)
                elif k == "del":
                    s2.discard(a)
            return frozenset(s2)

        return C.solve_forward(fi.cfg, frozenset(entry_state), transfer, lambda a, b: a & b, exc_transfer=lambda n, si, so: si)

    # -- cross-call reads ----------------------------------------------------------
    def cross_call_reads(self):
        """[(func, node, attr, kind, astnode, chain)] reads of call-written attributes not preceded by a write."""
        out = []
        seen = set()
        for e in self.entries:
            self._collect(e, frozenset(), 0, (e.short,), out, seen)
        return out

    def _collect(self, f, entry_state, depth, chain, out, seen):
        key = (f, entry_state)
        if key in seen or depth > self.max_depth:
            return
        seen.add(key)
        fi = self.info(f)
        IN, OUT = self._mustwrite(f, entry_state, depth)
        for n in fi.cfg.nodes:
            s = IN.get(n.id)
            if s is None:
                continue  # unreachable
            for a, kind, an in attr_reads(n, fi.selfname):
                if a in self.call_written and a not in s:
                    out.append((f, n, a, kind, an, chain))
            for c, tgt in fi.calls.get(n.id, []):
                self._collect(tgt, s, depth + 1, chain + (tgt.short,), out, seen)

    # -- dependency roots ----------------------------------------------------------
    def roots(self, f, node, expr, _seen=None):
        """Roots an expression's value derives from: ('param', p) / ('attr', A) / ('hasattr', A)."""
        fi = self.info(f)
        _seen = _seen if _seen is not None else set()
        out = set()
        hasattr_args = set()
        comp_bound = set()
        for n in ast.walk(expr):
            if isinstance(n, ast.comprehension):
                for t in ast.walk(n.target):
                    if isinstance(t, ast.Name):
                        comp_bound.add(t.id)
        for n in ast.walk(expr):
            if isinstance(n, ast.Call) and isinstance(n.func, ast.Name) and n.func.id == "hasattr" and len(n.args) >= 2 and isinstance(n.args[1], ast.Constant):
                out.add(("hasattr", n.args[1].value))
                hasattr_args.add(id(n.args[0]))
        for n in ast.walk(expr):
            if isinstance(n, ast.Attribute):
                a = self_attr(n, fi.selfname)
                if a:
                    out.add(("attr", a))
            elif isinstance(n, ast.Name) and isinstance(n.ctx, ast.Load) and n.id != fi.selfname and id(n) not in hasattr_args and n.id not in comp_bound:
                defs = [i for nme, i in fi.RD.get(node.id, ()) if nme == n.id]
                if not defs:
                    continue  # global / builtin
                for i in defs:
                    if (f, i, n.id) in _seen:
                        continue
                    _seen.add((f, i, n.id))
                    dn = fi.cfg.nodes[i]
                    if dn.kind == "entry":
                        out.add(("param", n.id))
                    else:
                        for e in self._def_exprs(dn, n.id):
                            out |= self.roots(f, dn, e, _seen)
        return out

    @staticmethod
    def _def_exprs(dn, name):
        st = dn.stmt
        if dn.kind == "for":
            return [st.iter]
        if dn.kind == "with":
            return [i.context_expr for i in st.items]
        if isinstance(st, ast.Assign):
            return [st.value]
        if isinstance(st, ast.AugAssign):
            return [st.value, st.target]
        if isinstance(st, ast.AnnAssign) and st.value is not None:
            return [st.value]
        return []

    def varying(self, roots):
        """Subset of roots that can differ between two calls on the same object."""
        v = set()
        for kind, name in roots:
            if kind == "param":
                v.add((kind, name))
            elif kind == "attr" and (name in self.call_written or name in self.late_written or name in self.extra_varying or "*" in self.late_written):
                v.add((kind, name))
        return v

    # -- justification -------------------------------------------------------------
    def value_deps(self, attr):
        """What the values stored into `attr` by the call closure depend on (varying roots only)."""
        dep = set()
        for g, n, k in self.call_written.get(attr, []):
            if k not in ("bind", "mutate"):
                continue
            for e in self._def_exprs(n, attr) or own_exprs(n):
                dep |= self.varying(self.roots(g, n, e)) - {("attr", attr)}
        return dep

    def justify(self, f, node, attr, kind, _deferred=None):
        """(ok, reason) for a cross-call read of `attr` at `node` of `f`.

        J1: nothing the stored value depends on can vary between calls.
        J2: every write-free path from the entry of `f` to the read crosses a guard that compares
            the current key with the cache (or a co-written key) and thereby skips the refresh.
        On failure `self.witness` holds a write-free path and `self.bad_guards` the non-J2 guards."""
        self.witness, self.bad_guards = [], []
        dep = self.value_deps(attr)
        if not dep:
            return True, "J1: the stored value depends on nothing that varies between calls"
        if all(self.preserves(e, attr) for e in self.entries):
            return True, "J3: every entry restores the attribute's entry value before it returns (save / temporary write / restore)"
        fi = self.info(f)
        g = fi.cfg
        if self._feeds_only_guards(f, node, attr):
            return True, "guard read: the value read only feeds the test that decides whether the cache is refreshed"
        # `local = self.attr` only names the cached object: what matters is where that value is used.  The uses reached by this
        # definition (other than the guard tests themselves) are justified one by one, as reads at those points.
        st0 = node.stmt
        if _deferred is None and isinstance(st0, ast.Assign) and len(st0.targets) == 1 and isinstance(st0.targets[0], ast.Name) and self_attr(st0.value, fi.selfname) == attr:
            local = st0.targets[0].id
            tests = {id(x) for t in self._guard_tests(f, attr) for x in ast.walk(t)}
            uses = []
            for n2 in g.nodes:
                if n2 is node or (local, node.id) not in fi.RD.get(n2.id, ()):
                    continue
                exprs = [n2.stmt.test] if n2.kind == "if" and n2.stmt is not None else ([n2.stmt] if n2.stmt is not None and n2.kind in ("stmt", "return") else [])
                for e in exprs:
                    if any(isinstance(x, ast.Name) and x.id == local and isinstance(x.ctx, ast.Load) and id(x) not in tests for x in ast.walk(e)):
                        uses.append(n2)
            if uses:
                for u in uses:
                    ok_u, why_u = self.justify(f, u, attr, kind, _deferred=node)
                    if not ok_u:
                        return False, why_u
                return True, f"J2 (through the local `{local}`): every use of the value read is behind a guard comparing the current key with the cache"
        write_nodes = set()
        removed = set()  # (src id, dst id) skip edges of J2 guards
        notes = []
        for n in g.nodes:
            binds = [a for a, k in attr_writes(n, fi.selfname) if a == attr and k == "bind"]
            via_call = any(attr in self.summary(t) or self.refreshes(t, attr, dep) for _, t in fi.calls.get(n.id, []))
            if not binds and not via_call:
                continue
            write_nodes.add(n.id)
            if n.stmt is None or not binds:
                continue
            co = {a for st in self._siblings(n.stmt) for a in self._stmt_attr_binds(st, fi.selfname)} - {attr}
            for iff, branch in self._enclosing_ifs(f, n.stmt):
                head = g.node_of(iff)
                if head is None:
                    continue
                ok, why = self._is_j2_guard(f, head, iff, attr, dep, co)
                skip_label = "false" if branch == "body" else "true"
                if ok:
                    for s_, lab in head.succ:
                        if lab == skip_label:
                            removed.add((head.id, s_.id))
                else:
                    notes.append((head, why))
        for iff, head, skip_label in self._exit_guards(f, attr):
            ok, why = self._is_j2_guard(f, head, iff, attr, dep, set())
            if ok:
                for s_, lab in head.succ:
                    if lab == skip_label:
                        removed.add((head.id, s_.id))
            else:
                notes.append((head, why))
        # write-free path search
        from collections import deque
        prev = {g.entry.id: None}
        dq = deque([g.entry])
        found = False
        while dq:
            x = dq.popleft()
            if x is node:
                found = True
                break
            for s_, lab in x.succ:
                if s_.id in prev or (x.id, s_.id) in removed:
                    continue
                if s_.id in write_nodes and s_ is not node:
                    continue
                prev[s_.id] = x
                dq.append(s_)
        if not found:
            return True, "J2: every write-free path to the read crosses a guard comparing the current key with the cache"
        # the read sits in a helper and nothing inside the helper justifies it: it is justified if every call of the helper in the call
        # closure is (the refresh-or-validate step stands in the caller, in front of the call)
        lift = self.__dict__.setdefault("_lift_stack", set())
        if f not in self.entries and (f, attr) not in lift:
            callers = [(h, g2.nodes[nid]) for h in self.closure for g2 in [self.info(h).cfg] for nid, cl in self.info(h).calls.items() if any(t is f for _, t in cl)]
            if callers:
                lift.add((f, attr))
                try:
                    res = [self.justify(h, cn, attr, kind) for h, cn in callers]
                finally:
                    lift.discard((f, attr))
                if all(ok_ for ok_, _ in res):
                    return True, f"J2 (at the {len(callers)} call site(s) of {f.short}): " + res[0][1]
        path = []
        x = node
        while x is not None:
            path.append(x)
            x = prev[x.id]
        self.witness = path[::-1]
        on_path = {p.id for p in self.witness}
        self.bad_guards = [(h, w) for h, w in notes if h.id in on_path] or notes
        why = "; ".join(f"guard `{h.text()[:70]}`: {w}" for h, w in self.bad_guards[:3]) or "no guard at all on a write-free path"
        return False, f"value depends on {sorted(x[1] for x in dep)}; {why}"

    def refreshes(self, g_func, attr, dep, _stack=None):
        """A helper 'refreshes or validates' attr if every path through it either writes attr or crosses the skip edge of a
        key-vs-cache guard (J2) protecting such a write: calling it has the same standing as the guarded refresh written inline."""
        key = (g_func, attr)
        memo = self.__dict__.setdefault("_refresh_memo", {})
        if key in memo:
            return memo[key]
        memo[key] = False
        fi = self.info(g_func)
        g = fi.cfg
        write_nodes, removed = set(), set()
        for n in g.nodes:
            binds = [a for a, k in attr_writes(n, fi.selfname) if a == attr and k == "bind"]
            via_call = any(attr in self.summary(t) or self.refreshes(t, attr, dep) for _, t in fi.calls.get(n.id, []) if t is not g_func)
            if not binds and not via_call:
                continue
            write_nodes.add(n.id)
            if n.stmt is None or not binds:
                continue
            co = {a for st in self._siblings(n.stmt) for a in self._stmt_attr_binds(st, fi.selfname)} - {attr}
            for iff, branch in self._enclosing_ifs(g_func, n.stmt):
                head = g.node_of(iff)
                if head is None:
                    continue
                ok, _ = self._is_j2_guard(g_func, head, iff, attr, dep, co)
                if ok:
                    skip_label = "false" if branch == "body" else "true"
                    for s_, lab in head.succ:
                        if lab == skip_label:
                            removed.add((head.id, s_.id))
        if not write_nodes:
            return False
        for iff, head, skip_label in self._exit_guards(g_func, attr):
            ok, _ = self._is_j2_guard(g_func, head, iff, attr, dep, set())
            if ok:
                for s_, lab in head.succ:
                    if lab == skip_label:
                        removed.add((head.id, s_.id))
        from collections import deque
        seen = {g.entry.id}
        dq = deque([g.entry])
        reach_exit = False
        while dq:
            x = dq.popleft()
            if x is g.exit:
                reach_exit = True
                break
            for s_, lab in x.succ:
                if s_.id in seen or (x.id, s_.id) in removed or s_.id in write_nodes or lab == "exc":
                    continue
                seen.add(s_.id)
                dq.append(s_)
        memo[key] = not reach_exit
        return memo[key]

    # -- J3: save / temporary write / restore ------------------------------------------
    def preserves(self, f, attr, _stack=None):
        """True if on every normal path through f the attribute holds its entry value again at exit."""
        memo = self.__dict__.setdefault("_preserve_memo", {})
        key = (f, attr)
        if key in memo:
            return memo[key]
        _stack = _stack or set()
        if key in _stack:
            return True  # inductive hypothesis for recursion
        _stack = _stack | {key}
        fi = self.info(f)
        g = fi.cfg
        binds_somewhere = {h for h, n, k in self.call_written.get(attr, []) if k == "bind"}

        def callee_effect(t):
            """'none' | 'dirty' for a self-call."""
            if t not in self._closure([t]) and False:
                return "none"
            clo = self._closure([t])
            if not any(h in binds_somewhere for h in clo):
                return "none"
            return "none" if self.preserves(t, attr, _stack) else "dirty"

        # state: (dirty: bool, saved: frozenset of (local, index or None))
        def transfer(n, st):
            dirty, saved = st
            saved = set(saved)
            s_ = n.stmt
            for _, t in fi.calls.get(n.id, []):
                if callee_effect(t) == "dirty":
                    dirty = True
            if n.kind == "stmt" and isinstance(s_, ast.Assign) and len(s_.targets) == 1:
                tgt, val = s_.targets[0], s_.value
                if isinstance(tgt, ast.Name):
                    saved = {x for x in saved if x[0] != tgt.id}
                    if not dirty:
                        if self_attr(val, fi.selfname) == attr:
                            saved.add((tgt.id, None))
                        elif isinstance(val, ast.Tuple):
                            for i, e in enumerate(val.elts):
                                if self_attr(e, fi.selfname) == attr:
                                    saved.add((tgt.id, i))
                elif self_attr(tgt, fi.selfname) == attr:
                    if isinstance(val, ast.Name) and (val.id, None) in saved:
                        dirty = False
                    else:
                        dirty = True
                elif isinstance(tgt, ast.Tuple):
                    for i, e in enumerate(tgt.elts):
                        if self_attr(e, fi.selfname) == attr:
                            if isinstance(val, ast.Name) and (val.id, i) in saved:
                                dirty = False
                            else:
                                dirty = True
                return (dirty, frozenset(saved))
            for a, k in attr_writes(n, fi.selfname):
                if a == attr and k in ("bind", "del"):
                    dirty = True
            return (dirty, frozenset(saved))

        def join(a, b):
            return (a[0] or b[0], a[1] & b[1])

        # correlated branches on constructor-constant flags (`if self.heterogeneous:` ... twice): case split
        flags = {}
        for n in g.nodes:
            if n.kind == "if":
                t = n.stmt.test
                neg = isinstance(t, ast.UnaryOp) and isinstance(t.op, ast.Not)
                a = self_attr(t.operand if neg else t, fi.selfname)
                if a and a not in self.call_written and a not in self.late_written:
                    flags.setdefault(a, []).append((n.id, neg))
        names = sorted(a for a, v in flags.items() if len(v) >= 2)[:3]
        import itertools
        ok = True
        for combo in itertools.product((True, False), repeat=len(names)):
            assume = dict(zip(names, combo))
            dead = set()
            for a, val in assume.items():
                for nid, neg in flags[a]:
                    taken = val != neg
                    dead.add((nid, "false" if taken else "true"))
            IN, OUT = C.solve_forward(g, (False, frozenset()), transfer, join, exc_transfer=lambda n, si, so: si,
                                      edge_filter=lambda n, s_, lab: (n.id, lab) not in dead)
            for p, lab in g.exit.pred:
                o = OUT.get(p.id)
                if o is not None and o[0]:
                    ok = False
        memo[key] = ok
        return ok

    def _guard_tests(self, f, attr):
        """Tests of the If statements that enclose a bind of `attr` in f, or that decide by an early exit whether a bind is reached."""
        fi = self.info(f)
        tests = []
        for n in fi.cfg.nodes:
            if any(a == attr and k == "bind" for a, k in attr_writes(n, fi.selfname)) and n.stmt is not None:
                tests += [iff.test for iff, _ in self._enclosing_ifs(f, n.stmt)]
        tests += [iff.test for iff, _, _ in self._exit_guards(f, attr) if not any(iff.test is t for t in tests)]
        return tests

    def _exit_guards(self, f, attr):
        """If heads of f that do not enclose a bind of `attr` but decide whether one is reached: from exactly one of the two branches a
        bind of attr can still be reached (`if valid: return` in front of the refresh).  [(If stmt, head node, label of the skip edge)]"""
        memo = self.__dict__.setdefault("_exit_guard_memo", {})
        key = (f, attr)
        if key in memo:
            return memo[key]
        memo[key] = []
        fi = self.info(f)
        g = fi.cfg
        binds = {n.id for n in g.nodes if any(a == attr and k == "bind" for a, k in attr_writes(n, fi.selfname))}
        out = []
        if binds:
            def reaches(start):
                seen, st = {start.id}, [start]
                while st:
                    x = st.pop()
                    if x.id in binds:
                        return True
                    for s_, lab in x.succ:
                        if s_.id not in seen and lab != "exc":
                            seen.add(s_.id)
                            st.append(s_)
                return False
            for h in g.nodes:
                if h.kind != "if" or not isinstance(h.stmt, ast.If):
                    continue
                if any(b_ for b_ in binds if any(g.nodes[b_].stmt is x for x in ast.walk(h.stmt))):
                    continue  # encloses a bind: handled as an enclosing guard
                lab_reach = {}
                for s_, lab in h.succ:
                    if lab in ("true", "false"):
                        lab_reach[lab] = reaches(s_)
                if len(lab_reach) == 2 and lab_reach["true"] != lab_reach["false"]:
                    out.append((h.stmt, h, "true" if not lab_reach["true"] else "false"))
        memo[key] = out
        return out

    def _feeds_only_guards(self, f, node, attr):
        tests = self._guard_tests(f, attr)
        if not tests:
            return False
        in_test = set()
        for t in tests:
            for x in ast.walk(t):
                in_test.add(id(x))
        st = node.stmt
        if node.kind == "if":
            return any(st.test is t for t in tests)
        def only_guards(name, seen):
            """every use of the once-bound local `name` is in a guard test, or in the definition of another such local"""
            if name in seen:
                return True
            seen = seen | {name}
            uses = [x for x in ast.walk(f.node) if isinstance(x, ast.Name) and x.id == name and isinstance(x.ctx, ast.Load)]
            stores = [x for x in ast.walk(f.node) if isinstance(x, ast.Name) and x.id == name and isinstance(x.ctx, ast.Store)]
            if not uses or len(stores) != 1:
                return False
            for u in uses:
                if id(u) in in_test:
                    continue
                cur = u
                while cur is not None and not isinstance(cur, ast.stmt):
                    cur = getattr(cur, "_parent", None)
                if isinstance(cur, ast.Assign) and len(cur.targets) == 1 and isinstance(cur.targets[0], ast.Name) and only_guards(cur.targets[0].id, seen):
                    continue
                return False
            return True
        if isinstance(st, ast.Assign) and len(st.targets) == 1 and isinstance(st.targets[0], ast.Name):
            return only_guards(st.targets[0].id, frozenset())
        return False

    def _enclosing_ifs(self, f, stmt):
        """If statements enclosing stmt inside f (innermost first) with the branch taken."""
        out = []
        cur = stmt
        while cur is not None and cur is not f.node:
            par = getattr(cur, "_parent", None)
            if isinstance(par, ast.If):
                out.append((par, "body" if cur in par.body else "orelse"))
            cur = par
        return out

    def _is_j2_guard(self, f, head, iff, attr, dep, co_written):
        from .flow import expand

        if not any(isinstance(c, ast.Compare) for c in ast.walk(expand(f.node, iff.test))):
            return False, "tests existence / type only, compares nothing"
        r = self.roots(f, head, iff.test)
        cache_side = ("attr", attr) in r or any(("attr", a) in r for a in co_written)
        key_side = self.varying(r) - {("attr", attr)} - {("attr", a) for a in co_written}
        missing = {d for d in dep if d not in key_side}
        if cache_side and not missing:
            lossy = self._lossy_key(f, iff, attr)
            if lossy:
                return False, lossy
            return True, "compares key and cache"
        if cache_side:
            return False, f"does not cover {sorted(x[1] for x in missing)}"
        others = sorted(x[1] for x in r if x[0] == "attr")
        return False, f"compares the key with {others or 'nothing'} and never with the cached value"

    LOSSY_FACETS = ("size", "ndim", "nbytes", "dtype", "itemsize")

    def _lossy_key(self, f, iff, attr):
        """A key that looks at the data only through a projection of its shape (`.size`, `.ndim`, `len()`, ...) does not determine a value
        computed from `.shape`: two inputs with equal size and different shapes share the cache entry.  Returns the reason, or None when the
        key reads the data in any other way (then the coarser root comparison stands)."""
        from .flow import expand

        fi = self.info(f)
        test = expand(f.node, iff.test)
        local_names = {a.arg for a in f.node.args.posonlyargs + f.node.args.args + f.node.args.kwonlyargs} - {fi.selfname}
        local_names |= {n.id for n in ast.walk(f.node) if isinstance(n, ast.Name) and isinstance(n.ctx, ast.Store)}
        covered, facets = set(), set()
        for n in ast.walk(test):
            if isinstance(n, ast.Attribute) and n.attr in self.LOSSY_FACETS and not self_attr(n, fi.selfname):
                facets.add("." + n.attr)
                covered |= {id(x) for x in ast.walk(n.value)}
            elif isinstance(n, ast.Call) and isinstance(n.func, ast.Name) and n.func.id == "len" and n.args:
                facets.add("len()")
                covered |= {id(x) for x in ast.walk(n.args[0])}
        if not facets:
            return None
        for n in ast.walk(test):
            if isinstance(n, ast.Name) and isinstance(n.ctx, ast.Load) and n.id in local_names and id(n) not in covered:
                return None  # the key also reads the data directly
        # what the stored value is computed from, under this guard
        uses_shape = []
        for st in ast.walk(iff):
            if isinstance(st, ast.Assign) and attr in self._stmt_attr_binds(st, fi.selfname):
                val = expand(f.node, st.value)
                for n in ast.walk(val):
                    if isinstance(n, ast.Attribute) and n.attr == "shape" and not self_attr(n, fi.selfname):
                        uses_shape.append(n)
        if uses_shape and ".shape" not in facets:
            return (f"the key reads the data only through {sorted(facets)} while the stored value is computed from its `.shape`: inputs of equal "
                    f"{sorted(facets)[0]} and different shape share the entry")
        return None

    @staticmethod
    def _siblings(stmt):
        par = getattr(stmt, "_parent", None)
        for fld in ("body", "orelse", "finalbody"):
            lst = getattr(par, fld, None)
            if isinstance(lst, list) and stmt in lst:
                return lst
        return [stmt]

    @staticmethod
    def _stmt_attr_binds(st, selfname):
        out = set()
        if isinstance(st, ast.Assign):
            for t in st.targets:
                a = self_attr(t, selfname)
                if a:
                    out.add(a)
        return out
