"""E2 -- statement-level control-flow graph with exception edges, plus dataflow solvers.

Nodes are simple statements and branch heads of one function.  Every statement inside a
`try` body that can raise (contains a call, subscript, attribute access, arithmetic, assert
or raise) gets an exceptional edge to each handler of the enclosing try (and onward to the
next enclosing try / the function's raise-exit when no handler is a catch-all).  This is
what makes "failure at any iteration" a path property.
"""
from __future__ import annotations

import ast
from collections import deque

from .report import AnalysisError

CATCH_ALL = {"Exception", "BaseException"}


class Node:
    __slots__ = ("id", "stmt", "kind", "succ", "pred", "label")

    def __init__(self, id, stmt, kind, label=""):
        self.id, self.stmt, self.kind, self.label = id, stmt, kind, label
        self.succ = []  # (node, edge_label)
        self.pred = []

    @property
    def line(self):
        return getattr(self.stmt, "lineno", 0)

    def text(self):
        if self.stmt is None:
            return self.kind
        try:
            if self.kind == "if":
                return "if " + " ".join(ast.unparse(self.stmt.test).split())
            if self.kind == "while":
                return "while " + " ".join(ast.unparse(self.stmt.test).split())
            if self.kind == "for":
                return "for " + " ".join(ast.unparse(self.stmt.target).split()) + " in " + " ".join(ast.unparse(self.stmt.iter).split())
            if self.kind == "handler":
                return "except " + (" ".join(ast.unparse(self.stmt.type).split()) if self.stmt.type else "")
            if self.kind == "with":
                return "with " + ", ".join(" ".join(ast.unparse(i).split()) for i in self.stmt.items)
            s = " ".join(ast.unparse(self.stmt).split())
            return s if len(s) < 160 else s[:157] + "..."
        except Exception:
            return self.kind

    def __repr__(self):
        return f"<N{self.id} {self.kind} L{self.line} {self.text()[:50]}>"


def may_raise(stmt):
    if isinstance(stmt, (ast.Assert, ast.Raise)):
        return True
    for n in ast.walk(stmt):
        if isinstance(n, (ast.Call, ast.Subscript, ast.Attribute, ast.BinOp, ast.Compare, ast.Await)):
            return True
    return False


class CFG:
    def __init__(self, fnode):
        self.fnode = fnode
        self.nodes = []
        self.entry = self._new(None, "entry")
        self.exit = self._new(None, "exit")
        self.raise_exit = self._new(None, "raise-exit")
        self.loops = {}  # loop stmt -> (head, after-nodes filled lazily)
        # context stacks
        self._handlers = []  # stack of lists of (handler_node, catches_all)
        self._loop_stack = []  # (head_node, break_targets list)
        self._finally = []
        tails = self._block(fnode.body, [(self.entry, "next")])
        for t, lab in tails:
            self._edge(t, self.exit, lab)

    # -- construction ------------------------------------------------------------
    def _new(self, stmt, kind, label=""):
        n = Node(len(self.nodes), stmt, kind, label)
        self.nodes.append(n)
        return n

    def _edge(self, a, b, label="next"):
        a.succ.append((b, label))
        b.pred.append((a, label))

    def _connect(self, tails, node):
        for t, lab in tails:
            self._edge(t, node, lab)

    def _exc_edges(self, node):
        """Exceptional successors of a raising node given the current handler stack."""
        for level in reversed(self._handlers):
            catch_all = False
            for h, ca in level:
                self._edge(node, h, "exc")
                catch_all = catch_all or ca
            if catch_all:
                return
        self._edge(node, self.raise_exit, "exc")

    def _block(self, body, tails):
        for st in body:
            tails = self._stmt(st, tails)
        return tails

    def _stmt(self, st, tails):
        if isinstance(st, ast.If):
            head = self._new(st, "if")
            self._connect(tails, head)
            if may_raise(st.test):
                self._exc_edges(head)
            t1 = self._block(st.body, [(head, "true")])
            t2 = self._block(st.orelse, [(head, "false")]) if st.orelse else [(head, "false")]
            return t1 + t2
        if isinstance(st, (ast.For, ast.While, ast.AsyncFor)):
            head = self._new(st, "for" if not isinstance(st, ast.While) else "while")
            self._connect(tails, head)
            self._exc_edges(head) if may_raise(st.iter if not isinstance(st, ast.While) else st.test) else None
            breaks = []
            self._loop_stack.append((head, breaks))
            body_tails = self._block(st.body, [(head, "true")])
            self._loop_stack.pop()
            for t, lab in body_tails:
                self._edge(t, head, "back")
            out = self._block(st.orelse, [(head, "false")]) if st.orelse else [(head, "false")]
            return out + breaks
        if isinstance(st, ast.Break):
            n = self._new(st, "break")
            self._connect(tails, n)
            if not self._loop_stack:
                raise AnalysisError("break outside loop")
            self._loop_stack[-1][1].append((n, "break"))
            return []
        if isinstance(st, ast.Continue):
            n = self._new(st, "continue")
            self._connect(tails, n)
            self._edge(n, self._loop_stack[-1][0], "back")
            return []
        if isinstance(st, ast.Return):
            n = self._new(st, "return")
            self._connect(tails, n)
            if st.value is not None and may_raise(st.value):
                self._exc_edges(n)
            self._edge(n, self.exit, "return")
            return []
        if isinstance(st, ast.Raise):
            n = self._new(st, "raise")
            self._connect(tails, n)
            self._exc_edges(n)
            return []
        if isinstance(st, (ast.With, ast.AsyncWith)):
            n = self._new(st, "with")
            self._connect(tails, n)
            self._exc_edges(n)
            return self._block(st.body, [(n, "next")])
        if isinstance(st, ast.Try) or type(st).__name__ == "TryStar":
            hnodes = []
            for h in st.handlers:
                ca = h.type is None or (isinstance(h.type, ast.Name) and h.type.id in CATCH_ALL) or (
                    isinstance(h.type, ast.Tuple) and any(isinstance(e, ast.Name) and e.id in CATCH_ALL for e in h.type.elts))
                hnodes.append((self._new(h, "handler"), ca))
            self._handlers.append(hnodes)
            body_tails = self._block(st.body, tails)
            self._handlers.pop()
            body_tails = self._block(st.orelse, body_tails) if st.orelse else body_tails
            out = list(body_tails)
            for (hn, _), h in zip(hnodes, st.handlers):
                out += self._block(h.body, [(hn, "next")])
            if st.finalbody:
                out = self._block(st.finalbody, out)
            return out
        if isinstance(st, ast.Match):
            raise AnalysisError("match statement not supported by the CFG builder")
        # simple statement (incl. nested def/class as a single node)
        kind = "def" if isinstance(st, (ast.FunctionDef, ast.AsyncFunctionDef, ast.ClassDef)) else "stmt"
        n = self._new(st, kind)
        self._connect(tails, n)
        if kind == "stmt" and may_raise(st):
            self._exc_edges(n)
        return [(n, "next")]

    # -- queries -----------------------------------------------------------------
    def node_of(self, stmt):
        for n in self.nodes:
            if n.stmt is stmt:
                return n
        return None

    def reachable(self, start=None, avoid=(), labels=None):
        start = start or self.entry
        seen = {start.id}
        dq = deque([start])
        avoid = {a.id for a in avoid}
        while dq:
            n = dq.popleft()
            for s, lab in n.succ:
                if labels is not None and lab not in labels:
                    continue
                if s.id in seen or s.id in avoid:
                    continue
                seen.add(s.id)
                dq.append(s)
        return seen

    def path(self, src, dst, avoid=(), via_first_label=None):
        """Shortest path (list of nodes) from src to dst, or None."""
        avoid = {a.id for a in avoid}
        prev = {src.id: None}
        dq = deque([src])
        while dq:
            n = dq.popleft()
            if n is dst:
                out = []
                while n is not None:
                    out.append(n)
                    n = prev[n.id]
                return out[::-1]
            for s, lab in n.succ:
                if n is src and via_first_label is not None and lab != via_first_label:
                    continue
                if s.id in prev or s.id in avoid:
                    continue
                prev[s.id] = n
                dq.append(s)
        return None

    def dominators(self):
        """node id -> set of ids dominating it (entry-rooted, all edges)."""
        ids = [n.id for n in self.nodes if n.id in self.reachable()]
        full = set(ids)
        dom = {i: set(full) for i in ids}
        dom[self.entry.id] = {self.entry.id}
        changed = True
        order = ids
        while changed:
            changed = False
            for i in order:
                if i == self.entry.id:
                    continue
                preds = [p.id for p, _ in self.nodes[i].pred if p.id in dom]
                new = set(full)
                for p in preds:
                    new &= dom[p]
                new |= {i}
                if new != dom[i]:
                    dom[i] = new
                    changed = True
        return dom


def solve_forward(cfg, init, transfer, join, exc_transfer=None, bottom=None, edge_filter=None):
    """Generic forward dataflow.  transfer(node, in_state) -> out_state (normal edges);
    exc_transfer(node, in_state) -> state propagated along 'exc' edges (default: in_state
    joined with out_state, i.e. the statement may or may not have taken effect)."""
    IN = {cfg.entry.id: init}
    OUT = {}
    work = deque([cfg.entry])
    inq = {cfg.entry.id}
    while work:
        n = work.popleft()
        inq.discard(n.id)
        s_in = IN.get(n.id, bottom)
        if s_in is None:
            continue
        s_out = transfer(n, s_in)
        OUT[n.id] = s_out
        s_exc = exc_transfer(n, s_in, s_out) if exc_transfer else join(s_in, s_out)
        for s, lab in n.succ:
            if edge_filter is not None and not edge_filter(n, s, lab):
                continue
            val = s_exc if lab == "exc" else s_out
            old = IN.get(s.id)
            new = val if old is None else join(old, val)
            if old is None or new != old:
                IN[s.id] = new
                if s.id not in inq:
                    work.append(s)
                    inq.add(s.id)
    return IN, OUT


# ---- definitions and uses of names --------------------------------------------------------

def targets_of(t):
    """Names bound by an assignment target; ('name', kind) with kind in def / mutate."""
    if isinstance(t, ast.Name):
        yield t.id, "def"
    elif isinstance(t, (ast.Tuple, ast.List)):
        for e in t.elts:
            yield from targets_of(e)
    elif isinstance(t, ast.Starred):
        yield from targets_of(t.value)
    elif isinstance(t, (ast.Subscript, ast.Attribute)):
        b = t
        while isinstance(b, (ast.Subscript, ast.Attribute)):
            b = b.value
        if isinstance(b, ast.Name):
            yield b.id, "mutate"


def defs_of(node):
    """(name, kind) defined or mutated by a CFG node."""
    st = node.stmt
    out = []
    if st is None:
        return out
    if node.kind in ("stmt", "def"):
        if isinstance(st, ast.Assign):
            for t in st.targets:
                out += list(targets_of(t))
        elif isinstance(st, ast.AugAssign):
            for nme, k in targets_of(st.target):
                out.append((nme, "def" if k == "def" else "mutate"))
        elif isinstance(st, ast.AnnAssign) and st.value is not None:
            out += list(targets_of(st.target))
        elif isinstance(st, (ast.FunctionDef, ast.AsyncFunctionDef, ast.ClassDef)):
            out.append((st.name, "def"))
        elif isinstance(st, (ast.Import, ast.ImportFrom)):
            for a in st.names:
                out.append(((a.asname or a.name).split(".")[0], "def"))
        elif isinstance(st, ast.Delete):
            for t in st.targets:
                out += [(nme, "del") for nme, _ in targets_of(t)]
        # walrus
        for n in ast.walk(st) if not isinstance(st, (ast.FunctionDef, ast.AsyncFunctionDef, ast.ClassDef)) else []:
            if isinstance(n, ast.NamedExpr) and isinstance(n.target, ast.Name):
                out.append((n.target.id, "def"))
    elif node.kind == "for":
        out += list(targets_of(st.target))
    elif node.kind == "with":
        for it in st.items:
            if it.optional_vars is not None:
                out += list(targets_of(it.optional_vars))
    elif node.kind == "handler" and st.name:
        out.append((st.name, "def"))
    return out


def reaching_definitions(cfg, params=()):
    """IN sets of (name, node_id) pairs; parameters are defined at the entry node.
    Mutations (x[...] = v, x.a = v, x += v) add a def without killing the earlier ones."""
    init = frozenset((p, cfg.entry.id) for p in params)

    def transfer(n, s):
        ds = defs_of(n)
        if not ds:
            return s
        kill = {nme for nme, k in ds if k in ("def", "del")}
        s2 = {(nme, i) for nme, i in s if nme not in kill}
        for nme, k in ds:
            if k != "del":
                s2.add((nme, n.id))
        return frozenset(s2)

    IN, OUT = solve_forward(cfg, init, transfer, lambda a, b: a | b)
    return IN, OUT


def definitely_assigned(cfg, params=()):
    """IN sets of names assigned on every path (exception edges carry the state *before* the statement)."""
    init = frozenset(params)
    ALL = None

    def transfer(n, s):
        ds = defs_of(n)
        s2 = set(s)
        for nme, k in ds:
            if k == "def":
                s2.add(nme)
            elif k == "del":
                s2.discard(nme)
        return frozenset(s2)

    IN, OUT = solve_forward(cfg, init, transfer, lambda a, b: a & b, exc_transfer=lambda n, si, so: si)
    return IN, OUT


def uses_of(node):
    """Names loaded by the node's own expression(s) (not nested bodies)."""
    st = node.stmt
    if st is None:
        return set()
    exprs = []
    if node.kind == "if" or node.kind == "while":
        exprs = [st.test]
    elif node.kind == "for":
        exprs = [st.iter]
    elif node.kind == "with":
        exprs = [i.context_expr for i in st.items]
    elif node.kind == "handler":
        exprs = [st.type] if st.type else []
    elif node.kind == "def":
        exprs = []
    else:
        exprs = [st]
    out = set()
    for e in exprs:
        for n in ast.walk(e):
            if isinstance(n, ast.Name) and isinstance(n.ctx, ast.Load):
                out.add(n.id)
            elif isinstance(n, ast.AugAssign) and isinstance(n.target, ast.Name):
                out.add(n.target.id)
    return out
