"""Obligations, findings, known-findings handling and evidence writing.

Every rule of every property reports through a `Ctx`: one `ob(...)` call per
obligation.  A failed obligation is a finding, keyed by
(rule, construct, normalised detail) -- never by line number.
"""
from __future__ import annotations

import json
import os
import time
from dataclasses import dataclass, field

VERIF = os.path.dirname(os.path.dirname(os.path.abspath(__file__)))
REPO = os.environ.get("DARSIA_REPO", "/repo")


class AnalysisError(Exception):
    """An anchor vanished or the extractor refuses: exit 2, never a silent pass."""


@dataclass
class Ob:
    rule: str
    construct: str
    detail: str
    ok: bool
    msg: str = ""
    file: str = ""
    line: int = 0
    path: list = field(default_factory=list)
    unrecognised: bool = False   # failed only because no recognised idiom was found (all template misses were far misses)
    near: float = 1.0

    @property
    def key(self) -> str:
        return f"{self.rule}|{self.construct}|{self.detail}"


# a failed template obligation is a violation when the code is recognisably the idiom and deviates in a sub-term (>= NEAR of the
# template's nodes match at the closest candidate); below that the construct is outside the recognised idioms: analysis-broken
NEAR = float(os.environ.get("VERIF_NEAR", "1.01"))  # > 1: a template that does not match is never, by similarity alone, a violation (see DESIGN.md 7.11)


import re as _re

_NOTHING_FOUND = _re.compile(r"^\s*(|\[\]|\{\}|\(\)|None|set\(\)|\[\] \[\]|\[\] \{\}|\{\} \[\])\s*$|\bnot found\b|^0 [a-z]|\bcalls \[\]|\bdispatched \[\]|: \[\]$|^products \[\]")


def _algebra_rules():
    from .evidence_rules import ALGEBRA_RULES

    return ALGEBRA_RULES


_HELPER_CALL = _re.compile(r"(?<![\w.])(?:self\.)?_[a-z]\w*\(")


class Ctx:
    def __init__(self, prop: str, tier: str, model):
        self.prop = prop
        self.tier = tier
        self.model = model
        self.obs: list[Ob] = []
        self.notes: list[str] = []
        self.instances: dict[str, int] = {}
        self.floors: dict[str, int] = {}
        self.stats: dict[str, int] = {}
        self.rule_text: dict[str, str] = {}
        self.consulted: set[str] = set()

    # -- obligations -------------------------------------------------------------
    def ob(self, rule, construct, detail, ok, msg="", node=None, file="", path=None, evidence=None):
        """Record an obligation.  `evidence=True`: a failure of this obligation is itself positive evidence of a wrong construct
        (a dataflow fact, a value that was found and differs) -- never demoted to 'unrecognised shape'."""
        line = getattr(node, "lineno", 0) if node is not None else 0
        if node is not None and not file:
            file = getattr(node, "_file", "")
        o = Ob(rule, construct, detail, bool(ok), msg, file, line, path or [])
        from . import amatch

        misses = amatch.take_misses()
        explicit = evidence is True
        if evidence is None:
            from .evidence_rules import default_evidence

            evidence = default_evidence(rule)
        if explicit:
            misses = []
        if not ok and misses:
            o.near = max(sc for sc, _, _ in misses)
            if o.near < NEAR:
                o.unrecognised = True
                far = max(misses, key=lambda x: x[0])
                o.msg = (o.msg + f" [no recognised idiom: best match of `{far[1][:70]}` covers {far[0]:.0%} of it]").strip()
        if not ok and not explicit and not misses and _NOTHING_FOUND.search(msg or ""):
            # the extractor found nothing to judge (empty list / "not found"): the construct has no recognised shape any more
            o.unrecognised = True
            o.msg = (o.msg + " [nothing extracted: the construct is not in a recognised shape]").strip()
        if not ok and evidence and not explicit and not o.unrecognised and rule.split("/")[-1] in _algebra_rules() and _HELPER_CALL.search(msg or ""):
            # a value rule whose extracted value still contains a call of a private helper: the rule did not see what the helper computes
            o.unrecognised = True
            o.msg = (o.msg + " [the extracted value goes through a private helper the rule did not follow: nothing to judge]").strip()
        if not ok and not evidence and not o.unrecognised:
            # a shape rule whose reading of the code fails: undecided, never an alarm (sa/evidence_rules.py)
            o.unrecognised = True
            o.msg = (o.msg + " [shape rule: the code is not written the way the rule reads it; no positive evidence of a wrong construct]").strip()
        self.obs.append(o)
        return bool(ok)

    def guard(self, fn, *a, **k):
        """Run one rule; if it cannot be evaluated (AnalysisError) the other rules of the property are still run: a violation they find is
        reported, and the rule that could not be evaluated leaves an undecided obligation (exit 2 unless something else is violated)."""
        try:
            return fn(*a, **k)
        except AnalysisError as e:
            self.ob(f"{self.prop}.analysis", getattr(fn, "__name__", "rule"), "the rule can be evaluated on this code", False,
                    f"{str(e)[:300]} (analysable form not found)", None, evidence=False)
            return None

    def rule(self, rule, text):
        """Declare a rule and the text of what it decides (goes into evidence)."""
        self.rule_text[rule] = text

    def instance(self, rule, n=1):
        self.instances[rule] = self.instances.get(rule, 0) + n

    def floor(self, rule, n_min):
        self.floors[rule] = n_min

    def stat(self, name, n=1):
        self.stats[name] = self.stats.get(name, 0) + n

    def note(self, text):
        self.notes.append(text)

    def consult(self, modname):
        self.consulted.add(modname)

    def need(self, cond, what):
        if not cond:
            raise AnalysisError(what)
        return cond


def load_known():
    p = os.path.join(VERIF, "known_findings.json")
    if not os.path.exists(p):
        return {"known": [], "fixed": []}
    with open(p) as f:
        return json.load(f)


def finish(ctx: Ctx, t0: float, level: str, seed: int, extra_cov=None, write=True) -> int:
    """Evaluate floors, match findings with the known list, write evidence, exit code."""
    # floors: a rule that matched fewer instances than confirmed by hand is broken
    floor_err = None
    for rule, n_min in ctx.floors.items():
        got = ctx.instances.get(rule, 0)
        if got < n_min and floor_err is None:
            floor_err = (f"rule {rule}: found {got} instance(s), floor is {n_min} "
                         "(anchor vanished or extractor no longer understands the idiom)")
    known = load_known()
    known_keys = {
        k["key"]: k for k in known.get("known", []) if k.get("property") == ctx.prop
    }
    failed = [o for o in ctx.obs if not o.ok]
    unrec = [o for o in failed if o.unrecognised]
    failed = [o for o in failed if not o.unrecognised]
    new, listed = [], []
    seen = set()
    for o in failed:
        if o.key in seen:
            continue
        seen.add(o.key)
        (listed if o.key in known_keys else new).append(o)
    for o in listed:
        print(f"KNOWN-FINDING: property={ctx.prop} {o.key} :: {known_keys[o.key].get('what', o.msg)}")
    for n in ctx.notes:
        print(f"NOTE: {n}")
    for o in unrec[:20]:
        print(f"UNRECOGNISED property={ctx.prop} rule={o.rule} {o.file}:{o.line} construct={o.construct} detail={o.detail} :: {o.msg}")
    # a rule that lost instances makes the run undecided -- unless another obligation already carries positive evidence of a violation,
    # which stands on its own
    if floor_err and not new:
        raise AnalysisError(floor_err)
    if floor_err:
        print(f"NOTE: {floor_err}")
    if unrec and not new:
        raise AnalysisError(f"{len(unrec)} obligation(s) could not be decided: the code at {unrec[0].construct} no longer has a shape the rule {unrec[0].rule} recognises "
                            f"({unrec[0].detail[:80]}); the rule needs re-confirmation against the new code")
    replay = None
    if new:
        os.makedirs(os.path.join(VERIF, "replay"), exist_ok=True)
        replay = os.path.join(VERIF, "replay", f"{ctx.prop}.json")
        with open(replay, "w") as f:
            json.dump(
                [
                    dict(
                        property=ctx.prop, rule=o.rule, construct=o.construct,
                        detail=o.detail, message=o.msg, file=o.file, line=o.line,
                        path=o.path, key=o.key,
                    )
                    for o in new
                ],
                f, indent=1,
            )
        for o in new[:60]:
            print(
                f"FINDING property={ctx.prop} rule={o.rule} {o.file}:{o.line} "
                f"construct={o.construct} detail={o.detail} :: {o.msg}"
            )
        if len(new) > 60:
            print(f"... {len(new) - 60} more finding(s) in {replay}")
        print(f"VIOLATION property={ctx.prop} replay={replay}")
    # evidence
    n_ob = len(ctx.obs)
    n_ok = sum(1 for o in ctx.obs if o.ok)
    samples = []
    per_rule = {}
    for o in ctx.obs:
        per_rule.setdefault(o.rule, [0, 0])
        per_rule[o.rule][0] += 1
        per_rule[o.rule][1] += int(o.ok)
    shown = set()
    for o in ctx.obs:
        if o.rule in shown:
            continue
        shown.add(o.rule)
        samples.append(
            dict(rule=o.rule, construct=o.construct, obligation=o.detail, holds=o.ok,
                 where=f"{o.file}:{o.line}", note=o.msg[:200])
        )
    for o in failed[:10]:
        samples.append(dict(rule=o.rule, construct=o.construct, obligation=o.detail,
                            holds=False, where=f"{o.file}:{o.line}", note=o.msg[:300]))
    digests = {m: ctx.model.digest(m) for m in sorted(ctx.consulted)} if ctx.model else {}
    distinct = len({o.key for o in ctx.obs})
    cov = {
        "obligations": n_ob,
        "discharged": n_ok,
        "evaluations": max(n_ob, 1),
        "distinct_nontrivial": distinct,
        "rule": "one obligation per (rule, construct, normalised detail) extracted from "
                "/repo's current source; distinct = distinct keys",
        "checker_cmd": f"./check {ctx.prop} --tier {ctx.tier}",
        "trusted_base": [
            "python3 stdlib ast parser",
            "sa/fold.py model of literals, string indexing, + - * / **, np.sqrt, np.array",
            "sa/algebra.py normal forms",
        ],
        "explanation": "static analysis of /repo/src/darsia (ast only, nothing imported or run). "
        + " ".join(f"[{r}] {t}" for r, t in sorted(ctx.rule_text.items())),
        "rules": {
            r: dict(text=ctx.rule_text.get(r, ""), obligations=v[0], discharged=v[1],
                    instances=ctx.instances.get(r, 0), floor=ctx.floors.get(r, 0))
            for r, v in sorted(per_rule.items())
        },
        "modules_consulted": digests,
        "stats": ctx.stats,
        "samples": samples,
        "known_findings_matched": [o.key for o in listed],
        "exhaustive": level == "proof",
        "notes": ctx.notes[:50],
    }
    if extra_cov:
        cov.update(extra_cov)
    ev = {
        "property_id": ctx.prop,
        "tier": ctx.tier,
        "seed": seed,
        "level": level,
        "coverage": cov,
        "assumptions": [
            "the deciding step reads only /repo/src/darsia/**/*.py as it is on disk now",
            "external libraries (numpy, scipy, cv2, skimage) behave as in the frozen summary tables of the engines",
            "a pass decides the structural clauses named in coverage.rules, not the numerical clauses listed as declined in DESIGN.md",
        ],
        "wall_s": round(time.time() - t0, 3),
        "violations": len(new),
    }
    if write:
        os.makedirs(os.path.join(VERIF, "evidence"), exist_ok=True)
        with open(os.path.join(VERIF, "evidence", f"{ctx.prop}.json"), "w") as f:
            json.dump(ev, f, indent=1, default=str)
    print(
        f"{ctx.prop} tier={ctx.tier}: {n_ok}/{n_ob} obligations discharged, "
        f"{len(listed)} known finding(s), {len(new)} new violation(s), "
        f"{ev['wall_s']}s"
    )
    return 1 if new else 0
