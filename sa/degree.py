"""Homogeneity-degree ("dimensional") analysis of array expressions: every value gets the degree d such that scaling a designated
quantity by c scales the value by c**d.  Sums need equal degrees, products add, quotients subtract, powers multiply; a small table
lists library and repository functions that are homogeneous of degree one in one argument (averages, norms, reshapes, ...).

Used where a property says "scales linearly with ...": the degree of the result is decided from the source, for every branch."""
from __future__ import annotations

import ast
from fractions import Fraction

from .srcmodel import norm

ANY = "any"       # unifies with every degree (zero arrays, regularisation floors)
UNKNOWN = None


class Mismatch(Exception):
    pass


def _join(a, b, what=""):
    if a is UNKNOWN or b is UNKNOWN:
        return UNKNOWN
    if a == ANY:
        return b
    if b == ANY:
        return a
    if a != b:
        raise Mismatch(f"{what}: terms of degree {a} and {b} are combined")
    return a


class Degree:
    """`base(expr_text)` gives the degree of leaf expressions (attribute paths, names) or None to fall through; `calls` maps a
    normalised callee text to a function (evaluator, call node, env) -> degree; `resolve(call)` returns a repository function
    (with .node, .params) to be evaluated in place, or None."""

    PASS_FIRST = {"np.ravel", "np.abs", "np.absolute", "np.sum", "np.mean", "np.max", "np.min", "np.asarray", "np.array", "np.squeeze", "np.transpose", "np.copy", "np.sort",
                  "np.atleast_1d", "np.atleast_2d", "np.reshape", "np.linalg.norm", "hmean", "scipy.stats.hmean", "np.hstack", "np.vstack", "np.concatenate", "np.stack", "sps.diags"}
    ZERO = {"np.zeros", "np.zeros_like", "np.empty", "np.empty_like"}
    PASS_METHODS = {"reshape", "ravel", "flatten", "copy", "astype", "sum", "mean", "max", "min", "squeeze", "transpose", "dot"}

    def __init__(self, base, calls=None, resolve=None, max_depth=4):
        self.base, self.calls, self.resolve, self.max_depth = base, calls or {}, resolve, max_depth
        self.depth = 0

    # ---- expressions
    def ev(self, e, env):
        t = norm(e)
        b = self.base(t)
        if b is not None:
            return b
        if isinstance(e, ast.Constant):
            return 0
        if isinstance(e, ast.Name):
            return env.get(e.id, 0 if e.id in ("np", "darsia") else UNKNOWN) if e.id in env else UNKNOWN
        if isinstance(e, ast.UnaryOp):
            return self.ev(e.operand, env)
        if isinstance(e, ast.BinOp):
            a, c = self.ev(e.left, env), self.ev(e.right, env)
            if isinstance(e.op, (ast.Add, ast.Sub)):
                return _join(a, c, t[:60])
            if a is UNKNOWN or c is UNKNOWN:
                return UNKNOWN
            if isinstance(e.op, (ast.Mult, ast.MatMult)):
                return ANY if ANY in (a, c) and 0 in (a, c) and a != c and False else (a if c == ANY else c if a == ANY else a + c)
            if isinstance(e.op, ast.Div):
                return a if c == ANY else (ANY if a == ANY else a - c)
            if isinstance(e.op, ast.Pow):
                if isinstance(e.right, ast.Constant) and isinstance(e.right.value, (int, float)):
                    return ANY if a == ANY else a * Fraction(repr(e.right.value))
                return UNKNOWN
            return UNKNOWN
        if isinstance(e, ast.Subscript):
            return self.ev(e.value, env)
        if isinstance(e, ast.IfExp):
            return _join(self.ev(e.body, env), self.ev(e.orelse, env), t[:60])
        if isinstance(e, (ast.Tuple, ast.List)):
            d = ANY
            for x in e.elts:
                d = _join(d, self.ev(x, env), t[:60])
            return d
        if isinstance(e, ast.Attribute):
            if e.attr in ("T", "real"):
                return self.ev(e.value, env)
            if e.attr in ("shape", "ndim", "size", "dtype"):
                return 0
            return UNKNOWN
        if isinstance(e, ast.Call):
            return self.call(e, env)
        return UNKNOWN

    def call(self, c, env):
        d = norm(c.func)
        if d in self.calls:
            return self.calls[d](self, c, env)
        if d in self.ZERO:
            return ANY
        if d in ("np.ones", "np.ones_like", "np.arange", "range", "len", "float", "int"):
            return 0
        if d in ("np.maximum", "np.minimum", "np.fmax", "np.fmin") and len(c.args) == 2:
            return _join(self.ev(c.args[0], env), self.ev(c.args[1], env), norm(c)[:60])
        if d == "np.sqrt" and c.args:
            a = self.ev(c.args[0], env)
            return a if a in (ANY, UNKNOWN) else Fraction(a) / 2
        if d in ("np.multiply",) and len(c.args) == 2:
            a, b = self.ev(c.args[0], env), self.ev(c.args[1], env)
            return UNKNOWN if UNKNOWN in (a, b) else (a if b == ANY else b if a == ANY else a + b)
        if d in ("np.divide",) and len(c.args) == 2:
            a, b = self.ev(c.args[0], env), self.ev(c.args[1], env)
            return UNKNOWN if UNKNOWN in (a, b) else (a if b == ANY else ANY if a == ANY else a - b)
        if d in self.PASS_FIRST and c.args:
            return self.ev(c.args[0], env)
        if isinstance(c.func, ast.Attribute) and c.func.attr in self.PASS_METHODS and not d.startswith(("np.", "darsia.", "self.")):
            return self.ev(c.func.value, env)
        g = self.resolve(c) if self.resolve else None
        if g is not None and self.depth < self.max_depth:
            params = [p for p in g.params if p not in ("self", "cls")]
            sub = {}
            for p, a in zip(params, c.args):
                sub[p] = self.ev(a, env)
            for k in c.keywords:
                if k.arg in params:
                    sub[k.arg] = self.ev(k.value, env)
            defaults = dict(zip(reversed([a.arg for a in g.node.args.args]), reversed(g.node.args.defaults)))
            for p in params:
                if p not in sub:
                    sub[p] = 0 if p in defaults else UNKNOWN
            self.depth += 1
            try:
                rets = self.returns(g.node.body, sub)
            finally:
                self.depth -= 1
            vals = {r for r in rets}
            if len(vals) == 1:
                return next(iter(vals))
            if vals and all(not isinstance(v, tuple) for v in vals) and len({v for v in vals if v not in (ANY,)}) <= 1:
                return next((v for v in vals if v != ANY), ANY)
            raise Mismatch(f"{norm(c)[:50]}: return paths of {g.short} have degrees {sorted(map(str, vals))}")
        return UNKNOWN

    # ---- statements: all return values over all branch combinations (conditions are not interpreted)
    def returns(self, stmts, env):
        out = []
        self._run(list(stmts), dict(env), out)
        return out

    def _run(self, stmts, env, out):
        for i, st in enumerate(stmts):
            if isinstance(st, ast.Return):
                v = st.value
                if isinstance(v, ast.Tuple):
                    out.append(tuple(self.ev(x, env) for x in v.elts))
                else:
                    out.append(self.ev(v, env) if v is not None else 0)
                return True
            if isinstance(st, ast.Raise):
                return True
            if isinstance(st, ast.If):
                rest = stmts[i + 1:]
                done_a = self._run(list(st.body) + rest, dict(env), out)
                done_b = self._run(list(st.orelse) + rest, dict(env), out)
                return True
            if isinstance(st, (ast.For, ast.While)):
                # loop bodies are run once (degrees do not depend on the trip count; accumulations join with what is there)
                self._run(list(st.body), env, [])
                continue
            if isinstance(st, ast.Assign):
                v = self.ev(st.value, env) if not isinstance(st.value, ast.Tuple) else None
                for t in st.targets:
                    if isinstance(t, ast.Name):
                        env[t.id] = v if not isinstance(st.value, ast.Tuple) else self.ev(st.value, env)
                    elif isinstance(t, ast.Tuple) and isinstance(st.value, ast.Tuple) and len(t.elts) == len(st.value.elts):
                        for tt, vv in zip(t.elts, st.value.elts):
                            if isinstance(tt, ast.Name):
                                env[tt.id] = self.ev(vv, env)
                    elif isinstance(t, ast.Tuple) and isinstance(st.value, ast.Call):
                        r = self.ev(st.value, env)
                        for k, tt in enumerate(t.elts):
                            if isinstance(tt, ast.Name):
                                env[tt.id] = r[k] if isinstance(r, tuple) and k < len(r) else UNKNOWN
                    elif isinstance(t, ast.Subscript) and isinstance(t.value, ast.Name):
                        env[t.value.id] = _join(env.get(t.value.id, ANY), self.ev(st.value, env), norm(st)[:60])
            elif isinstance(st, ast.AugAssign) and isinstance(st.target, ast.Name):
                cur = env.get(st.target.id, UNKNOWN)
                v = self.ev(st.value, env)
                if isinstance(st.op, (ast.Add, ast.Sub)):
                    env[st.target.id] = _join(cur, v, norm(st)[:60])
                elif isinstance(st.op, ast.Mult):
                    env[st.target.id] = UNKNOWN if UNKNOWN in (cur, v) else (cur if v == ANY else v if cur == ANY else cur + v)
                elif isinstance(st.op, ast.Div):
                    env[st.target.id] = UNKNOWN if UNKNOWN in (cur, v) else (cur if v == ANY else cur - v)
        return False
