"""E4 -- algebraic normal forms of single expressions.

(a) commutative Laurent polynomials over atoms (uninterpreted applications are atoms
    keyed by the normal form of their arguments); division is allowed by single-term
    polynomials only; declared involutions (s*s = 1) are reduced.
(d) non-commutative words for matrix products with transpose / inverse.
No search, no solver: two expressions are equal iff their normal forms are identical.
"""
from __future__ import annotations

import ast
from fractions import Fraction


class NotPolynomial(Exception):
    pass


class Poly:
    """Laurent polynomial: {monomial: coef}; monomial = tuple(sorted((atom, exp)))."""

    def __init__(self, terms=None):
        self.t = {m: c for m, c in (terms or {}).items() if c != 0}

    @staticmethod
    def const(c):
        return Poly({(): Fraction(c)})

    @staticmethod
    def atom(name):
        return Poly({((name, 1),): Fraction(1)})

    def __add__(self, o):
        if not isinstance(o, Poly):
            o = Poly.const(o)
        r = dict(self.t)
        for m, c in o.t.items():
            r[m] = r.get(m, 0) + c
        return Poly(r)

    def __neg__(self):
        return Poly({m: -c for m, c in self.t.items()})

    def __sub__(self, o):
        return self + (-o)

    @staticmethod
    def _mmul(a, b):
        d = dict(a)
        for k, e in b:
            d[k] = d.get(k, 0) + e
        return tuple(sorted((k, e) for k, e in d.items() if e != 0))

    def __mul__(self, o):
        if not isinstance(o, Poly):
            o = Poly.const(o)
        r = {}
        for m1, c1 in self.t.items():
            for m2, c2 in o.t.items():
                m = self._mmul(m1, m2)
                r[m] = r.get(m, 0) + c1 * c2
        return Poly(r)

    def inv(self):
        if len(self.t) != 1:
            raise NotPolynomial("division by a multi-term expression")
        (m, c), = self.t.items()
        return Poly({tuple((k, -e) for k, e in m): Fraction(1) / c})

    def __truediv__(self, o):
        return self * o.inv()

    def __pow__(self, n):
        if n < 0:
            return self.inv() ** (-n)
        r = Poly.const(1)
        for _ in range(n):
            r = r * self
        return r

    def reduce_involutions(self, atoms):
        """Apply a*a = 1 for the given atoms."""
        r = {}
        for m, c in self.t.items():
            m2 = tuple(sorted((k, (e % 2) if k in atoms else e) for k, e in m))
            m2 = tuple((k, e) for k, e in m2 if e != 0)
            r[m2] = r.get(m2, 0) + c
        return Poly(r)

    def subst(self, atom, poly):
        out = Poly()
        for m, c in self.t.items():
            term = Poly.const(c)
            for k, e in m:
                base = poly if k == atom else Poly.atom(k)
                term = term * (base ** e)
            out = out + term
        return out

    def atoms(self):
        return {k for m in self.t for k, _ in m}

    def is_const(self):
        return all(m == () for m in self.t)

    def const_value(self):
        return self.t.get((), Fraction(0)) if self.is_const() else None

    def __eq__(self, o):
        return isinstance(o, Poly) and self.t == o.t

    def __hash__(self):
        return hash(tuple(sorted(self.t.items())))

    def __repr__(self):
        if not self.t:
            return "0"
        parts = []
        for m, c in sorted(self.t.items(), key=lambda kv: str(kv[0])):
            mon = "*".join(k if e == 1 else f"{k}^{e}" for k, e in m)
            if not mon:
                parts.append(str(c))
            elif c == 1:
                parts.append(mon)
            elif c == -1:
                parts.append("-" + mon)
            else:
                parts.append(f"{c}*{mon}")
        return " + ".join(parts)


_MUL_FUNCS = {"np.multiply", "numpy.multiply"}
_ADD_FUNCS = {"np.add", "numpy.add"}
_SUB_FUNCS = {"np.subtract", "numpy.subtract"}
_DIV_FUNCS = {"np.divide", "numpy.divide", "np.true_divide"}


def dotted(node):
    parts = []
    while isinstance(node, ast.Attribute):
        parts.append(node.attr)
        node = node.value
    if isinstance(node, ast.Name):
        parts.append(node.id)
        return ".".join(reversed(parts))
    return None


class ToPoly:
    """Convert an expression to a Poly.

    env: local name -> Poly (inlined single-assignment locals)
    atomize(node) -> str | Poly | None: lets a rule name leaves by role; None = default
    transparent: set of dotted callee names treated as identity on their first argument
    """

    def __init__(self, env=None, atomize=None, transparent=()):
        self.env = env or {}
        self.atomize = atomize
        self.transparent = set(transparent)

    def __call__(self, n):
        if self.atomize is not None:
            a = self.atomize(n)
            if isinstance(a, Poly):
                return a
            if isinstance(a, str):
                return Poly.atom(a)
        if isinstance(n, ast.Constant):
            if isinstance(n.value, bool) or not isinstance(n.value, (int, float)):
                raise NotPolynomial(f"constant {n.value!r}")
            return Poly.const(Fraction(repr(n.value)) if isinstance(n.value, float) else n.value)
        if isinstance(n, ast.Name):
            if n.id in self.env:
                return self.env[n.id]
            return Poly.atom(n.id)
        if isinstance(n, ast.UnaryOp) and isinstance(n.op, ast.USub):
            return -self(n.operand)
        if isinstance(n, ast.UnaryOp) and isinstance(n.op, ast.UAdd):
            return self(n.operand)
        if isinstance(n, ast.BinOp):
            if isinstance(n.op, ast.Add):
                return self(n.left) + self(n.right)
            if isinstance(n.op, ast.Sub):
                return self(n.left) - self(n.right)
            if isinstance(n.op, ast.Mult):
                return self(n.left) * self(n.right)
            if isinstance(n.op, ast.Div):
                return self(n.left) / self(n.right)
            if isinstance(n.op, ast.Pow) and isinstance(n.right, ast.Constant) and isinstance(n.right.value, int):
                return self(n.left) ** n.right.value
            raise NotPolynomial(f"operator {type(n.op).__name__}")
        if isinstance(n, ast.IfExp):
            # `a if c else b` is an atom keyed by its parts (rules may atomize it by role first)
            return Poly.atom(f"ite({self.key(n.test)},{self(n.body)!r},{self(n.orelse)!r})")
        if isinstance(n, ast.Call):
            d = dotted(n.func)
            if d in self.transparent and n.args:
                return self(n.args[0])
            if d in _MUL_FUNCS and len(n.args) == 2:
                return self(n.args[0]) * self(n.args[1])
            if d in _ADD_FUNCS and len(n.args) == 2:
                return self(n.args[0]) + self(n.args[1])
            if d in _SUB_FUNCS and len(n.args) == 2:
                return self(n.args[0]) - self(n.args[1])
            if d in _DIV_FUNCS and len(n.args) == 2:
                return self(n.args[0]) / self(n.args[1])
            if d in ("np.square", "numpy.square") and len(n.args) == 1:
                return self(n.args[0]) ** 2
            args = ",".join(self.key(a) for a in n.args)
            kws = ",".join(f"{k.arg}={self.key(k.value)}" for k in sorted(n.keywords, key=lambda k: k.arg or ""))
            fname = d or self.key(n.func)
            return Poly.atom(f"{fname}({args}{';' + kws if kws else ''})")
        if isinstance(n, (ast.Attribute, ast.Subscript)):
            return Poly.atom(self.key(n))
        raise NotPolynomial(f"expression kind {type(n).__name__}")

    def key(self, n):
        """Normal-form text of a sub-expression (polynomial where possible)."""
        try:
            if isinstance(n, (ast.BinOp, ast.UnaryOp, ast.Name, ast.Constant, ast.Call)):
                if isinstance(n, ast.Constant) and not isinstance(n.value, (int, float)):
                    return repr(n.value)
                return repr(self(n))
        except NotPolynomial:
            pass
        if isinstance(n, ast.Subscript):
            return f"{self.key(n.value)}[{self.key(n.slice)}]"
        if isinstance(n, ast.Attribute):
            return f"{self.key(n.value)}.{n.attr}"
        if isinstance(n, ast.Tuple):
            return "(" + ",".join(self.key(e) for e in n.elts) + ")"
        if isinstance(n, ast.Slice):
            return ":".join(self.key(x) if x is not None else "" for x in (n.lower, n.upper, n.step))
        return " ".join(ast.unparse(n).split())


# ---- (d) non-commutative words ---------------------------------------------------------------

class Word:
    """Product of factors; factor = (symbol, inverted, transposed). Identity = empty word."""

    def __init__(self, factors=()):
        self.f = tuple(factors)

    def __matmul__(self, o):
        return Word(self.f + o.f).cancel()

    def T(self):
        return Word(tuple((s, inv, not tr) for s, inv, tr in reversed(self.f)))

    def inv(self):
        return Word(tuple((s, not inv, tr) for s, inv, tr in reversed(self.f)))

    def cancel(self, orthogonal=()):
        out = []
        for fac in self.f:
            s, inv, tr = fac
            if s in orthogonal and tr:  # Q^T = Q^-1
                fac = (s, not inv, False)
            if out and out[-1][0] == fac[0] and out[-1][2] == fac[2] and out[-1][1] != fac[1]:
                out.pop()
            else:
                out.append(fac)
        return Word(out)

    def is_identity(self):
        return not self.f

    def __eq__(self, o):
        return isinstance(o, Word) and self.f == o.f

    def __hash__(self):
        return hash(self.f)

    def __repr__(self):
        if not self.f:
            return "I"
        return " @ ".join(s + ("^-1" if inv else "") + (".T" if tr else "") for s, inv, tr in self.f)


def sym(name):
    return Word(((name, False, False),))


# ---- (d') non-commutative polynomials: sums of matrix words -------------------------------------

class NC:
    """Sum of products of matrix symbols with commutative (Poly) coefficients:
    {tuple((sym, transposed), ...): Poly}."""

    def __init__(self, terms=None):
        self.t = {}
        for k, v in (terms or {}).items():
            if not isinstance(v, Poly):
                v = Poly.const(v)
            if v.t:
                self.t[k] = v

    @staticmethod
    def sym(name):
        return NC({((name, False),): Poly.const(1)})

    @staticmethod
    def const(c):
        return NC({(): c if isinstance(c, Poly) else Poly.const(c)})

    def is_scalar(self):
        return all(k == () for k in self.t)

    def scalar(self):
        return self.t.get((), Poly())

    def __add__(self, o):
        r = dict(self.t)
        for k, v in o.t.items():
            r[k] = r[k] + v if k in r else v
        return NC(r)

    def __neg__(self):
        return NC({k: -v for k, v in self.t.items()})

    def __sub__(self, o):
        return self + (-o)

    def __matmul__(self, o):
        r = {}
        for k1, v1 in self.t.items():
            for k2, v2 in o.t.items():
                k = k1 + k2
                r[k] = r[k] + v1 * v2 if k in r else v1 * v2
        return NC(r)

    def T(self):
        return NC({tuple((s, not tr) for s, tr in reversed(k)): v for k, v in self.t.items()})

    def scale(self, c):
        c = c if isinstance(c, Poly) else Poly.const(c)
        return NC({k: v * c for k, v in self.t.items()})

    def rewrite(self, rules):
        """rules: {(sym, transposed): (sym2, transposed2)} applied factor-wise (e.g. D^T -> DT)."""
        r = {}
        for k, v in self.t.items():
            k2 = tuple(rules.get(f, f) for f in k)
            r[k2] = r[k2] + v if k2 in r else v
        return NC(r)

    def subst(self, name, expr):
        out = NC()
        for k, v in self.t.items():
            term = NC.const(v)
            for s, tr in k:
                if s == name:
                    term = term @ (expr.T() if tr else expr)
                else:
                    term = term @ NC({((s, tr),): Poly.const(1)})
            out = out + term
        return out

    def cancel(self, inverse_pairs):
        """Remove adjacent A.A^-1 (either order, both plain or both transposed) for declared pairs (A, Ainv)."""
        inv = {}
        for a, b in inverse_pairs:
            inv[a] = b
            inv[b] = a
        r = {}
        for k, v in self.t.items():
            out = []
            for f in k:
                if out and inv.get(out[-1][0]) == f[0] and out[-1][1] == f[1]:
                    out.pop()
                else:
                    out.append(f)
            k2 = tuple(out)
            r[k2] = r[k2] + v if k2 in r else v
        return NC(r)

    def __eq__(self, o):
        return isinstance(o, NC) and self.t == o.t

    def __hash__(self):
        return hash(tuple(sorted((k, hash(v)) for k, v in self.t.items())))

    def __repr__(self):
        if not self.t:
            return "0"
        out = []
        for k, v in sorted(self.t.items(), key=lambda kv: str(kv[0])):
            w = " . ".join(s + (".T" if tr else "") for s, tr in k) or "1"
            c = repr(v)
            out.append(w if c == "1" else (f"-{w}" if c == "-1" else f"({c})*{w}"))
        return " + ".join(out)


class ToNC:
    """Expression -> NC. `.dot`, `@`, np.matmul are products; `.T`/np.transpose transposes; `.copy()` is transparent.
    `scalars`: normalised texts of sub-expressions that are commutative scalars (e.g. 'self.scaling')."""

    def __init__(self, env=None, symbolize=None, scalars=()):
        self.env = env or {}
        self.symbolize = symbolize
        self.scalars = set(scalars)

    def __call__(self, n):
        if self.symbolize is not None:
            s = self.symbolize(n)
            if isinstance(s, NC):
                return s
            if isinstance(s, str):
                return NC.sym(s)
        txt = " ".join(ast.unparse(n).split()) if isinstance(n, (ast.Name, ast.Attribute)) else None
        if txt is not None and txt in self.scalars:
            return NC.const(Poly.atom(txt))
        if isinstance(n, ast.Name):
            if n.id in self.env:
                return self(self.env[n.id]) if not isinstance(self.env[n.id], NC) else self.env[n.id]
            return NC.sym(n.id)
        if isinstance(n, ast.Constant) and isinstance(n.value, (int, float)) and not isinstance(n.value, bool):
            return NC.const(Fraction(repr(n.value)) if isinstance(n.value, float) else n.value)
        if isinstance(n, ast.UnaryOp) and isinstance(n.op, ast.USub):
            return -self(n.operand)
        if isinstance(n, ast.BinOp):
            if isinstance(n.op, ast.MatMult):
                return self(n.left) @ self(n.right)
            if isinstance(n.op, ast.Add):
                return self(n.left) + self(n.right)
            if isinstance(n.op, ast.Sub):
                return self(n.left) - self(n.right)
            if isinstance(n.op, ast.Mult):
                l, r = self(n.left), self(n.right)
                if l.is_scalar():
                    return r.scale(l.scalar())
                if r.is_scalar():
                    return l.scale(r.scalar())
                return l @ r  # elementwise product of symbols treated as an opaque ordered product
            if isinstance(n.op, ast.Div):
                l, r = self(n.left), self(n.right)
                if r.is_scalar():
                    try:
                        return l.scale(r.scalar().inv())
                    except NotPolynomial:
                        pass
        if isinstance(n, ast.Attribute):
            if n.attr == "T":
                return self(n.value).T()
            d = dotted(n)
            if d:
                return NC.sym(d)
        if isinstance(n, ast.Call):
            f = n.func
            if isinstance(f, ast.Attribute) and f.attr == "dot" and len(n.args) == 1:
                return self(f.value) @ self(n.args[0])
            if isinstance(f, ast.Attribute) and f.attr in ("copy", "tocsc", "tocsr") and not n.args:
                return self(f.value)
            if isinstance(f, ast.Attribute) and f.attr == "transpose" and not n.args:
                return self(f.value).T()
            d = dotted(f)
            if d in ("np.matmul", "np.dot") and len(n.args) == 2:
                return self(n.args[0]) @ self(n.args[1])
            if d in ("np.transpose",) and len(n.args) == 1:
                return self(n.args[0]).T()
        return NC.sym(" ".join(ast.unparse(n).split()))
