"""Canonical form of function bodies, applied to every module before any rule looks at it.

The rules compare shapes of code; shapes that differ only by one of the rewrites below denote the same computation, so they
are mapped to one representative first (line numbers of the surviving nodes are kept for reports):

 N1  inert statements (`pass`, bare constant expressions other than docstrings) are dropped;
 N2  `if not X: A else: B` becomes `if X: B else: A`;
 N4  `a > b` becomes `b < a` (likewise >=), and a constant operand of == / != / is / is not goes to the right;
 N3  a local bound once by `t = E` and read once, in the immediately following simple statement (not under a lambda or a
     comprehension), is replaced by E at that use.

None of these changes what any path computes; N3 only changes the evaluation order inside one statement.
"""
from __future__ import annotations

import ast

_SIMPLE = (ast.Assign, ast.AugAssign, ast.AnnAssign, ast.Expr, ast.Return)


def _is_docstring_pos(owner, idx, st):
    return idx == 0 and isinstance(owner, (ast.FunctionDef, ast.AsyncFunctionDef, ast.ClassDef, ast.Module)) and isinstance(st, ast.Expr) \
        and isinstance(st.value, ast.Constant) and isinstance(st.value.value, str)


def _blocks(node):
    for fld in ("body", "orelse", "finalbody"):
        lst = getattr(node, fld, None)
        if isinstance(lst, list) and lst and isinstance(lst[0], ast.stmt):
            yield fld, lst
    if isinstance(node, ast.Try):
        for h in node.handlers:
            yield "body", h.body


def _n1(tree):
    for node in ast.walk(tree):
        for fld, lst in list(_blocks(node)):
            keep = []
            for i, st in enumerate(lst):
                if isinstance(st, ast.Pass):
                    continue
                if isinstance(st, ast.Expr) and isinstance(st.value, ast.Constant) and not _is_docstring_pos(node, i, st) and fld == "body" and not isinstance(st.value.value, str):
                    continue
                keep.append(st)
            if not keep:
                keep = [lst[0]] if lst else keep
            lst[:] = keep


def _n2(tree):
    for node in ast.walk(tree):
        if isinstance(node, ast.If) and node.orelse and isinstance(node.test, ast.UnaryOp) and isinstance(node.test.op, ast.Not):
            node.test = node.test.operand
            node.body, node.orelse = node.orelse, node.body


def _own_scope(fn):
    stack = list(ast.iter_child_nodes(fn))
    while stack:
        n = stack.pop()
        yield n
        if isinstance(n, (ast.FunctionDef, ast.AsyncFunctionDef, ast.Lambda, ast.ClassDef)):
            # a nested scope: its own stores are other variables, but its reads of *free* names count as uses of ours
            own = set()
            if not isinstance(n, ast.ClassDef):
                a = n.args
                own |= {x.arg for x in a.posonlyargs + a.args + a.kwonlyargs} | ({a.vararg.arg} if a.vararg else set()) | ({a.kwarg.arg} if a.kwarg else set())
            declared = set()
            for x in ast.walk(n):
                if isinstance(x, ast.Name) and isinstance(x.ctx, (ast.Store, ast.Del)):
                    own.add(x.id)
                elif isinstance(x, (ast.Global, ast.Nonlocal)):
                    declared |= set(x.names)
                    yield x
            own -= declared
            for x in ast.walk(n):
                if isinstance(x, ast.Name) and isinstance(x.ctx, ast.Load) and x.id not in own:
                    yield x
            continue
        stack.extend(ast.iter_child_nodes(n))


def _counts(fn):
    stores, loads = {}, {}
    for a in fn.args.posonlyargs + fn.args.args + fn.args.kwonlyargs + ([fn.args.vararg] if fn.args.vararg else []) + ([fn.args.kwarg] if fn.args.kwarg else []):
        stores[a.arg] = stores.get(a.arg, 0) + 2
    for n in _own_scope(fn):
        if isinstance(n, ast.Name):
            d = stores if isinstance(n.ctx, (ast.Store, ast.Del)) else loads
            d[n.id] = d.get(n.id, 0) + 1
        elif isinstance(n, ast.arg):
            stores[n.arg] = stores.get(n.arg, 0) + 2  # parameters are never temporaries
        elif isinstance(n, (ast.Global, ast.Nonlocal)):
            for x in n.names:
                stores[x] = stores.get(x, 0) + 2
        elif isinstance(n, ast.ExceptHandler) and n.name:
            stores[n.name] = stores.get(n.name, 0) + 2
    return stores, loads


def _use_site(stmt, name):
    """The single Load of `name` inside stmt if it is not under a lambda / comprehension / nested def; else None."""
    found = []

    def walk(n, shielded):
        if isinstance(n, ast.Name) and n.id == name and isinstance(n.ctx, ast.Load):
            found.append((n, shielded))
        for c in ast.iter_child_nodes(n):
            walk(c, shielded or isinstance(c, (ast.Lambda, ast.ListComp, ast.SetComp, ast.DictComp, ast.GeneratorExp, ast.FunctionDef, ast.AsyncFunctionDef)))
    walk(stmt, False)
    if len(found) == 1 and not found[0][1]:
        return found[0][0]
    return None


def _replace(stmt, old, new):
    for parent in ast.walk(stmt):
        for fld, val in ast.iter_fields(parent):
            if val is old:
                setattr(parent, fld, new)
                return True
            if isinstance(val, list):
                for i, x in enumerate(val):
                    if x is old:
                        val[i] = new
                        return True
    return False


def _n3(tree):
    for fn in [n for n in ast.walk(tree) if isinstance(n, (ast.FunctionDef, ast.AsyncFunctionDef))]:
        changed = True
        while changed:
            changed = False
            stores, loads = _counts(fn)
            for node in ast.walk(fn):
                for fld, lst in _blocks(node):
                    for i in range(len(lst) - 1):
                        st, nxt = lst[i], lst[i + 1]
                        if not (isinstance(st, ast.Assign) and len(st.targets) == 1 and isinstance(st.targets[0], ast.Name) and isinstance(nxt, _SIMPLE)):
                            continue
                        t = st.targets[0].id
                        if stores.get(t, 0) != 1 or loads.get(t, 0) != 1:
                            continue
                        if any(isinstance(x, (ast.Yield, ast.YieldFrom, ast.Await, ast.NamedExpr, ast.Starred)) for x in ast.walk(st.value)):
                            continue
                        use = _use_site(nxt, t)
                        if use is None:
                            continue
                        # an augmented target or a store into the temporary itself is not a read
                        if _replace(nxt, use, st.value):
                            del lst[i]
                            changed = True
                            break
                    if changed:
                        break
                if changed:
                    break


_FLIP = {ast.Gt: ast.Lt, ast.GtE: ast.LtE}


def _is_const(e):
    return isinstance(e, ast.Constant) or (isinstance(e, ast.UnaryOp) and isinstance(e.op, (ast.USub, ast.UAdd)) and isinstance(e.operand, ast.Constant))


def _n4(tree):
    """Comparisons: `a > b` -> `b < a`, `a >= b` -> `b <= a`; for == / != / is / is not with exactly one constant operand the constant goes right."""
    for node in ast.walk(tree):
        if isinstance(node, ast.Compare) and len(node.ops) == 1:
            op = node.ops[0]
            l, r = node.left, node.comparators[0]
            if type(op) in _FLIP:
                node.left, node.comparators[0], node.ops[0] = r, l, _FLIP[type(op)]()
            elif isinstance(op, (ast.Eq, ast.NotEq, ast.Is, ast.IsNot)) and _is_const(l) and not _is_const(r):
                node.left, node.comparators[0] = r, l


def normalize(tree):
    _n1(tree)
    _n2(tree)
    _n4(tree)
    _n3(tree)
    ast.fix_missing_locations(tree)
    return tree
