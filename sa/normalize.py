"""Canonical form of function bodies, applied to every module before any rule looks at it.

The rules compare shapes of code; shapes that differ only by one of the rewrites below denote the same computation, so they
are mapped to one representative first (line numbers of the surviving nodes are kept for reports):

 N1  inert statements (`pass`, bare constant expressions other than docstrings) are dropped;
 N2  `if not X: A else: B` becomes `if X: B else: A`;
 N5  spellings of one numpy operation get one representative (np.multiply(a, b) -> a * b, a.dot(b) -> a @ b, a.min() -> np.min(a), ...);
 N6  a local bound once to a pure attribute path of self / a parameter that the function never stores to is replaced by that path;
 N4  `a > b` becomes `b < a` (likewise >=), and a constant operand of == / != / is / is not goes to the right;
 N3  a local bound once by `t = E` and read once, in the immediately following simple statement (not under a lambda or a
     comprehension), is replaced by E at that use.

None of these changes what any path computes; N3 only changes the evaluation order inside one statement.
"""
from __future__ import annotations

import ast

_SIMPLE = (ast.Assign, ast.AugAssign, ast.AnnAssign, ast.Expr, ast.Return)


def _is_docstring_pos(owner, idx, st):
    return idx == 0 and isinstance(owner, (ast.FunctionDef, ast.AsyncFunctionDef, ast.ClassDef, ast.Module)) and isinstance(st, ast.Expr) \
        and isinstance(st.value, ast.Constant) and isinstance(st.value.value, str)


def _blocks(node):
    for fld in ("body", "orelse", "finalbody"):
        lst = getattr(node, fld, None)
        if isinstance(lst, list) and lst and isinstance(lst[0], ast.stmt):
            yield fld, lst
    if isinstance(node, ast.Try):
        for h in node.handlers:
            yield "body", h.body


def _n1(tree):
    for node in ast.walk(tree):
        for fld, lst in list(_blocks(node)):
            keep = []
            for i, st in enumerate(lst):
                if isinstance(st, ast.Pass):
                    continue
                if isinstance(st, ast.Expr) and isinstance(st.value, ast.Constant) and not _is_docstring_pos(node, i, st) and fld == "body" and not isinstance(st.value.value, str):
                    continue
                keep.append(st)
            if not keep:
                keep = [lst[0]] if lst else keep
            lst[:] = keep


def _n2(tree):
    for node in ast.walk(tree):
        if isinstance(node, ast.If) and node.orelse and isinstance(node.test, ast.UnaryOp) and isinstance(node.test.op, ast.Not):
            node.test = node.test.operand
            node.body, node.orelse = node.orelse, node.body


def _own_scope(fn):
    stack = list(ast.iter_child_nodes(fn))
    while stack:
        n = stack.pop()
        yield n
        if isinstance(n, (ast.FunctionDef, ast.AsyncFunctionDef, ast.Lambda, ast.ClassDef)):
            # a nested scope: its own stores are other variables, but its reads of *free* names count as uses of ours
            own = set()
            if not isinstance(n, ast.ClassDef):
                a = n.args
                own |= {x.arg for x in a.posonlyargs + a.args + a.kwonlyargs} | ({a.vararg.arg} if a.vararg else set()) | ({a.kwarg.arg} if a.kwarg else set())
            declared = set()
            for x in ast.walk(n):
                if isinstance(x, ast.Name) and isinstance(x.ctx, (ast.Store, ast.Del)):
                    own.add(x.id)
                elif isinstance(x, (ast.Global, ast.Nonlocal)):
                    declared |= set(x.names)
                    yield x
            own -= declared
            for x in ast.walk(n):
                if isinstance(x, ast.Name) and isinstance(x.ctx, ast.Load) and x.id not in own:
                    yield x
            continue
        stack.extend(ast.iter_child_nodes(n))


def _counts(fn):
    stores, loads = {}, {}
    for a in fn.args.posonlyargs + fn.args.args + fn.args.kwonlyargs + ([fn.args.vararg] if fn.args.vararg else []) + ([fn.args.kwarg] if fn.args.kwarg else []):
        stores[a.arg] = stores.get(a.arg, 0) + 2
    for n in _own_scope(fn):
        if isinstance(n, ast.Name):
            d = stores if isinstance(n.ctx, (ast.Store, ast.Del)) else loads
            d[n.id] = d.get(n.id, 0) + 1
        elif isinstance(n, ast.arg):
            stores[n.arg] = stores.get(n.arg, 0) + 2  # parameters are never temporaries
        elif isinstance(n, (ast.Global, ast.Nonlocal)):
            for x in n.names:
                stores[x] = stores.get(x, 0) + 2
        elif isinstance(n, ast.ExceptHandler) and n.name:
            stores[n.name] = stores.get(n.name, 0) + 2
    return stores, loads


def _use_site(stmt, name):
    """The single Load of `name` inside stmt if it is not under a lambda / comprehension / nested def; else None."""
    found = []

    def walk(n, shielded):
        if isinstance(n, ast.Name) and n.id == name and isinstance(n.ctx, ast.Load):
            found.append((n, shielded))
        for c in ast.iter_child_nodes(n):
            walk(c, shielded or isinstance(c, (ast.Lambda, ast.ListComp, ast.SetComp, ast.DictComp, ast.GeneratorExp, ast.FunctionDef, ast.AsyncFunctionDef)))
    walk(stmt, False)
    if len(found) == 1 and not found[0][1]:
        return found[0][0]
    return None


def _replace(stmt, old, new):
    for parent in ast.walk(stmt):
        for fld, val in ast.iter_fields(parent):
            if val is old:
                setattr(parent, fld, new)
                return True
            if isinstance(val, list):
                for i, x in enumerate(val):
                    if x is old:
                        val[i] = new
                        return True
    return False


def _n3(tree):
    for fn in [n for n in ast.walk(tree) if isinstance(n, (ast.FunctionDef, ast.AsyncFunctionDef))]:
        changed = True
        while changed:
            changed = False
            stores, loads = _counts(fn)
            for node in ast.walk(fn):
                for fld, lst in _blocks(node):
                    for i in range(len(lst) - 1):
                        st, nxt = lst[i], lst[i + 1]
                        if not (isinstance(st, ast.Assign) and len(st.targets) == 1 and isinstance(st.targets[0], ast.Name) and isinstance(nxt, _SIMPLE)):
                            continue
                        t = st.targets[0].id
                        if stores.get(t, 0) != 1 or loads.get(t, 0) != 1:
                            continue
                        if any(isinstance(x, (ast.Yield, ast.YieldFrom, ast.Await, ast.NamedExpr, ast.Starred)) for x in ast.walk(st.value)):
                            continue
                        use = _use_site(nxt, t)
                        if use is None:
                            continue
                        # an augmented target or a store into the temporary itself is not a read
                        if _replace(nxt, use, st.value):
                            del lst[i]
                            changed = True
                            break
                    if changed:
                        break
                if changed:
                    break


_FLIP = {ast.Gt: ast.Lt, ast.GtE: ast.LtE}


def _is_const(e):
    return isinstance(e, ast.Constant) or (isinstance(e, ast.UnaryOp) and isinstance(e.op, (ast.USub, ast.UAdd)) and isinstance(e.operand, ast.Constant))


def _n4(tree):
    """Comparisons: `a > b` -> `b < a`, `a >= b` -> `b <= a`; for == / != / is / is not with exactly one constant operand the constant goes right."""
    for node in ast.walk(tree):
        if isinstance(node, ast.Compare) and len(node.ops) == 1:
            op = node.ops[0]
            l, r = node.left, node.comparators[0]
            if type(op) in _FLIP:
                node.left, node.comparators[0], node.ops[0] = r, l, _FLIP[type(op)]()
            elif isinstance(op, (ast.Eq, ast.NotEq, ast.Is, ast.IsNot)) and _is_const(l) and not _is_const(r):
                node.left, node.comparators[0] = r, l


_BINOPS = {"np.multiply": ast.Mult, "np.add": ast.Add, "np.subtract": ast.Sub, "np.divide": ast.Div, "np.true_divide": ast.Div,
           "np.matmul": ast.MatMult, "np.dot": ast.MatMult, "numpy.multiply": ast.Mult, "numpy.dot": ast.MatMult}
_METHOD_TO_FUNC = {"min": "np.min", "max": "np.max", "sum": "np.sum", "ravel": "np.ravel", "prod": "np.prod", "mean": "np.mean"}
_RENAME = {"np.absolute": "np.abs", "np.amax": "np.max", "np.amin": "np.min", "np.around": "np.round", "np.diagflat": "np.diag"}


def _dotted(e):
    parts = []
    while isinstance(e, ast.Attribute):
        parts.append(e.attr)
        e = e.value
    if isinstance(e, ast.Name):
        parts.append(e.id)
        return ".".join(reversed(parts))
    return None


def _parse_dotted(d):
    return ast.parse(d, mode="eval").body


class _N5(ast.NodeTransformer):
    """Spellings of one operation get one representative (analysis-level equivalence; dtype promotion corner cases are ignored):
    np.multiply(a, b) -> a * b (likewise add / subtract / divide), np.dot(a, b), np.matmul(a, b), a.dot(b) -> a @ b,
    a.min() / a.max() / a.sum(..) / a.ravel(..) / a.prod() / a.mean() -> np.min(a) ..., np.absolute -> np.abs, np.transpose(a) -> a.T,
    np.where(c)[0] -> np.flatnonzero(c), len(a.shape) -> a.ndim, isinstance(x, A) or isinstance(x, B) -> isinstance(x, (A, B))."""

    def visit_Call(self, n):
        self.generic_visit(n)
        d = _dotted(n.func)
        if d in _BINOPS and len(n.args) == 2 and not n.keywords and not any(isinstance(a, ast.Starred) for a in n.args):
            return ast.copy_location(ast.BinOp(left=n.args[0], op=_BINOPS[d](), right=n.args[1]), n)
        if d in _RENAME:
            n.func = ast.copy_location(_parse_dotted(_RENAME[d]), n.func)
            return n
        if d == "np.full" and len(n.args) == 2 and not any(isinstance(a, ast.Starred) for a in n.args):
            ones = ast.Call(func=_parse_dotted("np.ones"), args=[n.args[0]], keywords=n.keywords)
            return ast.copy_location(ast.BinOp(left=n.args[1], op=ast.Mult(), right=ones), n)
        if d in ("np.tile", "np.repeat") and n.args and isinstance(n.args[0], ast.Call) and _dotted(n.args[0].func) in ("np.array", "np.asarray") \
                and len(n.args[0].args) == 1 and not n.args[0].keywords and isinstance(n.args[0].args[0], (ast.List, ast.Tuple)):
            n.args[0] = n.args[0].args[0]
            return n
        if d == "np.eye" and len(n.args) == 1 and not n.keywords:
            return ast.copy_location(ast.parse(f"np.diag(np.ones({ast.unparse(n.args[0])}))", mode="eval").body, n)
        if d in ("np.concatenate", "np.hstack", "np.vstack", "np.stack") and n.args and isinstance(n.args[0], ast.List):
            n.args[0] = ast.copy_location(ast.Tuple(elts=n.args[0].elts, ctx=ast.Load()), n.args[0])
            return n
        if isinstance(n.func, ast.Attribute) and n.func.attr == "flatten" and not n.args and not n.keywords and not (isinstance(n.func.value, ast.Name) and n.func.value.id in ("self", "np")):
            return ast.copy_location(ast.Call(func=_parse_dotted("np.ravel"), args=[n.func.value], keywords=[]), n)
        if d == "np.square" and len(n.args) == 1 and not n.keywords:
            return ast.copy_location(ast.BinOp(left=n.args[0], op=ast.Pow(), right=ast.Constant(value=2)), n)
        if d == "np.linalg.norm" and len(n.args) == 2 and isinstance(n.args[1], ast.Constant) and n.args[1].value == 2 and any(k.arg == "axis" for k in n.keywords):
            n.args = n.args[:1]  # the 2-norm is the default for vectors along an axis
            return n
        if isinstance(n.func, ast.Attribute) and n.func.attr == "reshape" and len(n.args) >= 2 and not n.keywords and not any(isinstance(a, ast.Starred) for a in n.args):
            n.args = [ast.Tuple(elts=list(n.args), ctx=ast.Load())]
            return n
        if d == "np.transpose" and len(n.args) == 1 and not n.keywords:
            return ast.copy_location(ast.Attribute(value=n.args[0], attr="T", ctx=ast.Load()), n)
        if d == "len" and len(n.args) == 1 and isinstance(n.args[0], ast.Attribute) and n.args[0].attr == "shape":
            return ast.copy_location(ast.Attribute(value=n.args[0].value, attr="ndim", ctx=ast.Load()), n)
        if isinstance(n.func, ast.Attribute) and d is None or (isinstance(n.func, ast.Attribute) and not (d or "").startswith(("np.", "numpy.", "scipy.", "sps.", "math.", "cv2.", "skimage.", "darsia.", "da."))):
            a = n.func.attr
            recv = n.func.value
            if a == "dot" and len(n.args) == 1 and not n.keywords:
                return ast.copy_location(ast.BinOp(left=recv, op=ast.MatMult(), right=n.args[0]), n)
            if a in _METHOD_TO_FUNC and not (isinstance(recv, ast.Name) and recv.id in ("self", "cls", "super")) and not isinstance(recv, ast.Constant) \
                    and not (isinstance(recv, ast.Call) and isinstance(recv.func, ast.Name) and recv.func.id == "super"):
                return ast.copy_location(ast.Call(func=_parse_dotted(_METHOD_TO_FUNC[a]), args=[recv] + n.args, keywords=n.keywords), n)
        return n

    def visit_Attribute(self, n):
        self.generic_visit(n)
        if n.attr == "newaxis" and isinstance(n.value, ast.Name) and n.value.id in ("np", "numpy"):
            return ast.copy_location(ast.Constant(value=None), n)
        return n

    def visit_BinOp(self, n):
        self.generic_visit(n)
        # (a, b) + t  ->  (a, b, *t)
        if isinstance(n.op, ast.Add) and isinstance(n.left, ast.Tuple) and not isinstance(n.right, ast.Constant):
            right = n.right.elts if isinstance(n.right, ast.Tuple) else [ast.Starred(value=n.right, ctx=ast.Load())]
            return ast.copy_location(ast.Tuple(elts=list(n.left.elts) + list(right), ctx=ast.Load()), n)
        return n

    def visit_Subscript(self, n):
        self.generic_visit(n)
        v = n.value
        if isinstance(v, ast.Call) and _dotted(v.func) == "np.where" and len(v.args) == 1 and not v.keywords and isinstance(n.slice, ast.Constant) and n.slice.value == 0:
            return ast.copy_location(ast.Call(func=_parse_dotted("np.flatnonzero"), args=v.args, keywords=[]), n)
        return n

    def visit_BoolOp(self, n):
        self.generic_visit(n)
        if isinstance(n.op, ast.Or) and all(isinstance(v, ast.Call) and isinstance(v.func, ast.Name) and v.func.id == "isinstance" and len(v.args) == 2 and not v.keywords for v in n.values):
            first = ast.dump(n.values[0].args[0])
            if all(ast.dump(v.args[0]) == first for v in n.values):
                types = []
                for v in n.values:
                    types.extend(v.args[1].elts if isinstance(v.args[1], ast.Tuple) else [v.args[1]])
                return ast.copy_location(ast.Call(func=ast.Name(id="isinstance", ctx=ast.Load()), args=[n.values[0].args[0], ast.Tuple(elts=types, ctx=ast.Load())], keywords=[]), n)
        return n


def _n5(tree):
    return _N5().visit(tree)


def _pure_path(e):
    while isinstance(e, ast.Attribute):
        e = e.value
    return isinstance(e, ast.Name)


def _n6(tree):
    """A local bound exactly once to a pure attribute path of a parameter / self (`labels = self.cached_labels`) is replaced by that path
    at every use, provided the function never stores to that path or to a prefix of it (so the alias and the path denote the same object
    throughout) and the local is not captured by a nested function."""
    for fn in [n for n in ast.walk(tree) if isinstance(n, (ast.FunctionDef, ast.AsyncFunctionDef))]:
        stores, loads = _counts(fn)
        params = {a.arg for a in fn.args.posonlyargs + fn.args.args + fn.args.kwonlyargs}
        stored_paths = set()
        for n in ast.walk(fn):
            if isinstance(n, (ast.Attribute, ast.Subscript)) and isinstance(getattr(n, "ctx", None), (ast.Store, ast.Del)):
                b = n
                while isinstance(b, ast.Subscript):
                    b = b.value
                try:
                    stored_paths.add(ast.unparse(b))
                except Exception:
                    pass
        nested_names = {x.id for n in ast.walk(fn) if isinstance(n, (ast.FunctionDef, ast.AsyncFunctionDef, ast.Lambda)) and n is not fn for x in ast.walk(n) if isinstance(x, ast.Name)}
        rebound = {x.id for x in ast.walk(fn) if isinstance(x, ast.Name) and isinstance(x.ctx, (ast.Store, ast.Del))}
        alias = {}
        for node in ast.walk(fn):
            for fld, lst in _blocks(node):
                for st in lst:
                    if isinstance(st, ast.Assign) and len(st.targets) == 1 and isinstance(st.targets[0], ast.Name) and isinstance(st.value, ast.Attribute) and _pure_path(st.value):
                        t = st.targets[0].id
                        root = st.value
                        while isinstance(root, ast.Attribute):
                            root = root.value
                        path = ast.unparse(st.value)
                        if stores.get(t, 0) == 1 and t not in params and t not in nested_names and (root.id == "self" or root.id in params) and root.id not in rebound \
                                and not any(path == sp or path.startswith(sp + ".") or sp.startswith(path + ".") for sp in stored_paths):
                            alias[t] = (st, st.value)
        if not alias:
            continue

        class Sub(ast.NodeTransformer):
            def visit_Name(self, n):
                if isinstance(n.ctx, ast.Load) and n.id in alias:
                    import copy
                    return ast.copy_location(copy.deepcopy(alias[n.id][1]), n)
                return n
        drop = {id(v[0]) for v in alias.values()}
        for node in ast.walk(fn):
            for fld, lst in list(_blocks(node)):
                keep = [st for st in lst if id(st) not in drop]
                if keep:
                    lst[:] = keep
        Sub().visit(fn)


def normalize(tree):
    _n1(tree)
    _n2(tree)
    _n5(tree)
    _n4(tree)
    _n6(tree)
    _n3(tree)
    ast.fix_missing_locations(tree)
    return tree
