"""C12 -- colour balancing: composition convention, fit start and pack/unpack, stage order."""
from __future__ import annotations

import ast

from ..algebra import NC, Poly, ToNC
from ..report import AnalysisError
from .. import cfg as C
from ..amatch import AM
from ..flow import expand
from ..srcmodel import norm
from ..state import self_attr

LEVEL = "other"
MOD = "darsia.corrections.color.colorbalance"
CC = "darsia.corrections.color.colorcorrection"


def convention(ctx, cls_name):
    """('left'|'right', has_translation): which operand of @ the image is in apply_balance of the class."""
    m = ctx.model
    f = m.method(m.cls(MOD, cls_name), "apply_balance")
    p = f.params[1]
    side = _side_of(f, p)
    ctx.need(side is not None, f"{f.qname}: application `img @ self.balance_scaling` not found")
    return side, f


def _side_of(f, p):
    """'left' when the method computes p @ A (row vectors), 'right' for A @ p (column vectors), A = self.balance_scaling; the einsum
    spelling of either is read from its subscripts.  None when neither form is present."""
    side = None

    def peeled(e):
        """Operand text with once-bound locals expanded and dtype conversions peeled (casts are judged separately, see rule_a)."""
        e = expand(f.node, e)
        while isinstance(e, ast.Call) and isinstance(e.func, ast.Attribute) and e.func.attr == "astype":
            e = e.func.value
        return norm(e)
    for n in ast.walk(f.node):
        if isinstance(n, ast.BinOp) and isinstance(n.op, ast.MatMult):
            if peeled(n.left) == p and peeled(n.right) == "self.balance_scaling":
                side = "left"
            elif peeled(n.right) == p and peeled(n.left) == "self.balance_scaling":
                side = "right"
        elif isinstance(n, ast.Call) and norm(n.func) == "np.einsum" and len(n.args) == 3 and isinstance(n.args[0], ast.Constant) and isinstance(n.args[0].value, str):
            spec = n.args[0].value.replace(" ", "")
            if "->" not in spec or spec.count(",") != 1:
                continue
            ins, out = spec.split("->")
            s0, s1 = ins.split(",")
            ops = {norm(n.args[1]): s0, norm(n.args[2]): s1}
            if set(ops) != {p, "self.balance_scaling"}:
                continue
            a, x = ops["self.balance_scaling"], ops[p].replace("...", "")
            o = out.replace("...", "")
            if len(a) == 2 and len(x) == 1 and len(o) == 1 and x in a and o in a and x != o:
                # out_o = sum_x A[..] img_x: A indexed (x, o) is img @ A; A indexed (o, x) is A @ img
                side = "left" if a == x + o else "right"
    return side


def _fold_accumulate(f, mode, side="left"):
    """Fold AdaptiveBalance.find_balance(src, dst, mode) with symbolic previous balance (A_prev, b_prev) and a stage object whose fit
    yields (A_new[, b_new]): non-commutative normal forms (A, b) of the accumulated balance, or None outside the folding language."""
    from ..fold import Folder, Obj, Opaque, Raised, Refuse, Sym
    from ..terms import nf

    log = {"cls": [], "fit": []}

    def ctor(affine, cname=None):
        def make(a, k):
            log["cls"].append(cname)
            fields = {"balance_scaling": Opaque("m", "A_new"), "find_balance": lambda a2, k2: log["fit"].append([nf(x) for x in a2])}
            if affine:
                fields["balance_translation"] = Opaque("v", "b_new")

            def apply(a2, k2, fields=fields):
                # the stage's own apply_balance in the module's convention (rule C12.a checks that every class uses the same one)
                x = a2[0]
                y = Sym("@", [x, fields["balance_scaling"]] if side == "left" else [fields["balance_scaling"], x])
                return Sym("+", [y, fields["balance_translation"]]) if affine else y
            fields["apply_balance"] = apply
            return Obj("stage", fields)
        return make
    fo = Folder(symbolic=True)
    fo.func_stack.append(f.node)
    fo.fold_all_methods = True
    fo.overrides = {"WhiteBalance": ctor(False, "WhiteBalance"), "ColorBalance": ctor(False, "ColorBalance"), "AffineBalance": ctor(True, "AffineBalance")}
    so = Obj("self", {"__class__": "AdaptiveBalance", "balance_scaling": Opaque("m", "A_prev"), "balance_translation": Opaque("v", "b_prev")})
    try:
        fo.call(f.node, [so, Opaque("arr", "SRC"), Opaque("arr", "DST"), mode])
    except (Refuse, Raised):
        return None

    def symbolize(n):
        t = norm(n)
        if t in ("A_prev", "b_prev", "A_new", "b_new"):
            return t
        if isinstance(n, ast.Call) and norm(n.func) in ("np.zeros", "np.zeros_like"):
            return NC.const(0)
        if isinstance(n, (ast.List, ast.Tuple)) and n.elts and all(isinstance(e, ast.Constant) and e.value == 0 for e in n.elts):
            return NC.const(0)  # a folded zero vector
        return None
    try:
        A = ToNC(symbolize=symbolize)(ast.parse(nf(so.fields["balance_scaling"]), mode="eval").body)
        b = ToNC(symbolize=symbolize)(ast.parse(nf(so.fields["balance_translation"]), mode="eval").body)
    except Exception:
        return None
    return A, b, log


def rule_a(ctx):
    R = "C12.a"
    ctx.rule(R, "staged composition matches the application convention read from apply_balance (image is the left operand: row vectors, "
             "x -> x @ A + b): AdaptiveBalance.find_balance must accumulate A <- A_prev @ A_new, b <- b_prev @ A_new (+ b_new for affine "
             "stages), the b_prev @ A_new part for every mode; non-commutative normal forms; flipping apply_balance flips the obligation")
    m = ctx.model
    ctx.consult(MOD)
    side, ap = convention(ctx, "AdaptiveBalance")
    # every apply_balance of the module (the base class's serves ColorBalance / WhiteBalance) uses that same convention: the objectives of
    # all find_balance methods are written for one
    for k in m.mod(MOD).classes.values():
        ab = k.methods.get("apply_balance")
        if ab is None or len(ab.params) < 2 or any(isinstance(x, ast.Raise) for x in ab.node.body):
            continue
        s_k = _side_of(ab, ab.params[1])
        ctx.ob(R, ab.qname, f"{k.name}.apply_balance applies the scaling on the same side as AdaptiveBalance.apply_balance ({side})", s_k == side,
               f"applies it as the {s_k} operand convention" if s_k else "", ab.node, evidence=s_k is not None)
        pimg = ab.params[1]
        for c_ in ast.walk(ab.node):
            if isinstance(c_, ast.Call) and isinstance(c_.func, ast.Attribute) and c_.func.attr == "astype" and c_.args and norm(c_.func.value).startswith("self.balance_") \
                    and norm(c_.args[0]) in (f"{pimg}.dtype", f"{pimg}.img.dtype"):
                ctx.ob(R, ab.qname, f"{k.name}.apply_balance applies the fitted balance in its own (floating point) precision", False,
                       f"`{norm(c_)[:80]}` converts the balance to the dtype of the image: for integer-typed swatches / images the matrix entries are truncated and the products wrap, "
                       "so an exactly fitted map is not reproduced", c_, evidence=True)
    f = m.method(m.cls(MOD, "AdaptiveBalance"), "find_balance")
    ctx.instance(R)
    # the stage object
    stage = None
    for s in ast.walk(f.node):
        if isinstance(s, ast.Assign) and isinstance(s.value, ast.Call) and norm(s.value.func) in ("WhiteBalance", "ColorBalance", "AffineBalance") and isinstance(s.targets[0], ast.Name):
            stage = s.targets[0].id
    # the callable interface is find_balance followed by the class's own apply_balance (dynamic dispatch: the affine classes add the translation there)
    for k in m.mod(MOD).classes.values():
        c = k.methods.get("__call__")
        if c is None:
            continue
        ctx.instance(R)
        amc = AM(c)
        pi, ps, pd = c.params[1:4]
        amc.let("out", f"self.apply_balance({pi})")
        stmts = [x for x in c.node.body if not (isinstance(x, ast.Expr) and isinstance(x.value, ast.Constant))]
        ok_call = amc.eq_block(stmts, [f"self.find_balance({ps}, {pd})", "return out"])
        # named contradiction: the result is computed in place with the scaling instead of through self.apply_balance -- subclasses that
        # override apply_balance (the affine classes add the translation there) are bypassed
        calls_ap = any(isinstance(x, ast.Call) and norm(x.func) == "self.apply_balance" for x in ast.walk(c.node))
        inline = any(isinstance(x, ast.BinOp) and isinstance(x.op, ast.MatMult) and "self.balance_scaling" in (norm(x.left), norm(x.right)) for x in ast.walk(c.node))
        ctx.ob(R, c.qname, "__call__ = find_balance(src, dst); return self.apply_balance(img)", ok_call,
               str([norm(x)[:70] for x in stmts]), c.node, evidence=(not calls_ap and inline))
    if True:
        # decided on the folded method, per mode, whenever it folds (updates written in place, through helpers, in any order)
        sem = {mode: _fold_accumulate(f, mode, side) for mode in ("diagonal", "linear", "affine")}
        if all(v is not None for v in sem.values()):
            Ap, bp, An, bn = NC.sym("A_prev"), NC.sym("b_prev"), NC.sym("A_new"), NC.sym("b_new")
            want_A = Ap @ An if side == "left" else An @ Ap
            want_b_lin = bp @ An if side == "left" else An @ bp
            for mode, (A, b, _log) in sem.items():
                ctx.ob(R, f.qname, f"{mode} stage: accumulated scaling is {'A_prev @ A_new' if side == 'left' else 'A_new @ A_prev'}", A == want_A,
                       f"normal form {A!r}; apply_balance uses the image as the {side} operand, so applying the stages one after the other gives {want_A!r}", f.node, evidence=True)
                wb = want_b_lin + bn if mode == "affine" else want_b_lin
                ctx.ob(R, f.qname, f"{mode} stage: accumulated translation is {wb!r}", b == wb,
                       f"normal form {b!r}; sequential application gives {wb!r} (the accumulated translation must be carried through the new scaling for every mode)", f.node, evidence=True)
            ctx.floor(R, 1)
            return side
    ctx.need(stage is not None, "AdaptiveBalance.find_balance: stage balance object not found")

    def sym(n):
        t = norm(n)
        return {"self.balance_scaling": "A_prev", "self.balance_translation": "b_prev", f"{stage}.balance_scaling": "A_new", f"{stage}.balance_translation": "b_new"}.get(t)

    Ap, bp, An, bn = NC.sym("A_prev"), NC.sym("b_prev"), NC.sym("A_new"), NC.sym("b_new")
    want_A = Ap @ An if side == "left" else An @ Ap
    want_b_lin = bp @ An if side == "left" else An @ bp

    # effect of the update statements as substitutions, per mode (the `if mode == 'affine'` arm is taken or not)
    loc = {}

    incomplete = []

    def run(stmts, A, b, affine):
        for s in stmts:
            if isinstance(s, ast.If):
                t = norm(s.test)
                if t in ("mode == 'affine'",):
                    A, b = run(s.body if affine else s.orelse, A, b, affine)
                else:
                    incomplete.append(norm(s.test)[:60])
                continue
            if not isinstance(s, ast.Assign) and not (isinstance(s, ast.Expr) and isinstance(s.value, ast.Constant)):
                # a call (the update delegated to a helper), a loop, an augmented assignment: this reading does not interpret it
                incomplete.append(norm(s)[:60])
                continue
            if isinstance(s, ast.Assign):
                a = self_attr(s.targets[0])
                conv = ToNC(symbolize=lambda n: (A if norm(n) == "self.balance_scaling" else b if norm(n) == "self.balance_translation"
                                                 else loc[n.id] if isinstance(n, ast.Name) and n.id in loc else sym(n)))
                if a in ("balance_scaling", "balance_translation"):
                    v = conv(expand(f.node, s.value))
                    if a == "balance_scaling":
                        A = v
                    else:
                        b = v
                elif len(s.targets) == 1 and isinstance(s.targets[0], ast.Name):
                    # a local accumulator (may be re-assigned on the affine arm): tracked like the attributes
                    try:
                        loc[s.targets[0].id] = conv(expand(f.node, s.value))
                    except Exception:
                        loc.pop(s.targets[0].id, None)
        return A, b

    # statements after the stage fit
    body = f.node.body
    idx = max(i for i, s in enumerate(body) if any(isinstance(c, ast.Call) and norm(c.func) == f"{stage}.find_balance" for c in ast.walk(s)))
    for affine in (True, False):
        loc.clear()
        A, b = run(body[idx + 1:], Ap, bp, affine)
        mode = "affine" if affine else "diagonal/linear"
        if incomplete and (A != want_A or b != (want_b_lin + bn if affine else want_b_lin)):
            ctx.ob(R, f.qname, f"{mode} stage: accumulated balance composes the stages in the application convention", False,
                   f"accumulation statements not found: the update is (partly) done by statements this reading does not interpret: {incomplete[:3]}", f.node)
            continue
        ctx.ob(R, f.qname, f"{mode} stage: accumulated scaling is {'A_prev @ A_new' if side == 'left' else 'A_new @ A_prev'}", A == want_A,
               f"normal form {A!r}; apply_balance uses the image as the {side} operand, so applying the stages one after the other gives {want_A!r}", f.node)
        wb = want_b_lin + bn if affine else want_b_lin
        ctx.ob(R, f.qname, f"{mode} stage: accumulated translation is {wb!r}", b == wb,
               f"normal form {b!r}; sequential application gives {wb!r} (the accumulated translation must be carried through the new scaling for every mode)", f.node)
    ctx.floor(R, 1)
    return side


def rule_b(ctx, side):
    R = "C12.b"
    ctx.rule(R, "the fit starts at the current balance, packed as the objective unpacks it: x0 of scipy.optimize.minimize is built from the "
             "current balance attributes; the objective's unpacking inverts that packing; the objective applies the candidate on the same "
             "operand side as apply_balance; the result is unpacked with the same layout (Powell evaluates x0 first, so the residual "
             "cannot increase)")
    m = ctx.model
    spec = {
        "ColorBalance": dict(x0="np.ravel(self.balance_scaling)", A="P.reshape((3, 3))", b=None, store={"balance_scaling": "OPT.x.reshape((3, 3))"}),
        "WhiteBalance": dict(x0="np.diag(self.balance_scaling)", A="np.diag(P)", b=None, store={"balance_scaling": "np.diag(OPT.x)"}),
        "AffineBalance": dict(x0="np.concatenate((np.ravel(self.balance_scaling), self.balance_translation))", A="P[:9].reshape((3, 3))", b="P[9:12]",
                              store={"balance_scaling": "OPT.x[:9].reshape((3, 3))", "balance_translation": "OPT.x[9:12]"}),
    }
    for cname, sp in spec.items():
        f = m.method(m.cls(MOD, cname), "find_balance")
        ctx.instance(R)
        src, dst = f.params[1], f.params[2]
        obj = [n for n in ast.walk(f.node) if isinstance(n, ast.FunctionDef) and n is not f.node]
        ctx.need(len(obj) == 1, f"{f.qname}: objective function not found")
        o = obj[0]
        fp = o.args.args[0].arg
        # the fit as it reaches the stores, with once-bound locals and one-expression helpers (a wrapper of the optimiser) inlined
        stores_x = {self_attr(s_.targets[0]): expand(f.node, s_.value, helpers=True) for s_ in f.node.body if isinstance(s_, ast.Assign) and self_attr(s_.targets[0])}
        mins = {norm(c): c for v_ in stores_x.values() for c in ast.walk(v_) if isinstance(c, ast.Call) and norm(c.func) == "scipy.optimize.minimize"}
        if not mins:
            mins = {norm(c): c for c in ast.walk(f.node) if isinstance(c, ast.Call) and norm(c.func) == "scipy.optimize.minimize"}
        ctx.need(len(mins) == 1 and len(list(mins.values())[0].args) >= 2, f"{f.qname}: scipy.optimize.minimize call not found")
        call = list(mins.values())[0]
        ctx.ob(R, f.qname, "minimize(objective, x0 = current balance)", norm(call.args[0]) == o.name and norm(expand(f.node, call.args[1])) == sp["x0"], norm(call.args[1]), call,
               evidence=norm(call.args[0]) == o.name and "self" not in {x.id for x in ast.walk(expand(f.node, call.args[1])) if isinstance(x, ast.Name)})  # a start value that does not read the object at all
        # the least-squares fit ranges over all balances of the mode: no bounds / constraints on the parameter vector (a ground-truth balance with a
        # negative entry, or outside a box, would not be recovered -- scipy reports success all the same)
        restr = [kw_ for kw_ in call.keywords if kw_.arg in ("bounds", "constraints") and not (isinstance(kw_.value, ast.Constant) and kw_.value.value is None)]
        ctx.ob(R, f.qname, "the fit is unconstrained", not restr,
               f"`{restr[0].arg}={norm(restr[0].value)[:50]}` restricts the search: an exact balance outside the admissible set is silently replaced by the best admissible one" if restr else "", call, evidence=True)
        # the objective, with its once-bound locals replaced by their definitions: np.sum((APPLIED - dst) ** 2)
        orets = [r.value for r in ast.walk(o) if isinstance(r, ast.Return) and r.value is not None]
        ctx.need(len(orets) == 1, f"{f.qname}: objective has no single return")
        E = expand(o, orets[0], helpers=True)
        applied = None
        if isinstance(E, ast.Call) and norm(E.func) == "np.sum" and len(E.args) == 1 and isinstance(E.args[0], ast.BinOp) and isinstance(E.args[0].op, ast.Pow) and norm(E.args[0].right) == "2" \
                and isinstance(E.args[0].left, ast.BinOp) and isinstance(E.args[0].left.op, ast.Sub) and norm(E.args[0].left.right) == dst:
            applied = E.args[0].left.left
        # a residual computed by a helper that is not a single expression is outside what this rule reads: undecided, not a violation
        delegated = applied is None and isinstance(E, ast.Call) and (norm(E.func).startswith("self.") or isinstance(E.func, ast.Name))
        ctx.ob(R, f.qname, "objective is the squared swatch residual", applied is not None, "" if delegated else norm(E)[:120], o)
        mm, tr = applied, None
        if applied is not None and sp["b"] and isinstance(applied, ast.BinOp) and isinstance(applied.op, ast.Add):
            mm, tr = applied.left, applied.right
        cand = None
        side_ok = False
        if isinstance(mm, ast.BinOp) and isinstance(mm.op, ast.MatMult):
            l, r = norm(mm.left), norm(mm.right)
            if side == "left":
                side_ok, cand = l == src, r
            else:
                side_ok, cand = r == src, l
        un_ok = cand == sp["A"].replace("P", fp) and (sp["b"] is None or (tr is not None and norm(tr) == sp["b"].replace("P", fp))) and (sp["b"] is not None or tr is None)
        ctx.ob(R, f.qname, "objective unpacks the parameter vector with the layout x0 was packed in", un_ok, norm(applied)[:120] if applied is not None else "", o)
        ctx.ob(R, f.qname, "objective applies the candidate on the same operand side as apply_balance", side_ok, norm(applied)[:120] if applied is not None else "", o)
        opt_txt = norm(expand(f.node, call))
        st = {a_: norm(v_).replace(opt_txt, "OPT") for a_, v_ in stores_x.items()}
        ctx.ob(R, f.qname, "result is unpacked with the same layout", st == sp["store"], str(st)[:200], f.node)
        # every normal return of find_balance has stored the fit (must-write over the CFG): an early return leaves the previous balance in place
        g = C.CFG(f.node)

        def tr(nd, st_in):
            out = set(st_in)
            if nd.stmt is not None and isinstance(nd.stmt, (ast.Assign, ast.AugAssign)) and nd.kind == "stmt":
                for t_ in (nd.stmt.targets if isinstance(nd.stmt, ast.Assign) else [nd.stmt.target]):
                    a_ = self_attr(t_)
                    if a_:
                        out.add(a_)
            return frozenset(out)
        IN, _ = C.solve_forward(g, frozenset(), tr, lambda a_, b_: a_ & b_, exc_transfer=lambda nd, si, so: si)
        at_exit = IN.get(g.exit.id, frozenset())
        # positive evidence of a missing store: a return that NO path reaches with the attribute written (may-analysis; a call of a method of
        # the object counts as a possible store of everything)
        def tr_may(nd, st_in):
            out = set(tr(nd, st_in))
            if nd.stmt is not None and any(isinstance(c_, ast.Call) and isinstance(c_.func, ast.Attribute) and isinstance(c_.func.value, ast.Name) and c_.func.value.id == "self"
                                           for c_ in ast.walk(nd.stmt) if nd.kind in ("stmt", "return", "if")):
                out |= set(sp["store"])
            return frozenset(out)
        IN_may, _ = C.solve_forward(g, frozenset(), tr_may, lambda a_, b_: a_ | b_, exc_transfer=lambda nd, si, so: si)
        # every store of a balance attribute holds a fitted value: expanded through the once-bound locals, it contains the result of an
        # optimiser or of a least-squares solve; a value built from the swatches without either (channel means, ratios) is not the least-squares fit
        FITTERS = ("scipy.optimize.", "np.linalg.lstsq", "np.linalg.solve", "np.linalg.pinv", "scipy.linalg.", "np.linalg.inv")
        for s_ in ast.walk(f.node):
            if isinstance(s_, ast.Assign) and self_attr(s_.targets[0]) in sp["store"] and s_ not in ast.walk(o):
                ex = expand(f.node, s_.value, helpers=True)
                calls_ = [norm(c_.func) for c_ in ast.walk(ex) if isinstance(c_, ast.Call)]
                reads_data = {x.id for x in ast.walk(ex) if isinstance(x, ast.Name)} & {src, dst}
                fitted = any(cn.startswith(FITTERS) for cn in calls_)
                ctx.ob(R, f.qname, f"`{norm(s_)[:60]}`: the stored balance is the result of the fit", fitted or not reads_data,
                       f"self.{self_attr(s_.targets[0])} is computed from the swatches as {norm(ex)[:110]} with no optimiser / least-squares solve: not the least-squares balance for the mode "
                       "(ratio of channel means differs from it whenever the data are not exactly diagonal)", s_, evidence=True)
        bare = [nd for nd in g.nodes if nd.kind == "return" and not (set(sp["store"]) <= set(IN_may.get(nd.id, frozenset())))]
        ctx.ob(R, f.qname, "every return of find_balance has stored the fitted balance", set(sp["store"]) <= set(at_exit),
               f"attributes written on every path to a return: {sorted(at_exit)}; needed {sorted(sp['store'])} -- a re-fit that takes the early exit keeps the previous balance"
               + (f"; `{bare[0].text()[:50]}` is reached without any store" if bare else ""), f.node, evidence=bool(bare))
    ctx.floor(R, 3)


def rule_c(ctx):
    R = "C12.c"
    ctx.rule(R, "the pre-balanced swatches are what the next stage is fitted on; mode vocabulary {diagonal, linear, affine}; the stage object "
             "is assigned for every documented mode")
    m = ctx.model
    f = m.method(m.cls(MOD, "AdaptiveBalance"), "find_balance")
    ctx.instance(R)
    pre = [norm(s.targets[0]) for s in f.node.body if isinstance(s, ast.Assign) and norm(s.value) == f"self.apply_balance({f.params[1]})"]
    calls = [c for c in ast.walk(f.node) if isinstance(c, ast.Call) and norm(c.func).endswith(".find_balance") and not norm(c.func).startswith("self.")]
    ok = len(pre) == 1 and len(calls) == 1 and [norm(a) for a in calls[0].args] == [pre[0], f.params[2]]
    sem = {mode: _fold_accumulate(f, mode) for mode in ("diagonal", "linear", "affine")} if not ok else {}
    folded = bool(sem) and all(v is not None for v in sem.values())
    if folded:
        # decided on the folded method: what the stage is fitted on, per mode (the previous balance applied to the source swatches, row-vector form)
        fits = {mode: v[2]["fit"] for mode, v in sem.items()}
        want = [["((SRC @ A_prev) + b_prev)", "DST"]]
        ctx.ob(R, f.qname, "stage.find_balance(apply_balance(swatches_src), swatches_dst)", all(ft == want for ft in fits.values()), str(fits), f.node, evidence=True)
    else:
        ctx.ob(R, f.qname, "stage.find_balance(apply_balance(swatches_src), swatches_dst)", ok, f"{pre} {[norm(c) for c in calls]}", f.node)
    ann = f.node.args.args[3].annotation
    documented = sorted(x.value for x in ast.walk(ann) if isinstance(x, ast.Constant) and isinstance(x.value, str)) if ann is not None else []
    handled = {}
    for s in f.node.body:
        if isinstance(s, ast.If) and norm(s.test).startswith("mode == ") and any(isinstance(c, ast.Call) and norm(c.func) in ("WhiteBalance", "ColorBalance", "AffineBalance") for c in ast.walk(s)):
            cur = s
            while True:
                lit = cur.test.comparators[0].value
                cl = [norm(c.func) for c in ast.walk(ast.Module(body=cur.body, type_ignores=[])) if isinstance(c, ast.Call)]
                handled[lit] = cl[0] if cl else None
                if len(cur.orelse) == 1 and isinstance(cur.orelse[0], ast.If):
                    cur = cur.orelse[0]
                    continue
                break
    if not handled:
        sem = {mode: _fold_accumulate(f, mode) for mode in documented}
        if sem and all(v is not None for v in sem.values()):
            handled = {mode: (v[2]["cls"][0] if len(v[2]["cls"]) == 1 else None) for mode, v in sem.items()}
    ctx.ob(R, f.qname, "every documented mode selects its balance class", handled == {"diagonal": "WhiteBalance", "linear": "ColorBalance", "affine": "AffineBalance"} and sorted(handled) == documented,
           f"documented {documented}, handled {handled}", f.node)
    ctx.floor(R, 1)


def _fold_stages(f, branch, ref_name):
    """Symbolic fold of the darsia branch for each (whitebalancing, colorbalancing): the calls made on the AdaptiveBalance object, in
    order, must be [find_balance(S[-1], REF[-1], 'diagonal')], find_balance(S[:-1], REF[:-1], mode), apply_balance(image).
    List of disagreements, or None when the branch leaves the folding language."""
    from ..fold import Folder, Obj, Opaque, Raised, Refuse, Sym

    stored = set()
    free = []
    for st in branch:
        for x in ast.walk(st):
            if isinstance(x, ast.Name) and isinstance(x.ctx, ast.Load) and x.id not in stored and x.id not in free:
                free.append(x.id)
        for x in ast.walk(st):
            if isinstance(x, ast.Name) and isinstance(x.ctx, ast.Store):
                stored.add(x.id)
    mod = f.module
    bad = []
    for wb in (True, False):
        for cb, want_mode in (("affine", "affine"), ("linear", "linear")):
            env = {n: Opaque("arr", n) for n in free if n != "self" and n not in mod.imports and n not in mod.classes and n not in mod.funcs}
            env["self"] = Obj("self", {"whitebalancing": wb, "colorbalancing": cb, "balancing": "darsia"})
            fo = Folder(symbolic=True)
            fo.func_stack.append(f.node)
            try:
                fo.block(branch, env)
            except (Refuse, Raised):
                return None
            calls = [t for t in fo.trace if isinstance(t, Sym) and t.fn.startswith("darsia.AdaptiveBalance().")]
            got = []
            for t in calls:
                meth = t.fn.rsplit(".", 1)[1]
                a = [x.fn if isinstance(x, Sym) and not x.args and not x.kw else (x.label if isinstance(x, Opaque) else repr(x)) for x in t.args]
                mode = t.kw.get("mode", t.args[2] if len(t.args) > 2 else None)
                got.append((meth, tuple(a[:2]), mode))
            sw = None
            if got and got[0][0] == "find_balance" and got[0][1] and "[" in got[0][1][0]:
                sw = got[0][1][0].split("[")[0]
            img = f.params[1]
            want = ([("find_balance", (f"{sw}[-1]", f"{ref_name}[-1]"), "diagonal")] if wb else []) + [("find_balance", (f"{sw}[:-1]", f"{ref_name}[:-1]"), want_mode)]
            fit = got[:len(want)]
            app = got[len(want):]
            ok_app = len(app) == 1 and app[0][0] == "apply_balance" and app[0][1] and app[0][1][0] in (img, f"skimage.img_as_float(<opaque arr {img}>)")
            if sw is None or sw == ref_name or fit != want or not ok_app:
                bad.append(f"whitebalancing={wb}, colorbalancing={cb!r}: calls on the balance object are {got}")
    return bad


def rule_d(ctx):
    R = "C12.d"
    ctx.rule(R, "colour correction stages (darsia branch): optional diagonal stage on the last swatch row, then affine/linear on the remaining "
             "rows, then one apply_balance on the image, in that order on one AdaptiveBalance object")
    m = ctx.model
    ctx.consult(CC)
    f = m.func(CC, "ColorCorrection.correct_array")
    ctx.instance(R)
    branch = None
    for n in ast.walk(f.node):
        if isinstance(n, ast.If) and norm(n.test) == "self.balancing == 'darsia'":
            branch = n.body
    ctx.need(branch is not None, "ColorCorrection.correct_array: darsia branch not found")
    am = AM(f)
    core = [s for s in branch if not (isinstance(s, ast.Assign) and norm(s.value).startswith("skimage.img_as_float("))]
    conv = [s for s in branch if s not in core]
    ok = am.eq_block(core, [
        "balance = darsia.AdaptiveBalance()",
        "if self.whitebalancing:\n    balance.find_balance(swatches[-1], reference_swatches[-1], mode='diagonal')",
        "balance.find_balance(swatches[:-1], reference_swatches[:-1], mode='affine' if self.colorbalancing == 'affine' else 'linear')",
        f"corrected_img = balance.apply_balance({f.params[1]})",
    ]) and len(conv) <= 1
    # the two swatch sets are the measured ones and the reference ones (first argument = source, second = destination)
    ok2 = am.has(f.node, "reference_swatches = self.colorchecker.swatches_rgb") is not None
    if not ok:
        sem = _fold_stages(f, branch, am.actual("reference_swatches") or "reference_swatches")
        if sem is not None:
            ctx.ob(R, f.qname, "AdaptiveBalance(); [diagonal on last row]; affine|linear on the other rows; apply_balance(image)", not sem, "; ".join(sem), f.node, evidence=True)
            ok = None
    if ok is not None:
        ctx.ob(R, f.qname, "AdaptiveBalance(); [diagonal on last row]; affine|linear on the other rows; apply_balance(image)", ok, str([norm(x)[:80] for x in core]), f.node)
    ctx.ob(R, f.qname, "destination swatches are the colour checker's reference swatches", ok2, str(am.show()), f.node)
    ctx.floor(R, 1)


def rule_e(ctx):
    R = "C12.e"
    ctx.rule(R, "the destination swatches of the fit are the reference colours as given: CustomColorChecker folded with reference colours passed as "
             "an array stores exactly those values (a copy) -- clipping or any other value-changing step makes the balance fit towards other "
             "destinations than the exact colour map prescribes (references outside [0, 1] arise from gains > 1 or negative offsets)")
    from ..fold import Folder, Obj, Opaque, Raised, Refuse, Sym
    from ..terms import nf
    from .c05 import VALUE_CHANGING

    m = ctx.model
    ctx.consult(CC)
    k = m.cls(CC, "CustomColorChecker")
    init = m.method(k, "__init__")
    ctx.instance(R)
    REF = Opaque("ndarray", "REFERENCE")
    so = Obj("self", {"__class__": "CustomColorChecker"})
    fo = Folder(symbolic=True)
    fo.func_stack.append(init.node)
    fo.fold_all_methods = True
    fo.overrides = {"np.count_nonzero": lambda a, k_: sum(1 for x in a[0] if x is True) if isinstance(a[0], (list, tuple)) and all(isinstance(x, bool) for x in a[0]) else (_ for _ in ()).throw(Refuse("count_nonzero"))}
    title = "CustomColorChecker(reference_colors=R) keeps R (a copy) as its reference swatches"
    try:
        fo.call(init.node, [so], {"reference_colors": REF})
    except (Refuse, Raised) as e:
        ctx.ob(R, init.qname, title, False, f"fold of the constructor not found to be possible: {e}", init.node)
        ctx.floor(R, 1)
        return
    vals = [(a, v) for a, v in so.fields.items() if a != "__class__" and "REFERENCE" in nf(v)]
    if not vals:
        ctx.ob(R, init.qname, title, False, "attribute holding the reference colours not found", init.node)
    for a, v in vals:
        t = v
        while isinstance(t, Sym):
            if t.attr in ("copy", "astype", "view") and t.recv is not None:
                t = t.recv
            elif t.fn in ("np.array", "np.asarray", "np.copy", "copy.copy", "copy.deepcopy") and t.args:
                t = t.args[0]
            else:
                break
        if t is REF:
            ctx.ob(R, init.qname, title, True, "", init.node)
        elif isinstance(t, Sym) and (t.fn in VALUE_CHANGING or (t.attr or "").lstrip(".") in ("clip", "round")):
            ctx.ob(R, init.qname, title, False, f"self.{a} = {nf(v)[:100]}: the reference colours are changed in value before they become the destinations of the fit", init.node, evidence=True)
        else:
            ctx.ob(R, init.qname, title, False, f"self.{a} not found to be the reference array: {nf(v)[:100]}", init.node)
    ctx.floor(R, 1)


def rule_f(ctx):
    R = "C12.f"
    ctx.rule(R, "swatches are extracted in the order the reference lists them: the region of interest reaches the extraction with its first marker "
             "(the brown swatch) first; a cyclic re-ordering that is meant to bring the element at position p to the front must roll by -p "
             "(np.roll(x, p) moves it to position 2p) -- otherwise source and reference swatches are paired off by a quarter turn")
    m = ctx.model
    n = 0
    for f in [g for k in m.mod(CC).classes.values() for g in k.methods.values()]:
        for c in ast.walk(f.node):
            if isinstance(c, ast.Call) and norm(c.func) == "np.roll" and len(c.args) >= 2:
                n += 1
                ctx.instance(R)
                sh = expand(f.node, c.args[1])
                neg = isinstance(sh, ast.UnaryOp) and isinstance(sh.op, ast.USub)
                core = sh.operand if neg else sh
                positional = isinstance(core, ast.Call) and (norm(core.func) in ("np.argmin", "np.argmax", "np.nanargmin", "np.nanargmax", "int") or (isinstance(core.func, ast.Attribute) and core.func.attr == "index"))
                if positional:
                    ctx.ob(R, f.qname, f"`{norm(c)[:60]}`: a position found by a search is rolled to the front with a negative shift", neg,
                           f"the shift `{norm(sh)[:60]}` is the position itself: np.roll moves that element further back instead of to the front", c, evidence=True)
    ctx.instance(R, 0)
    ctx.ob(R, CC, f"{n} cyclic re-ordering(s) in the colour-correction module checked", True, "", None)


def rule_g(ctx):
    R = "C12.g"
    ctx.rule(R, "the swatches are fitted as given: no find_balance re-binds its source or destination swatches to an arithmetic function of "
             "themselves (a rescaling by 255, a gamma, a clip) -- conversions of container type (np.asarray, astype, reshape) aside; a "
             "value-dependent rescaling ('looks like 8 bit') changes what a legitimate destination above 1.0 means")
    m = ctx.model
    n = 0
    CONV = ("np.asarray", "np.array", "np.atleast_2d", "np.reshape", "np.ascontiguousarray", "np.copy", "skimage.img_as_float", "skimage.img_as_float32", "skimage.img_as_float64")
    for k in m.mod(MOD).classes.values():
        f = k.methods.get("find_balance")
        if f is None or len(f.params) < 3:
            continue
        n += 1
        ctx.instance(R)
        bad = []
        for s_ in ast.walk(f.node):
            tgt, val = None, None
            if isinstance(s_, ast.Assign) and len(s_.targets) == 1 and isinstance(s_.targets[0], ast.Name):
                tgt, val = s_.targets[0].id, s_.value
            elif isinstance(s_, ast.AugAssign) and isinstance(s_.target, ast.Name):
                tgt, val = s_.target.id, s_
            if tgt not in f.params[1:3]:
                continue
            if isinstance(val, ast.AugAssign) or (isinstance(val, ast.BinOp) and tgt in {x.id for x in ast.walk(val) if isinstance(x, ast.Name)}):
                bad.append(norm(s_)[:70])
            elif isinstance(val, ast.Call) and not (norm(val.func) in CONV or (isinstance(val.func, ast.Attribute) and val.func.attr in ("astype", "reshape", "copy", "squeeze"))) \
                    and tgt in {x.id for x in ast.walk(val) if isinstance(x, ast.Name)} and norm(val.func).startswith(("np.clip", "np.power", "np.divide", "np.multiply", "np.minimum", "np.maximum")):
                bad.append(norm(s_)[:70])
        ctx.ob(R, f.qname, f"{k.name}.find_balance fits the swatches it is given", not bad,
               f"{bad[:2]}: the swatches are rescaled before the fit; a destination (or source) that legitimately has such values is fitted against something else", f.node, evidence=True)
    ctx.floor(R, 4)


def run(ctx):
    ctx.guard(rule_f, ctx)
    ctx.guard(rule_g, ctx)
    # colour corrections are applied to images and arrays through the shared BaseCorrection workflow
    from . import c10 as _c10
    from .common import shared as _shared

    _shared(ctx, "C12.d", (lambda c_: _c10.rule_a(c_) and None), why="ColorCorrection fits and applies its balance inside BaseCorrection.__call__: the corrected swatches reach the caller only through that workflow")
    ctx.guard(rule_e, ctx)
    side = rule_a(ctx)
    ctx.guard(rule_b, ctx, side)
    ctx.guard(rule_c, ctx)
    ctx.guard(rule_d, ctx)
