"""C06 -- finite-volume operators: per-axis consistency (structural clauses only)."""
from __future__ import annotations

import ast

from ..algebra import NotPolynomial, Poly, ToPoly
from ..amatch import AM
from ..flow import expand
from ..report import AnalysisError
from ..srcmodel import norm
from .c07 import axis_slices, dim_guard

LEVEL = "other"
MOD = "darsia.utils.fv"


def rule_a(ctx):
    R = "C06.a"
    ctx.rule(R, "divergence orientation and scaling: data = face_vol[d] * tile([+1,-1]) per axis d, rows = ravel(connectivity[faces[d]]) "
             "(columns are lower, higher cell by C07.a), columns repeat each face twice, shape (num_cells, num_faces): net outflow "
             "oriented from the lower to the higher neighbour, column sums zero by construction")
    m = ctx.model
    f = m.func(MOD, "FVDivergence.__init__")
    g = f.params[1]
    am = AM(f)
    am.syn = [{"np.concatenate", "np.hstack"}]   # the pieces are 1-d
    ctx.instance(R)
    # the value stored in self.mat, with every once-bound local replaced by its definition
    sts = [s_ for s_ in ast.walk(f.node) if isinstance(s_, ast.Assign) and any(norm(t) == "self.mat" for t in s_.targets)]
    ctx.need(len(sts) == 1, f"{f.qname}: single assignment of self.mat not found")
    E = expand(f.node, sts[0].value)
    okc = isinstance(E, ast.Call) and norm(E.func) in ("sps.csc_matrix", "sps.csr_matrix", "sps.coo_matrix") and len(E.args) == 1 and isinstance(E.args[0], ast.Tuple) and len(E.args[0].elts) == 2 \
        and isinstance(E.args[0].elts[1], ast.Tuple) and len(E.args[0].elts[1].elts) == 2
    ctx.ob(R, f.qname, "the operator exposes a sparse matrix assembled from (data, (rows, cols))", okc, norm(E)[:120], f.node)
    if okc:
        data, (rows, cols) = E.args[0].elts[0], E.args[0].elts[1].elts
        shape = next((k.value for k in E.keywords if k.arg == "shape"), None)
        d1 = am.eq(data, f"np.concatenate([{g}.face_vol[d] * np.tile([1, -1], {g}.num_faces_per_axis[d]) for d in range({g}.dim)])") \
            or am.eq(data, f"np.concatenate([np.tile([1, -1], {g}.num_faces_per_axis[d]) * {g}.face_vol[d] for d in range({g}.dim)])")
        ctx.ob(R, f.qname, "data: face area of axis d times the sign pair (+1, -1), one pair per face of axis d", d1, norm(data)[:140], f.node)
        ctx.ob(R, f.qname, "rows: (lower cell, higher cell) of each face of axis d, in face order",
               am.eq(rows, f"np.concatenate([np.ravel({g}.connectivity[{g}.faces[d]]) for d in range({g}.dim)])"), norm(rows)[:140], f.node)
        ctx.ob(R, f.qname, "columns: each face index twice", am.eq(cols, f"np.repeat(np.arange({g}.num_faces, dtype=int), 2)"), norm(cols)[:140], f.node)
        ctx.ob(R, f.qname, "shape (num_cells, num_faces)", shape is not None and am.eq(shape, f"({g}.num_cells, {g}.num_faces)"), norm(shape) if shape is not None else "", f.node)
    ctx.floor(R, 1)


def rule_b(ctx):
    R = "C06.b"
    ctx.rule(R, "mass matrices scale by voxel volume: both reachable branches build a diagonal of prod(voxel_size) times ones of length "
             "num_cells resp. num_faces")
    m = ctx.model
    f = m.func(MOD, "FVMass.__init__")
    g = f.params[1]
    am = AM(f)
    ctx.instance(R)
    c1 = am.has(f.node, f"mass_matrix = sps.diags(np.prod({g}.voxel_size) * np.ones({g}.num_cells, dtype=float))")
    ctx.ob(R, f.qname, "cells: diag(prod(voxel_size) * ones(num_cells))", c1 is not None, "", f.node)
    c2 = (am.has(f.node, f"volume_scaling = np.ones({g}.num_faces, dtype=float)") is not None and am.has(f.node, f"mass_matrix = sps.diags(np.prod({g}.voxel_size) * volume_scaling)") is not None) \
        or am.has(f.node, f"mass_matrix = sps.diags(np.prod({g}.voxel_size) * np.ones({g}.num_faces, dtype=float))") is not None
    ctx.ob(R, f.qname, "faces (lumped): diag(prod(voxel_size) * ones(num_faces))", c2, "", f.node)
    ctx.ob(R, f.qname, "the diagonal matrix is what the operator exposes", am.has(f.node, "self.mat = mass_matrix") is not None, "", f.node)
    modes = sorted({c.comparators[0].value for c in ast.walk(f.node) if isinstance(c, ast.Compare) and norm(c.left) == f.params[2] and isinstance(c.comparators[0], ast.Constant)})
    ctx.ob(R, f.qname, "mode vocabulary is {cells, faces}", modes == ["cells", "faces"], str(modes), f.node)
    ctx.floor(R, 1)


def _fold_face_to_cell(f):
    """Fold face_to_cell for grids of 1, 2 and 3 dimensions with a symbolic evaluation point: the in-place updates of the result, in any
    order, must be exactly -- per axis d -- `out[:, .., :-1, ..., d] += pt[d] * R_d` and `out[:, .., 1:, ..., d] += (1 - pt[d]) * R_d`
    with R_d = flat_flux[grid.faces[d]].reshape(grid.faces_shape[d], order='F').  Disagreements, or None outside the folding language."""
    from ..fold import Arr, Folder, Obj, Opaque, Raised, Refuse, Sym, escapes

    bad = []
    for dim in (1, 2, 3):
        grid = Obj("grid", {"dim": dim, "shape": (4, 5, 6)[:dim], "faces": [Opaque("idx", f"F{d}") for d in range(dim)], "faces_shape": [Opaque("shape", f"FS{d}") for d in range(dim)]})
        flux = Opaque("arr", "FLUX")
        ptv = Opaque("arr", "PT")
        fo = Folder(symbolic=True)
        fo.func_stack.append(f.node)
        # np.array([pt]) of the one-dimensional case: the point itself, as a one-element sequence
        fo.overrides = {"np.array": lambda a, k: a[0] if a and isinstance(a[0], list) else Sym("np.array", a, k)}
        try:
            r = fo.call(f.node, [grid, flux, ptv])
        except (Refuse, Raised):
            return None
        ups = [t for t in fo.trace if isinstance(t, Sym) and t.fn == "augitem"]
        if not isinstance(r, Arr) or tuple(r.shape) != (4, 5, 6)[:dim] + (dim,):
            bad.append(f"dim {dim}: result is {r!r}, documented zero array of shape (*grid.shape, dim)")
            continue
        if any(t.args[0] is not r for t in ups) or any(t.fn == "setitem" for t in fo.trace if isinstance(t, Sym)) or escapes(fo.trace, r):
            return None
        env = {f.params[0]: grid, f.params[1]: flux, f.params[2]: ([ptv] if dim == 1 else ptv)}
        ref = Folder(symbolic=True)

        from ..terms import nf

        def term(src):
            return nf(ref.ev(ast.parse(src, mode="eval").body, env))
        g_, fl_, pt_ = f.params[0], f.params[1], f.params[2]
        # the face values and the point coordinates, as they appear in normal-form terms, become polynomial atoms R<d>, P<d>
        atoms = {}
        for d in range(dim):
            atoms[term(f"{fl_}[{g_}.faces[{d}]].reshape({g_}.faces_shape[{d}], order='F')")] = f"R{d}"
        for d in range(dim):
            atoms[term(f"{pt_}[{d}]")] = f"P{d}"
        want = {}
        for d in range(dim):
            lead = (slice(None),) * d
            P_, R_ = Poly.atom(f"P{d}"), Poly.atom(f"R{d}")
            want[_show_index(lead + (slice(None, -1), Ellipsis, d))] = P_ * R_
            want[_show_index(lead + (slice(1, None), Ellipsis, d))] = (Poly.const(1) - P_) * R_
        got = {}
        for t in ups:
            idx, op, val = t.args[1], t.args[2], t.args[3]
            if not isinstance(idx, tuple) or op not in ("+", "-"):
                return None
            txt = nf(val)
            for k_ in sorted(atoms, key=len, reverse=True):
                txt = txt.replace(k_, atoms[k_])
            try:
                p = ToPoly()(ast.parse(txt, mode="eval").body)
            except (NotPolynomial, SyntaxError):
                return None
            if not set(p.atoms()) <= set(atoms.values()):
                return None  # operands this rule does not know: not decided here
            key = _show_index(idx)
            got[key] = got.get(key, Poly.const(0)) + (p if op == "+" else Poly.const(0) - p)
        for idx, w in want.items():
            g = got.get(idx)
            if g is None or g != w:
                bad.append(f"dim {dim}: out[{idx}] accumulates {g!r}, documented {w!r} (P = evaluation point, R = fluxes on the faces of the axis)")
        extra = [i for i in got if i not in want and got[i] != Poly.const(0)]
        if extra:
            bad.append(f"dim {dim}: additional updates at {extra}")
    return bad


def _show_index(idx):
    def one(x):
        if isinstance(x, slice):
            return f"{'' if x.start in (None, 0) else x.start}:{'' if x.stop is None else x.stop}"
        return "..." if x is Ellipsis else repr(x)
    return ", ".join(one(x) for x in idx)


def rule_c(ctx):
    R = "C06.c"
    ctx.rule(R, "reconstruction interpolates between the two faces of each cell: per axis d two updates write component d only, one on "
             "slice [:-1] of axis d with factor pt[d], one on [1:] with factor 1 - pt[d] (factors sum to 1), both read "
             "flat_flux[faces[d]] reshaped to faces_shape[d] in Fortran order; default point is the centre")
    m = ctx.model
    f = m.func(MOD, "face_to_cell")
    g, flux, pt = f.params[0], f.params[1], f.params[2]
    am = AM(f)
    alloc_ok = am.has(f.node, f"cell_flux = np.zeros((*{g}.shape, {g}.dim), dtype=float)") is not None
    out_name = am.actual("cell_flux") or "cell_flux"
    ups = [s for s in ast.walk(f.node) if isinstance(s, ast.AugAssign) and isinstance(s.target, ast.Subscript) and norm(s.target.value) == out_name]
    per_axis = {}
    sem0 = _fold_face_to_cell(f)
    if sem0 is not None or not ups or not all(isinstance(s.target.slice, ast.Tuple) for s in ups):
        ctx.instance(R, 3)
        sem = sem0
        if sem is not None:
            ctx.ob(R, f.qname, "per axis d: component d of cells [:-1] gets pt[d] * faces of axis d, of cells [1:] gets (1 - pt[d]) * the same faces (folded for 1, 2, 3 dimensions)",
                   not sem, "; ".join(sem[:3]), f.node, evidence=True)
            ctx.floor(R, 3)
            dflt = [norm(s.value) for s in ast.walk(f.node) if isinstance(s, ast.Assign) and norm(s.targets[0]) == pt and dim_guard(s, f.node) is None]
            ctx.ob(R, f.qname, "default evaluation point is the cell centre", f"np.ones({g}.dim) / 2" in dflt, str(dflt), f.node)
            return
        ctx.ob(R, f.qname, "per-axis updates `cell_flux[<slices>, d] += ...` with literal slice tuples", False, "update statements with literal index tuples not found (computed index tuples are not evaluated)", f.node)
        ctx.floor(R, 3)
        return
    for s in ups:
        m_, ell = axis_slices(s.target)
        elts = s.target.slice.elts
        compn = norm(elts[-1])
        per_axis.setdefault(compn, []).append((s, m_, ell))
    for d in range(3):
        ctx.instance(R)
        lst = per_axis.get(str(d), [])
        ctx.ob(R, f.qname, f"axis {d}: exactly two updates of component {d}", len(lst) == 2, f"{len(lst)} updates", f.node)
        if len(lst) != 2:
            continue
        factors = Poly()
        kinds = set()
        for s, m_, ell in lst:
            if m_.get(d) == (None, "-1"):
                kind = "low"
            elif m_.get(d) == ("1", None):
                kind = "high"
            else:
                kind = "?"
            kinds.add(kind)
            full_before = all(m_.get(k) == (None, None) for k in range(d))
            v = s.value
            fac = None
            read = None
            if isinstance(v, ast.BinOp) and isinstance(v.op, ast.Mult) and isinstance(s.op, ast.Add):
                fac, read = v.left, v.right
            want_read = f"{flux}[{g}.faces[{d}]].reshape({g}.faces_shape[{d}], order='F')"
            try:
                fp = ToPoly()(fac) if fac is not None else None
            except NotPolynomial:
                fp = None
            P = Poly.atom(f"{pt}[{d}]")
            want_f = P if kind == "low" else Poly.const(1) - P
            ctx.ob(R, f.qname, f"axis {d}, {kind} cells: slice on axis {d} with full slices before and ellipsis after", kind != "?" and full_before and ell, norm(s.target), s)
            ctx.ob(R, f.qname, f"axis {d}, {kind} cells: factor is {'pt' if kind == 'low' else '1 - pt'}[{d}]", fp is not None and fp == want_f, norm(fac) if fac is not None else "", s)
            ctx.ob(R, f.qname, f"axis {d}, {kind} cells: reads the faces of axis {d} in Fortran order", read is not None and norm(read) == want_read, norm(read) if read is not None else "", s)
            ctx.ob(R, f.qname, f"axis {d}, {kind} cells: guarded by {g}.dim >= {d + 1}", dim_guard(s, f.node) in (f"{d + 1} <= {g}.dim", f"{d} < {g}.dim"), str(dim_guard(s, f.node)), s)
            if fp is not None:
                factors = factors + fp
        ctx.ob(R, f.qname, f"axis {d}: one update per side and the two factors sum to 1", kinds == {"low", "high"} and factors == Poly.const(1), f"kinds {kinds}, sum {factors!r}", f.node)
    ctx.floor(R, 3)
    sem = _fold_face_to_cell(f)
    if sem is not None:
        ctx.ob(R, f.qname, "per axis d: component d of cells [:-1] gets pt[d] * faces of axis d, of cells [1:] gets (1 - pt[d]) * the same faces (folded for 1, 2, 3 dimensions)",
               not sem, "; ".join(sem[:3]), f.node, evidence=True)
    dflt = [norm(s.value) for s in ast.walk(f.node) if isinstance(s, ast.Assign) and norm(s.targets[0]) == pt and dim_guard(s, f.node) is None]
    ctx.ob(R, f.qname, "default evaluation point is the cell centre", f"np.ones({g}.dim) / 2" in dflt, str(dflt), f.node)
    ctx.ob(R, f.qname, "result is zero-initialised with one component per axis and returned", alloc_ok and am.has(f.node, "return cell_flux") is not None, "", f.node)


def rule_d(ctx):
    R = "C06.d"
    ctx.rule(R, "face averages gather both neighbours of every face of every orientation through connectivity; arithmetic = 0.5 * sum over "
             "the two, harmonic = hmean over the same two; vocabulary {arithmetic, harmonic} with else: raise")
    m = ctx.model
    f = m.func(MOD, "cell_to_face_average")
    g, mode = f.params[0], f.params[2]
    am = AM(f)
    ctx.instance(R)
    loops = [l for l in ast.walk(f.node) if isinstance(l, ast.For) and norm(l.iter) == f"range({g}.dim)" and any("connectivity" in norm(s) for s in l.body)]
    ok = False
    if len(loops) == 1:
        ok = am.eq(loops[0].target, "orientation") and am.eq_block([s for s in loops[0].body if not (isinstance(s, ast.Expr) and isinstance(s.value, ast.Constant))], [
            f"faces = {g}.faces[orientation]",
            f"neighbouring_cells = {g}.connectivity[faces]",
            "neighbouring_cell_values[faces, 0] = flat_cell_qty[orientation][neighbouring_cells[:, 0]]",
            "neighbouring_cell_values[faces, 1] = flat_cell_qty[orientation][neighbouring_cells[:, 1]]",
        ])
    ctx.ob(R, f.qname, "both columns of connectivity[faces[o]] are gathered for every orientation o", ok, str(am.show()), f.node)
    chain = [n for n in ast.walk(f.node) if isinstance(n, ast.If) and norm(n.test) == f"{mode} == 'arithmetic'"]
    a_ok = h_ok = e_ok = False
    if len(chain) == 1:
        cur = chain[0]
        a_ok = am.eq_block(cur.body, ["face_qty = 0.5 * np.sum(neighbouring_cell_values, axis=1)"])
        if len(cur.orelse) == 1 and isinstance(cur.orelse[0], ast.If) and norm(cur.orelse[0].test) == f"{mode} == 'harmonic'":
            h_ok = am.eq_block(cur.orelse[0].body, ["face_qty = hmean(neighbouring_cell_values, axis=1)"])
            e_ok = any(isinstance(x, ast.Raise) for x in cur.orelse[0].orelse)
    ctx.ob(R, f.qname, "arithmetic = 0.5 * sum of the two neighbours", a_ok, "", f.node)
    ctx.ob(R, f.qname, "harmonic = hmean of the same two neighbours", h_ok, "", f.node)
    ctx.ob(R, f.qname, "vocabulary {arithmetic, harmonic}, else raises", e_ok, "", f.node)
    ctx.ob(R, f.qname, "the averaged quantity is returned", am.has(f.node, "return face_qty") is not None, "", f.node)
    # which cell value belongs to a face of orientation o: the scalar itself, component o of a vector, diagonal entry (o, o) of a tensor
    cq = f.params[1]
    arms = {}
    for n in ast.walk(f.node):
        if isinstance(n, ast.If) and f"{cq}.ndim" in norm(n.test):
            eqs = {frozenset((norm(c.left), norm(c.comparators[0]))) for c in ast.walk(n.test) if isinstance(c, ast.Compare) and len(c.ops) == 1 and isinstance(c.ops[0], ast.Eq)}
            L = f"{cq}.ndim"
            kind = "tensor" if frozenset((L, f"{g}.dim + 2")) in eqs else ("vector" if frozenset((f"{cq}.shape[-1]", f"{g}.dim")) in eqs and frozenset((L, f"{g}.dim + 1")) in eqs
                                                                          else ("scalar" if frozenset((L, f"{g}.dim")) in eqs else None))
            if kind:
                arms[kind] = n.body
    want = {
        "scalar": ([f"single = {cq}.ravel('F')", f"flat_cell_qty = [single for _ in range({g}.dim)]"], [f"flat_cell_qty = [{cq}.ravel('F') for _ in range({g}.dim)]"]),
        "vector": ([f"flat_cell_qty = [{cq}[..., i].ravel('F') for i in range({g}.dim)]"],),
        "tensor": ([f"flat_cell_qty = [{cq}[..., i, i].ravel('F') for i in range({g}.dim)]"],),
    }
    for kind, forms in want.items():
        body = arms.get(kind)
        ok = body is not None and any(am.eq_block(body, list(fm)) for fm in forms)
        if not ok and body is not None and kind == "tensor":
            es = [c for s_ in body for c in ast.walk(s_) if isinstance(c, ast.Call) and norm(c.func) == "np.einsum" and c.args and isinstance(c.args[0], ast.Constant)]
            if es:
                sub = es[0].args[0].value.replace(" ", "")
                ctx.ob(R, f.qname, "tensor cell quantity: orientation o reads the diagonal entry (o, o)", sub == "...ii->...i",
                       f"np.einsum('{sub}', ...) does not extract the diagonal ('...ii->...i' would): off-diagonal entries enter the face average", es[0], evidence=True)
                continue
        rowcol = []
        if not ok and body is not None and kind == "tensor":
            # named contradiction: the per-orientation value is built from a whole row / column of the tensor (a slice `:` in one of the two
            # trailing positions), not from the entry (o, o)
            for s_ in body:
                for x in ast.walk(s_):
                    if isinstance(x, ast.Subscript) and norm(x.value) == cq and isinstance(x.slice, ast.Tuple) and len(x.slice.elts) == 3 and isinstance(x.slice.elts[0], ast.Constant) \
                            and x.slice.elts[0].value is Ellipsis and sum(isinstance(e_, ast.Slice) and e_.lower is None and e_.upper is None for e_ in x.slice.elts[1:]) == 1:
                        rowcol.append(norm(x))
        ctx.ob(R, f.qname, f"{kind} cell quantity: orientation o reads {'the scalar' if kind == 'scalar' else ('component o' if kind == 'vector' else 'the diagonal entry (o, o)')}", ok,
               (f"`{rowcol[0]}` takes a whole row / column of the tensor: off-diagonal entries enter the value averaged onto the faces of orientation o; " if rowcol else "") + str([norm(x)[:90] for x in (body or [])]), f.node,
               evidence=bool(rowcol))
    ctx.floor(R, 1)


def rule_e(ctx):
    R = "C06.e"
    ctx.rule(R, "tangential reconstruction uses the orthogonal faces of both neighbours: columns = reverse_connectivity[d_perp, "
             "ravel(connectivity[faces[d]])] with d_perp ranging over delete(range(dim), d), weight 0.25 on 4 entries per face, -1 entries "
             "filtered by the same mask in data, rows and columns; full reconstruction stores the normal flux in component d and the "
             "i-th tangential flux in component delete(range(dim), d)[i]")
    m = ctx.model
    f = m.func(MOD, "FVTangentialFaceReconstruction.__init__")
    g = f.params[1]
    am = AM(f)
    ctx.instance(R)
    ctx.ob(R, f.qname, "weight 0.25 on four entries per face", am.has(f.node, f"data = 0.25 * np.ones(4 * {g}.num_faces, dtype=float)") is not None, "", f.node)
    ctx.ob(R, f.qname, "rows repeat each face of axis d four times", am.has(f.node, f"rows = np.concatenate([np.repeat({g}.faces[d], 4) for d in range({g}.dim)])") is not None, "", f.node)
    c_ok = am.has(f.node, f"cols = [np.concatenate([np.ravel({g}.reverse_connectivity[d_perp, np.ravel({g}.connectivity[{g}.faces[d]])]) for d in range({g}.dim) "
                          f"for d_perp in [np.delete(range({g}.dim), d)[i]]]) for i in range({g}.dim - 1)]")
    ctx.ob(R, f.qname, "columns: faces of the orthogonal axis d_perp in both neighbour cells of each face", c_ok is not None, "", f.node)
    m_ok = am.has(f.node, "self.mat = [sps.csc_matrix((data[col != -1], (rows[col != -1], col[col != -1])), shape=shape) for col in cols]")
    ctx.ob(R, f.qname, "'no face' entries are masked identically in data, rows and columns", m_ok is not None, "", f.node)
    ctx.ob(R, f.qname, "operator is square on faces", am.has(f.node, f"shape = ({g}.num_faces, {g}.num_faces)") is not None, str(am.show()), f.node)
    tc = m.func(MOD, "FVTangentialFaceReconstruction.__call__")
    amt = AM(tc)
    nfl, cat = tc.params[1], tc.params[2]
    blocks_ok = amt.has(tc.node, f"tf = [self.mat[d].dot({nfl}) for d in range(self.num_tangential_directions)]") is not None and amt.has(tc.node, "return tf") is not None
    ctx.ob(R, tc.qname, "applying the operator: one block self.mat[d] . normal_flux per tangential direction, in direction order", blocks_ok, str(amt.show()), tc.node)
    joins = [n for n in ast.walk(tc.node) if isinstance(n, ast.If) and norm(n.test) == cat]
    if len(joins) == 1 and len(joins[0].body) == 1 and isinstance(joins[0].body[0], ast.Assign) and isinstance(joins[0].body[0].value, ast.Call):
        jc = joins[0].body[0].value
        jn = norm(jc.func)
        good = (jn == "np.concatenate" and (len(jc.args) == 1) and all(k.arg == "axis" and norm(k.value) == "0" for k in jc.keywords)) or (jn == "np.hstack" and len(jc.args) == 1 and not jc.keywords)
        ctx.ob(R, tc.qname, "concatenate=True joins the blocks one after the other (np.concatenate(..., axis=0))", good,
               f"the blocks are joined by `{norm(jc)[:80]}`: the stacked vector is not block 0 followed by block 1", jc, evidence=True)
    else:
        ctx.ob(R, tc.qname, "concatenate=True joins the blocks one after the other (np.concatenate(..., axis=0))", False, "joining statement not found", tc.node)
    r = m.func(MOD, "FVFullFaceReconstruction.__call__")
    am2 = AM(r)
    nf = r.params[1]
    loops = [l for l in r.node.body if isinstance(l, ast.For)]
    ok = False
    am2.let("dim", "self.grid.dim")
    if len(loops) == 1 and am2.has(r.node, f"tangential_fluxes = self.tangential_reconstruction({nf}, False)") is not None \
            and am2.has(r.node, "full_flux = np.zeros((self.grid.num_faces, dim), dtype=float)") is not None:
        outer = loops[0]
        ok = am2.eq(outer.iter, "range(dim)") and am2.eq(outer.target, "d") and am2.eq_block(outer.body, [
            f"full_flux[self.grid.faces[d], d] = {nf}[self.grid.faces[d]]",
            "for i, d_perp in enumerate(np.delete(range(dim), d)):\n    full_flux[self.grid.faces[d], d_perp] = tangential_fluxes[i][self.grid.faces[d]]",
        ])
    ctx.ob(R, r.qname, "normal flux in component d, i-th tangential flux in component delete(range(dim), d)[i]", ok and am2.has(r.node, "return full_flux") is not None, str(am2.show()), r.node)
    ctx.floor(R, 1)


def rule_f(ctx):
    R = "C06.f"
    ctx.rule(R, "averages and reconstructions are computed in floating point: the work arrays of the finite-volume routines (gather buffers, "
             "reconstructed fluxes) are float arrays of their own -- a buffer that takes its dtype from the input quantity averages integer "
             "or boolean cell data in integer arithmetic (wrap-around of sums, truncating reciprocals)")
    m = ctx.model
    n = 0
    for f in [g for g in m.mod(MOD).funcs.values()] + [g for k in m.mod(MOD).classes.values() for g in k.methods.values()]:
        params = set(f.params)
        for c in ast.walk(f.node):
            if isinstance(c, ast.Call) and norm(c.func) in ("np.zeros", "np.empty", "np.ones", "np.full", "np.zeros_like", "np.empty_like"):
                dt = next((k.value for k in c.keywords if k.arg == "dtype"), None)
                like = norm(c.func).endswith("_like")
                if dt is None and not like:
                    pos = 2 if norm(c.func) == "np.full" else 1
                    dt = c.args[pos] if len(c.args) > pos else None
                src = None
                if dt is not None and isinstance(dt, ast.Attribute) and dt.attr == "dtype":
                    b = dt.value
                    while isinstance(b, (ast.Subscript, ast.Attribute)):
                        b = b.value
                    if isinstance(b, ast.Name) and b.id not in ("self", "grid", "np"):
                        src = norm(dt)
                elif like and dt is None and c.args:
                    b = c.args[0]
                    while isinstance(b, (ast.Subscript, ast.Attribute)):
                        b = b.value
                    if isinstance(b, ast.Name) and b.id in params and b.id not in ("self", "grid"):
                        src = f"the dtype of {norm(c.args[0])}"
                if dt is not None or like:
                    n += 1
                if src is not None:
                    ctx.instance(R)
                    ctx.ob(R, f.qname, f"`{norm(c)[:70]}` is a floating point work array", False,
                           f"the array takes {src}: integer / boolean input is gathered and averaged in that dtype (uint8 sums wrap, reciprocals of integers truncate)", c, evidence=True)
    ctx.instance(R, 0)
    ctx.ob(R, MOD, f"{n} typed allocation(s) of the finite-volume module checked", True, "", None)


def run(ctx):
    ctx.guard(rule_f, ctx)
    ctx.consult(MOD)
    from .common import rule_abs_tolerance
    _m = ctx.model
    rule_abs_tolerance(ctx, "C06.g", list(_m.mod(MOD).funcs.values()) + [f for k in _m.mod(MOD).classes.values() for f in k.methods.values()]
                       + [f for k in _m.mod("darsia.utils.grid").classes.values() for f in k.methods.values()],
                       "the discrete operators are linear: averages, divergences and reconstructions of a rescaled field are the rescaled results")
    ctx.guard(rule_a, ctx)
    ctx.guard(rule_b, ctx)
    ctx.guard(rule_c, ctx)
    ctx.guard(rule_d, ctx)
    ctx.guard(rule_e, ctx)
    # FVDivergence scales the fluxes with grid.face_vol: the face areas must be the products of the other axes' voxel sizes (C07.d)
    from . import c07
    from .common import shared

    shared(ctx, "C06.a", c07.rule_d, why="divergence = sum of flux times face area uses Grid.face_vol")
