"""C06 -- finite-volume operators: per-axis consistency (structural clauses only)."""
from __future__ import annotations

import ast

from ..algebra import NotPolynomial, Poly, ToPoly
from ..report import AnalysisError
from ..srcmodel import norm
from .c07 import axis_slices, dim_guard

LEVEL = "other"
MOD = "darsia.utils.fv"


def rule_a(ctx):
    R = "C06.a"
    ctx.rule(R, "divergence orientation and scaling: data = face_vol[d] * tile([+1,-1]) per axis d, rows = ravel(connectivity[faces[d]]) "
             "(columns are lower, higher cell by C07.a), columns repeat each face twice, shape (num_cells, num_faces): net outflow "
             "oriented from the lower to the higher neighbour, column sums zero by construction")
    m = ctx.model
    f = m.func(MOD, "FVDivergence.__init__")
    g = f.params[1]
    env = {norm(s.targets[0]): s.value for s in ast.walk(f.node) if isinstance(s, ast.Assign) and isinstance(s.targets[0], ast.Name)}
    ctx.instance(R)

    def comp(name):
        v = env.get(name)
        if isinstance(v, ast.Call) and norm(v.func) == "np.concatenate" and v.args and isinstance(v.args[0], ast.ListComp):
            lc = v.args[0]
            if len(lc.generators) == 1 and norm(lc.generators[0].iter) == f"range({g}.dim)" and isinstance(lc.generators[0].target, ast.Name):
                return lc.elt, lc.generators[0].target.id
        return None, None

    e, d = comp("div_data")
    ok = False
    if e is not None and isinstance(e, ast.BinOp) and isinstance(e.op, ast.Mult):
        sides = {norm(e.left), norm(e.right)}
        ok = sides == {f"{g}.face_vol[{d}]", f"np.tile([1, -1], {g}.num_faces_per_axis[{d}])"}
    ctx.ob(R, f.qname, "data: face area of axis d times the sign pair (+1, -1), one pair per face of axis d", ok, norm(e) if e is not None else "", f.node)
    e, d = comp("div_row")
    ctx.ob(R, f.qname, "rows: (lower cell, higher cell) of each face of axis d, in face order", e is not None and norm(e) == f"np.ravel({g}.connectivity[{g}.faces[{d}]])", norm(e) if e is not None else "", f.node)
    ctx.ob(R, f.qname, "columns: each face index twice", norm(env.get("div_col", ast.Constant(0))) == f"np.repeat(np.arange({g}.num_faces, dtype=int), 2)", norm(env.get("div_col", ast.Constant(0))), f.node)
    ctx.ob(R, f.qname, "shape (num_cells, num_faces)", norm(env.get("div_shape", ast.Constant(0))) == f"({g}.num_cells, {g}.num_faces)", norm(env.get("div_shape", ast.Constant(0))), f.node)
    mat = env.get("div")
    ok = isinstance(mat, ast.Call) and norm(mat.func) in ("sps.csc_matrix", "sps.csr_matrix", "sps.coo_matrix") and norm(mat.args[0]) == "(div_data, (div_row, div_col))" \
        and any(k.arg == "shape" and norm(k.value) == "div_shape" for k in mat.keywords)
    ctx.ob(R, f.qname, "matrix assembled from (data, (rows, cols)) with that shape", ok, norm(mat) if mat is not None else "", f.node)
    ctx.floor(R, 1)


def rule_b(ctx):
    R = "C06.b"
    ctx.rule(R, "mass matrices scale by voxel volume: both reachable branches build a diagonal of prod(voxel_size) times ones of length "
             "num_cells resp. num_faces")
    m = ctx.model
    f = m.func(MOD, "FVMass.__init__")
    g = f.params[1]
    ctx.instance(R)
    vals = [s for s in ast.walk(f.node) if isinstance(s, ast.Assign) and norm(s.targets[0]) == "mass_matrix"]
    env = {norm(s.targets[0]): norm(s.value) for s in ast.walk(f.node) if isinstance(s, ast.Assign) and isinstance(s.targets[0], ast.Name)}
    texts = []
    for s in vals:
        t = norm(s.value)
        for k, v in env.items():
            if k != "mass_matrix":
                t = t.replace(k, f"({v})")
        texts.append(t)
    cells = f"sps.diags(np.prod({g}.voxel_size) * np.ones({g}.num_cells, dtype=float))"
    faces = f"sps.diags(np.prod({g}.voxel_size) * (np.ones({g}.num_faces, dtype=float)))"
    ctx.ob(R, f.qname, "cells: diag(prod(voxel_size) * ones(num_cells))", cells in texts, str(texts[:2]), f.node)
    ctx.ob(R, f.qname, "faces (lumped): diag(prod(voxel_size) * ones(num_faces))", faces in texts, str(texts[:2]), f.node)
    modes = sorted({c.comparators[0].value for c in ast.walk(f.node) if isinstance(c, ast.Compare) and norm(c.left) == "mode" and isinstance(c.comparators[0], ast.Constant)})
    ctx.ob(R, f.qname, "mode vocabulary is {cells, faces}", modes == ["cells", "faces"], str(modes), f.node)
    ctx.floor(R, 1)


def rule_c(ctx):
    R = "C06.c"
    ctx.rule(R, "reconstruction interpolates between the two faces of each cell: per axis d two updates write component d only, one on "
             "slice [:-1] of axis d with factor pt[d], one on [1:] with factor 1 - pt[d] (factors sum to 1), both read "
             "flat_flux[faces[d]] reshaped to faces_shape[d] in Fortran order; default point is the centre")
    m = ctx.model
    f = m.func(MOD, "face_to_cell")
    g, flux, pt = f.params[0], f.params[1], f.params[2]
    ups = [s for s in ast.walk(f.node) if isinstance(s, ast.AugAssign) and isinstance(s.target, ast.Subscript) and norm(s.target.value) == "cell_flux"]
    per_axis = {}
    for s in ups:
        m_, ell = axis_slices(s.target)
        elts = s.target.slice.elts
        compn = norm(elts[-1])
        per_axis.setdefault(compn, []).append((s, m_, ell))
    for d in range(3):
        ctx.instance(R)
        lst = per_axis.get(str(d), [])
        ctx.ob(R, f.qname, f"axis {d}: exactly two updates of component {d}", len(lst) == 2, f"{len(lst)} updates", f.node)
        if len(lst) != 2:
            continue
        factors = Poly()
        kinds = set()
        for s, m_, ell in lst:
            if m_.get(d) == (None, "-1"):
                kind = "low"
            elif m_.get(d) == ("1", None):
                kind = "high"
            else:
                kind = "?"
            kinds.add(kind)
            full_before = all(m_.get(k) == (None, None) for k in range(d))
            v = s.value
            fac = None
            read = None
            if isinstance(v, ast.BinOp) and isinstance(v.op, ast.Mult) and isinstance(s.op, ast.Add):
                fac, read = v.left, v.right
            want_read = f"{flux}[{g}.faces[{d}]].reshape({g}.faces_shape[{d}], order='F')"
            try:
                fp = ToPoly()(fac) if fac is not None else None
            except NotPolynomial:
                fp = None
            P = Poly.atom(f"{pt}[{d}]")
            want_f = P if kind == "low" else Poly.const(1) - P
            ctx.ob(R, f.qname, f"axis {d}, {kind} cells: slice on axis {d} with full slices before and ellipsis after", kind != "?" and full_before and ell, norm(s.target), s)
            ctx.ob(R, f.qname, f"axis {d}, {kind} cells: factor is {'pt' if kind == 'low' else '1 - pt'}[{d}]", fp is not None and fp == want_f, norm(fac) if fac is not None else "", s)
            ctx.ob(R, f.qname, f"axis {d}, {kind} cells: reads the faces of axis {d} in Fortran order", read is not None and norm(read) == want_read, norm(read) if read is not None else "", s)
            ctx.ob(R, f.qname, f"axis {d}, {kind} cells: guarded by {g}.dim >= {d + 1}", dim_guard(s, f.node) == f"{g}.dim >= {d + 1}", str(dim_guard(s, f.node)), s)
            if fp is not None:
                factors = factors + fp
        ctx.ob(R, f.qname, f"axis {d}: one update per side and the two factors sum to 1", kinds == {"low", "high"} and factors == Poly.const(1), f"kinds {kinds}, sum {factors!r}", f.node)
    ctx.floor(R, 3)
    dflt = [norm(s.value) for s in ast.walk(f.node) if isinstance(s, ast.Assign) and norm(s.targets[0]) == pt and dim_guard(s, f.node) is None]
    ctx.ob(R, f.qname, "default evaluation point is the cell centre", f"np.ones({g}.dim) / 2" in dflt, str(dflt), f.node)
    alloc = [norm(s.value) for s in ast.walk(f.node) if isinstance(s, ast.Assign) and norm(s.targets[0]) == "cell_flux"]
    ctx.ob(R, f.qname, "result is zero-initialised with one component per axis", alloc == [f"np.zeros((*{g}.shape, {g}.dim), dtype=float)"], str(alloc), f.node)


def rule_d(ctx):
    R = "C06.d"
    ctx.rule(R, "face averages gather both neighbours of every face of every orientation through connectivity; arithmetic = 0.5 * sum over "
             "the two, harmonic = hmean over the same two; vocabulary {arithmetic, harmonic} with else: raise")
    m = ctx.model
    f = m.func(MOD, "cell_to_face_average")
    g = f.params[0]
    ctx.instance(R)
    loops = [l for l in ast.walk(f.node) if isinstance(l, ast.For) and norm(l.iter) == f"range({g}.dim)" and any("connectivity" in norm(s) for s in l.body)]
    ok = False
    if len(loops) == 1:
        k = loops[0].target.id
        env = {norm(s.targets[0]): norm(s.value) for s in loops[0].body if isinstance(s, ast.Assign) and isinstance(s.targets[0], ast.Name)}
        stores = {norm(s.targets[0]): norm(s.value) for s in loops[0].body if isinstance(s, ast.Assign) and isinstance(s.targets[0], ast.Subscript)}
        fa = [n for n, v in env.items() if v == f"{g}.faces[{k}]"]
        nb = [n for n, v in env.items() if fa and v == f"{g}.connectivity[{fa[0]}]"]
        if fa and nb:
            ok = stores == {f"neighbouring_cell_values[{fa[0]}, 0]": f"flat_cell_qty[{k}][{nb[0]}[:, 0]]", f"neighbouring_cell_values[{fa[0]}, 1]": f"flat_cell_qty[{k}][{nb[0]}[:, 1]]"}
    ctx.ob(R, f.qname, "both columns of connectivity[faces[o]] are gathered for every orientation o", ok, "", f.node)
    avg = {}
    for iff in ast.walk(f.node):
        if isinstance(iff, ast.If) and norm(iff.test) == "mode == 'arithmetic'":
            cur = iff
            while True:
                lit = cur.test.comparators[0].value
                avg[lit] = [norm(s.value) for s in cur.body if isinstance(s, ast.Assign)]
                if len(cur.orelse) == 1 and isinstance(cur.orelse[0], ast.If):
                    cur = cur.orelse[0]
                    continue
                avg["__else_raises__"] = any(isinstance(s, ast.Raise) for s in cur.orelse)
                break
    ctx.ob(R, f.qname, "arithmetic = 0.5 * sum of the two neighbours", avg.get("arithmetic") == ["0.5 * np.sum(neighbouring_cell_values, axis=1)"], str(avg.get("arithmetic")), f.node)
    ctx.ob(R, f.qname, "harmonic = hmean of the same two neighbours", avg.get("harmonic") == ["hmean(neighbouring_cell_values, axis=1)"], str(avg.get("harmonic")), f.node)
    ctx.ob(R, f.qname, "vocabulary {arithmetic, harmonic}, else raises", set(avg) == {"arithmetic", "harmonic", "__else_raises__"} and avg.get("__else_raises__"), str(sorted(avg)), f.node)
    ctx.floor(R, 1)


def rule_e(ctx):
    R = "C06.e"
    ctx.rule(R, "tangential reconstruction uses the orthogonal faces of both neighbours: columns = reverse_connectivity[d_perp, "
             "ravel(connectivity[faces[d]])] with d_perp ranging over delete(range(dim), d), weight 0.25 on 4 entries per face, -1 entries "
             "filtered by the same mask in data, rows and columns; full reconstruction stores the normal flux in component d and the "
             "i-th tangential flux in component delete(range(dim), d)[i]")
    m = ctx.model
    f = m.func(MOD, "FVTangentialFaceReconstruction.__init__")
    g = f.params[1]
    ctx.instance(R)
    env = {norm(s.targets[0]): s.value for s in ast.walk(f.node) if isinstance(s, ast.Assign)}
    ctx.ob(R, f.qname, "weight 0.25 on four entries per face", norm(env.get("data", ast.Constant(0))) == f"0.25 * np.ones(4 * {g}.num_faces, dtype=float)", norm(env.get("data", ast.Constant(0))), f.node)
    ctx.ob(R, f.qname, "rows repeat each face of axis d four times", norm(env.get("rows", ast.Constant(0))) == f"np.concatenate([np.repeat({g}.faces[d], 4) for d in range({g}.dim)])", norm(env.get("rows", ast.Constant(0))), f.node)
    cols = env.get("cols")
    ok = False
    desc = norm(cols)[:200] if cols is not None else ""
    if isinstance(cols, ast.ListComp) and norm(cols.generators[0].iter) == f"range({g}.dim - 1)":
        i = cols.generators[0].target.id
        inner = cols.elt
        if isinstance(inner, ast.Call) and norm(inner.func) == "np.concatenate" and isinstance(inner.args[0], ast.ListComp):
            lc = inner.args[0]
            gens = lc.generators
            if len(gens) == 2 and norm(gens[0].iter) == f"range({g}.dim)":
                d = gens[0].target.id
                dp = gens[1].target.id
                ok = (norm(gens[1].iter) == f"[np.delete(range({g}.dim), {d})[{i}]]"
                      and norm(lc.elt) == f"np.ravel({g}.reverse_connectivity[{dp}, np.ravel({g}.connectivity[{g}.faces[{d}]])])")
    ctx.ob(R, f.qname, "columns: faces of the orthogonal axis d_perp in both neighbour cells of each face", ok, desc, f.node)
    mat = env.get("self.mat")
    ok = False
    if isinstance(mat, ast.ListComp) and norm(mat.generators[0].iter) == "cols":
        c = mat.generators[0].target.id
        ok = norm(mat.elt) == f"sps.csc_matrix((data[{c} != -1], (rows[{c} != -1], {c}[{c} != -1])), shape=shape)"
    ctx.ob(R, f.qname, "'no face' entries are masked identically in data, rows and columns", ok, norm(mat)[:160] if mat is not None else "", f.node)
    ctx.ob(R, f.qname, "operator is square on faces", norm(env.get("shape", ast.Constant(0))) == f"({g}.num_faces, {g}.num_faces)", "", f.node)
    r = m.func(MOD, "FVFullFaceReconstruction.__call__")
    loops = [l for l in ast.walk(r.node) if isinstance(l, ast.For)]
    ok = False
    if len(loops) == 2:
        outer = next(l for l in loops if any(isinstance(s, ast.For) for s in l.body))
        inner = next(s for s in outer.body if isinstance(s, ast.For))
        d = outer.target.id
        nf = r.params[1]
        st0 = [norm(s) for s in outer.body if isinstance(s, ast.Assign)]
        ok = (norm(outer.iter) == "range(dim)" and st0 == [f"full_flux[self.grid.faces[{d}], {d}] = {nf}[self.grid.faces[{d}]]"]
              and norm(inner.iter) == f"enumerate(np.delete(range(dim), {d}))"
              and [norm(s) for s in inner.body] == [f"full_flux[self.grid.faces[{d}], {norm(inner.target.elts[1])}] = tangential_fluxes[{norm(inner.target.elts[0])}][self.grid.faces[{d}]]"])
    ctx.ob(R, r.qname, "normal flux in component d, i-th tangential flux in component delete(range(dim), d)[i]", ok, "", r.node)
    ctx.floor(R, 1)


def run(ctx):
    ctx.consult(MOD)
    rule_a(ctx)
    rule_b(ctx)
    rule_c(ctx)
    rule_d(ctx)
    rule_e(ctx)
