"""C18 -- persistence round trips (structural clauses)."""
from __future__ import annotations

import ast

from .. import cfg as C
from ..amatch import AM
from ..flow import expand, explicit_keywords
from ..report import AnalysisError
from ..srcmodel import Cls, norm
from ..state import StateAnalysis, attr_reads, own_exprs, self_attr

LEVEL = "other"
IMG = "darsia.image.image"
IMR = "darsia.image.imread"
RDC = "darsia.corrections.readcorrection"
BASE = "darsia.corrections.basecorrection"


def _metadata_keys_folded(m, cls):
    """metadata() folded on an object whose attributes are opaque tokens named `self.<attr>`: {key: term text}, or None."""
    from ..fold import Folder, Obj, Opaque, Raised, Refuse, Sym
    from ..terms import nf

    f = m.method(cls, "metadata")
    methods = {name for kk in m.mro(cls) for name in kk.methods}
    attrs = set()
    for kk in m.mro(cls):
        g = kk.methods.get("metadata")
        if g is not None and g.params:
            attrs |= {x.attr for x in ast.walk(g.node) if isinstance(x, ast.Attribute) and isinstance(x.value, ast.Name) and x.value.id == g.params[0]}
    # attributes read through getattr(self, name) over a class-level table of names are covered by offering every attribute any method assigns
    for kk in m.mro(cls):
        for g in kk.methods.values():
            if g.params:
                attrs |= {t.attr for st in ast.walk(g.node) if isinstance(st, (ast.Assign, ast.AnnAssign)) for t in (st.targets if isinstance(st, ast.Assign) else [st.target])
                          if isinstance(t, ast.Attribute) and isinstance(t.value, ast.Name) and t.value.id == g.params[0]}
    class_level = {t.id for kk in m.mro(cls) for st in kk.node.body if isinstance(st, (ast.Assign, ast.AnnAssign))
                   for t in (st.targets if isinstance(st, ast.Assign) else [st.target]) if isinstance(t, ast.Name)}
    so = Obj("self", {"__class__": cls.name, **{a: Opaque("attr", f"self.{a}") for a in attrs - methods - class_level}})
    fo = Folder(symbolic=True)
    fo.func_stack.append(f.node)
    fo.fold_all_methods = True
    fo.overrides = {"getattr": lambda a, k: (a[0].fields.get(a[1]) if isinstance(a[0], Obj) and isinstance(a[1], str) and a[1] in a[0].fields else (_ for _ in ()).throw(Refuse("getattr")))}
    try:
        r = fo.call(f.node, [so])
    except (Refuse, Raised):
        return None
    while isinstance(r, Sym) and r.fn in ("copy.copy", "copy.deepcopy", "dict") and len(r.args) == 1:
        r = r.args[0]
    if not isinstance(r, dict) or not all(isinstance(k_, str) for k_ in r):
        return None
    return {k_: nf(v) for k_, v in r.items()}


def metadata_keys(m, cls):
    """{key: value expr text} of the dict built by cls.metadata() (following super().metadata())."""
    folded = _metadata_keys_folded(m, cls)
    if folded:
        return folded
    f = m.method(cls, "metadata")
    keys = {}
    for n in ast.walk(f.node):
        if isinstance(n, ast.Dict):
            for k, v in zip(n.keys, n.values):
                if isinstance(k, ast.Constant):
                    keys[k.value] = norm(v)
        if isinstance(n, ast.Assign) and isinstance(n.targets[0], ast.Subscript) and norm(n.targets[0].value) == "metadata" and isinstance(n.targets[0].slice, ast.Constant):
            keys[n.targets[0].slice.value] = norm(n.value)
        if isinstance(n, ast.Call) and norm(n.func) == "super().metadata":
            for b in m.mro(f.cls)[1:]:
                if "metadata" in b.methods:
                    keys = {**metadata_keys(m, b), **keys}
                    break
    return keys


def consumed_keys(m, cls):
    """Keys a constructor chain reads from **kwargs: {key: [attr assigned from it, ...]}."""
    out = {}
    for k in m.mro(cls):
        f = k.methods.get("__init__")
        if f is None:
            continue
        kw = f.node.args.kwarg.arg if f.node.args.kwarg is not None else None
        if kw is None:
            continue
        local_from = {}
        for s in ast.walk(f.node):
            key = None
            if isinstance(s, ast.Call) and norm(s.func) in (f"{kw}.get", f"{kw}.pop") and s.args and isinstance(s.args[0], ast.Constant):
                key = s.args[0].value
            elif isinstance(s, ast.Compare) and len(s.ops) == 1 and isinstance(s.ops[0], (ast.In, ast.NotIn)) and norm(s.comparators[0]) == kw and isinstance(s.left, ast.Constant):
                key = s.left.value
            elif isinstance(s, ast.Subscript) and norm(s.value) == kw and isinstance(s.slice, ast.Constant):
                key = s.slice.value
            if key is not None:
                out.setdefault(key, [])
        for s in ast.walk(f.node):
            if isinstance(s, (ast.Assign, ast.AnnAssign)) and s.value is not None:
                tgt = s.targets[0] if isinstance(s, ast.Assign) else s.target
                ks = [c.args[0].value for c in ast.walk(s.value) if isinstance(c, ast.Call) and norm(c.func) in (f"{kw}.get", f"{kw}.pop") and c.args and isinstance(c.args[0], ast.Constant)]
                via = [local_from[x.id] for x in ast.walk(s.value) if isinstance(x, ast.Name) and x.id in local_from]
                ks = ks + [k2 for v in via for k2 in v]
                if isinstance(tgt, ast.Name) and ks:
                    local_from[tgt.id] = ks
                a = self_attr(tgt)
                if a:
                    for k2 in ks:
                        out.setdefault(k2, []).append(a)
            elif isinstance(s, ast.Expr) and isinstance(s.value, ast.Call) and norm(s.value.func) == "self.set_time":
                for x in ast.walk(s.value):
                    if isinstance(x, ast.Name) and x.id in local_from:
                        for k2 in local_from[x.id]:
                            out.setdefault(k2, []).append("time")
    return out


def rule_a(ctx):
    R = "C18.a"
    ctx.rule(R, "writer and reader tables of the image format agree: every key written by metadata() of each image class is consumed by the "
             "constructor chain of the class imread_from_npz instantiates for it; for a key with value self.A the constructor assigns self.A "
             "from that key (key -> attribute -> key round trip); save passes array= and metadata= and the reader reads those two names; "
             "imread routes .npz to that reader")
    m = ctx.model
    ctx.consult(IMG)
    ctx.consult(IMR)
    rd = m.func(IMR, "imread_from_npz")
    # which class is instantiated, possibly depending on a key
    ctor_calls = []
    for c in ast.walk(rd.node):
        if isinstance(c, ast.Call) and any(k.arg is None for k in c.keywords):
            t = m.resolve_call(c, rd)
            if isinstance(t, Cls):
                cond = None
                cur = c
                while cur is not None and cur is not rd.node:
                    par = getattr(cur, "_parent", None)
                    if isinstance(par, ast.If):
                        cond = (norm(par.test), cur in par.body or any(cur is x for b in par.body for x in ast.walk(b)))
                        break
                    cur = par
                ctor_calls.append((t, cond, c))
    folded = {}

    def fold_reader(written):
        """Symbolic fold of the reader for a file whose metadata dict has exactly the keys `written`: (class name, array passed
        unmodified, metadata passed unmodified) or None when the reader leaves the folding language."""
        from ..fold import Folder, Obj, Opaque, Raised, Refuse, Sym

        key = tuple(sorted(written))
        if key in folded:
            return folded[key]
        md = {k: Opaque("meta", k) for k in written}
        orig = dict(md)
        arr = Opaque("arr", "ARRAY")
        fo = Folder(symbolic=True)
        fo.func_stack.append(rd.node)
        fo.overrides = {"np.load": lambda a, k: {"array": arr, "metadata": Obj("packed", {"item": lambda a2, k2: md})}}
        try:
            r = fo.call(rd.node, [Opaque("path", "p")], {})
            res = (r.fn.split(".")[-1], r.args == (arr,), set(r.kw) == set(orig) and all(r.kw[k] is orig[k] for k in orig), repr(r)[:200]) if isinstance(r, Sym) else None
        except (Refuse, Raised):
            res = None
        folded[key] = res
        return res

    if fold_reader(metadata_keys(m, m.cls(IMG, "Image"))) is None:
        ctx.need(ctor_calls, "imread_from_npz: no Image(array, **metadata) construction found")

    def reader_class(written):
        sem = fold_reader(written)
        if sem is not None:
            for mod in m.modules.values():
                if sem[0] in mod.classes and mod.name.startswith("darsia.image"):
                    return mod.classes[sem[0]]
            return None
        default = None
        for t, cond, c in ctor_calls:
            if cond is None:
                default = t
                continue
            test, in_body = cond
            keys = [k for k in written if f"'{k}' in " in test or f'"{k}" in ' in test]
            holds = bool(keys)
            if ("not in" in test) != (not holds) if False else False:
                pass
            if holds == in_body and "not in" not in test:
                return t
            if "not in" in test and (not holds) == in_body:
                return t
            if default is None and not holds and not in_body:
                default = t
        if default is None:
            # if/else with the else arm as default
            for t, cond, c in ctor_calls:
                if cond is not None and not cond[1]:
                    default = t
        return default

    writers = [m.cls(IMG, n) for n in ("Image", "ScalarImage", "OpticalImage")]
    for w in writers:
        ctx.instance(R)
        written = metadata_keys(m, w)
        ctx.need(len(written) >= 10, f"{w.name}.metadata(): keys not found")
        r = reader_class(written)
        ctx.need(r is not None, "imread_from_npz: reader class could not be determined")
        cons = consumed_keys(m, r)
        for key, val in sorted(written.items()):
            ctx.ob(R, rd.qname, f"{w.name}: key '{key}' written by metadata() is consumed by {r.name}.__init__", key in cons,
                   f"{r.name} (the class the reader instantiates for a saved {w.name}) never reads '{key}': the value is lost on reload", rd.node, evidence=True)
            if val.startswith("self.") and key in cons:
                attr = val[5:]
                ctx.ob(R, rd.qname, f"{w.name}: '{key}' round-trips through self.{attr}", attr in cons[key], f"constructor assigns {cons[key]} from '{key}'", rd.node, evidence=True)
    ctx.floor(R, 3)
    sv = m.func(IMG, "Image.save")
    calls = [c for c in ast.walk(sv.node) if isinstance(c, ast.Call) and norm(c.func) == "np.savez"]
    kws = explicit_keywords(sv.node, calls[0]) if len(calls) == 1 else None
    ok = kws is not None and {k: norm(v) for k, v in kws} == {"array": "self.img", "metadata": "self.metadata()"}
    ctx.ob(R, sv.qname, "save writes array=self.img, metadata=self.metadata()", ok, str([norm(c) for c in calls])[:160], sv.node)
    am = AM(rd)
    ok = (am.has(rd.node, f"npzdata = np.load({rd.params[0]}, allow_pickle=True)") is not None and am.has(rd.node, "array = npzdata['array']") is not None
          and am.has(rd.node, "metadata = npzdata['metadata'].item()") is not None)
    ctx.ob(R, rd.qname, "reader reads the names 'array' and 'metadata'", ok, str(am.show()), rd.node)
    # what was read is what the constructor gets: neither name is modified or rebound on the way
    AN, MN = am.actual("array") or "array", am.actual("metadata") or "metadata"
    touched = []
    for x in ast.walk(rd.node):
        tg = []
        if isinstance(x, ast.Assign):
            tg = x.targets
        elif isinstance(x, (ast.AugAssign, ast.AnnAssign)):
            tg = [x.target]
        elif isinstance(x, ast.Delete):
            tg = x.targets
        for t in tg:
            b = t
            while isinstance(b, (ast.Subscript, ast.Attribute)):
                b = b.value
            if isinstance(b, ast.Name) and b.id in (AN, MN) and not (isinstance(t, ast.Name) and isinstance(x, ast.Assign) and (am.eq(x, "array = npzdata['array']") or am.eq(x, "metadata = npzdata['metadata'].item()"))):
                touched.append(norm(x)[:70])
        if isinstance(x, ast.Call) and isinstance(x.func, ast.Attribute) and isinstance(x.func.value, ast.Name) and x.func.value.id in (AN, MN) \
                and x.func.attr in ("pop", "popitem", "update", "clear", "setdefault", "__setitem__", "__delitem__", "fill", "sort", "resize", "astype", "byteswap"):
            if x.func.attr != "astype" or True:
                touched.append(norm(x)[:70])
    ctor = [c for c in ast.walk(rd.node) if isinstance(c, ast.Call) and norm(c.func) in ("darsia.OpticalImage", "darsia.Image", "darsia.ScalarImage")]
    pass_ok = len(ctor) >= 1 and all([norm(a) for a in c.args] == [AN] and [(k.arg, norm(k.value)) for k in c.keywords] == [(None, MN)] for c in ctor)
    sems = [fold_reader(metadata_keys(m, w)) for w in writers]
    if all(s is not None for s in sems):
        bad = [s[3] for s in sems if not (s[1] and s[2])]
        ctx.ob(R, rd.qname, "the array and the metadata dict read from the file reach the constructor unmodified", not bad and not touched,
               f"modified on the way: {touched}" if touched else f"the constructor receives {bad}", rd.node, evidence=True)
    else:
        ctx.ob(R, rd.qname, "the array and the metadata dict read from the file reach the constructor unmodified", pass_ok and not touched,
               f"modified on the way: {touched}" if touched else str([norm(c)[:60] for c in ctor]), rd.node, evidence=bool(touched))
    im = m.func(IMR, "imread")
    am2 = AM(im)
    route = [n for n in ast.walk(im.node) if isinstance(n, ast.If) and am2.eq(n.test, "suffix == '.npz'")]
    ctx.ob(R, im.qname, "imread routes .npz to imread_from_npz", len(route) == 1 and am2.eq_block(route[0].body, [f"return imread_from_npz({im.params[0]})"]), "", im.node)


def rule_b(ctx):
    R = "C18.b"
    ctx.rule(R, "decoded colour data is RGB and of the right kind: every value decoded by cv2.imread / cv2.imdecode that reaches an OpticalImage "
             "constructor or is returned as colour array passes cv2.cvtColor(., COLOR_BGR2RGB) on every path (reaching definitions); every "
             "array written by cv2.imwrite from an OpticalImage derives from to_trichromatic('BGR'); imread_from_bytes maps 3 channels -> "
             "OpticalImage, rank 2 / one channel -> ScalarImage (squeezed), anything else raises")
    m = ctx.model
    n_read = n_write = 0
    for f in m.all_funcs():
        srcs = [c for c in ast.walk(f.node) if isinstance(c, ast.Call) and norm(c.func) in ("cv2.imread", "cv2.imdecode")]
        if srcs:
            ctx.consult(f.module.name)
            g = C.CFG(f.node)
            RD, _ = C.reaching_definitions(g, f.params)
            for src in srcs:
                n_read += 1
                ctx.instance(R)
                par = getattr(src, "_parent", None)
                # the decoder keeps bit depth and channel count only with IMREAD_UNCHANGED (or ANYDEPTH | ANYCOLOR for images without alpha)
                flag = norm(src.args[1]) if len(src.args) > 1 else next((norm(k.value) for k in src.keywords if k.arg == "flags"), "<default IMREAD_COLOR>")
                lossless = flag in ("cv2.IMREAD_UNCHANGED", "-1", "cv2.IMREAD_ANYDEPTH | cv2.IMREAD_ANYCOLOR", "cv2.IMREAD_ANYCOLOR | cv2.IMREAD_ANYDEPTH")
                ctx.ob(R, f.qname, f"`{norm(src.func)}` decodes with a flag that keeps bit depth and channels", lossless,
                       f"flag {flag}: 16-bit data is reduced to 8 bit and/or grey data expanded to three channels", src)
                # directly sanitised?
                if isinstance(par, ast.Call) and norm(par.func) == "cv2.cvtColor" and len(par.args) > 1 and norm(par.args[1]) == "cv2.COLOR_BGR2RGB":
                    ctx.ob(R, f.qname, f"`{norm(src)[:50]}` is converted BGR->RGB", True, "direct", src)
                    continue
                # bound to a name/attribute: every colour sink must see only sanitised definitions
                st = par
                while st is not None and not isinstance(st, ast.stmt):
                    st = getattr(st, "_parent", None)
                tgt = norm(st.targets[0]) if isinstance(st, ast.Assign) else None
                if tgt is None:
                    ctx.ob(R, f.qname, f"`{norm(src)[:50]}` is converted BGR->RGB", False, "decoded value is used without being bound or converted", src)
                    continue
                sinks = []
                for n in g.nodes:
                    for e in ([n.stmt] if n.kind in ("stmt", "return") and n.stmt is not None else []):
                        for c in ast.walk(e):
                            if isinstance(c, ast.Call) and norm(c.func).endswith("OpticalImage") and any(k.arg == "img" and norm(k.value) == tgt for k in c.keywords):
                                sinks.append((n, c))
                if isinstance(st.targets[0], ast.Attribute):
                    # self.attr = decoded: the next assignment to the same attribute must be the conversion
                    nxt = [s for s in ast.walk(f.node) if isinstance(s, ast.Assign) and norm(s.targets[0]) == tgt and s is not st and s.lineno > st.lineno]
                    ok = bool(nxt) and isinstance(nxt[0].value, ast.Call) and norm(nxt[0].value.func) == "cv2.cvtColor" and norm(nxt[0].value.args[0]) == tgt and norm(nxt[0].value.args[1]) == "cv2.COLOR_BGR2RGB"
                    ctx.ob(R, f.qname, f"`{tgt}` decoded by cv2 is converted BGR->RGB before use", ok, "", st)
                    continue
                for n, c in sinks:
                    defs = [g.nodes[i] for nme, i in RD.get(n.id, ()) if nme == tgt]
                    ok = bool(defs) and all(isinstance(d.stmt, ast.Assign) and isinstance(d.stmt.value, ast.Call) and norm(d.stmt.value.func) == "cv2.cvtColor"
                                            and norm(d.stmt.value.args[1]) == "cv2.COLOR_BGR2RGB" for d in defs)
                    ctx.ob(R, f.qname, f"colour sink `{norm(c)[:50]}` sees only BGR->RGB converted data", ok, f"reaching definitions: {[d.text()[:50] for d in defs]}", c)
        wr = [c for c in ast.walk(f.node) if isinstance(c, ast.Call) and norm(c.func) == "cv2.imwrite"]
        if wr and f.cls is not None and f.cls.name == "OpticalImage":
            ctx.consult(f.module.name)
            env = {norm(s.targets[0]): norm(s.value) for s in ast.walk(f.node) if isinstance(s, ast.Assign) and isinstance(s.targets[0], ast.Name)}
            for c in wr:
                n_write += 1
                ctx.instance(R)
                arr = norm(c.args[1])
                seen, cur = set(), arr
                chain = [cur]
                while cur in env and cur not in seen:
                    seen.add(cur)
                    src_txt = env[cur]
                    import re as _re
                    nxt = next((k for k in env if k != cur and k not in seen and _re.search(rf"(?<![\w.]){_re.escape(k)}\b", src_txt)), None)
                    chain.append(src_txt)
                    if nxt is None:
                        break
                    cur = nxt
                ok = any("to_trichromatic('BGR'" in t for t in chain)
                ctx.ob(R, f.qname, f"array written by `{norm(c)[:40]}...` derives from to_trichromatic('BGR')", ok, " <- ".join(chain)[:200], c)
    ctx.instance(R + ".reads", n_read)
    ctx.floor(R + ".reads", 3)
    ctx.instance(R + ".writes", n_write)
    ctx.floor(R + ".writes", 2)
    fb = m.func(IMR, "imread_from_bytes")
    # named contradiction: a squeeze without an axis drops every singleton axis of the decoded array, the spatial ones of a one-pixel-wide
    # or one-pixel-high image included -- only the trailing channel axis may be dropped
    for c_ in ast.walk(fb.node):
        if isinstance(c_, ast.Call) and (norm(c_.func) == "np.squeeze" or (isinstance(c_.func, ast.Attribute) and c_.func.attr == "squeeze")):
            has_axis = any(k.arg == "axis" for k in c_.keywords) or (norm(c_.func) == "np.squeeze" and len(c_.args) > 1) or (norm(c_.func) != "np.squeeze" and c_.args)
            ctx.ob(R, fb.qname, "a squeeze of the decoded array names the (channel) axis it removes", has_axis,
                   f"`{norm(c_)[:70]}` removes every axis of extent 1: a decoded image one pixel high or wide loses a spatial axis (a colour strip (1, W, 3) becomes a scalar (W, 3) "
                   "image, a grey column (H, 1) is transposed by the following atleast_2d)", c_, evidence=True)
    sem = _bytes_cases(fb)
    if sem is not None and (sem[0] or not sem[1]):
        ctx.ob(R, fb.qname, "3 channels -> OpticalImage; rank 2 -> ScalarImage; single channel -> ScalarImage(squeezed); else raise", not sem[0], "; ".join(sem[0]), fb.node, evidence=True)
        return
    if sem is not None:
        # right kinds in every case, but a data term this rule cannot compare with the documented one: not decided
        ctx.ob(R, fb.qname, "3 channels -> OpticalImage; rank 2 -> ScalarImage; single channel -> ScalarImage(squeezed); else raise", False, "", fb.node, evidence=False)
        return
    am = AM(fb)
    arms = []
    for s in fb.node.body:
        if isinstance(s, ast.If):
            cur = s
            while True:
                arms.append((cur.test, cur.body))
                if len(cur.orelse) == 1 and isinstance(cur.orelse[0], ast.If):
                    cur = cur.orelse[0]
                    continue
                arms.append((None, cur.orelse))
                break
    want = [("len(array.shape) == 3 and array.shape[-1] == 3", "darsia.OpticalImage", "array"), ("len(array.shape) == 2", "darsia.ScalarImage", "array"),
            ("len(array.shape) == 3 and array.shape[-1] == 1", "darsia.ScalarImage", "array[..., 0]")]
    ok = len(arms) == 4 and arms[3][0] is None and any(isinstance(x, ast.Raise) for x in arms[3][1])
    if ok:
        for (test, body), (wt, wc, wi) in zip(arms[:3], want):
            ok = ok and am.eq(test, wt)
            rets = [r for x in body for r in ast.walk(x) if isinstance(r, ast.Return)]
            ok = ok and len(rets) == 1 and isinstance(rets[0].value, ast.Call) and norm(rets[0].value.func) == wc and any(k.arg == "img" and am.eq(k.value, wi) for k in rets[0].value.keywords)
    ctx.ob(R, fb.qname, "3 channels -> OpticalImage; rank 2 -> ScalarImage; single channel -> ScalarImage(squeezed); else raise", ok, str(am.show()), fb.node, evidence=False)


def _bytes_cases(fb):
    """Fold imread_from_bytes once per shape of the decoded array (the decoder is replaced by an object carrying only that shape):
    (contradictions, undecided) -- contradictions are cases whose outcome has the wrong *kind* (image class, raise vs. return, raw
    BGR data handed to OpticalImage, channel axis kept); undecided are cases whose data term this rule cannot compare -- or None
    when the function leaves the folding language."""
    from ..fold import Folder, Obj, Opaque, Raised, Refuse, Sym
    from ..terms import nf

    def data_of(r):
        if not isinstance(r, Sym):
            return None, None
        img = r.kw.get("img") if getattr(r, "kw", None) else None
        if img is None and r.args:
            img = r.args[0]
        return r.fn.split(".")[-1], img
    bad, und = [], []
    for shape, want in (((5, 7), "scalar"), ((5, 7, 3), "optical"), ((5, 7, 1), "squeezed"), ((5, 7, 4), "raise"), ((5, 7, 2), "raise"), ((5, 7, 3, 2), "raise")):
        dec = Obj("decoded", {"shape": shape, "ndim": len(shape)})
        fo = Folder(symbolic=True)
        fo.func_stack.append(fb.node)
        fo.overrides = {"cv2.imdecode": lambda a, k, dec=dec: dec}
        try:
            r = fo.call(fb.node, [Opaque("bytes", "data")], {})
        except Raised as e_:
            from ..fold import raised_by_code
            if not raised_by_code(e_):
                return None   # an exception of the fold's own making
            if want != "raise":
                bad.append(f"decoded shape {shape}: raises instead of building an image")
            continue
        except Refuse:
            return None
        kind, img = data_of(r)
        if kind is None or kind not in ("ScalarImage", "OpticalImage", "Image"):
            return None   # the class that is instantiated is not one the rule knows by name (built by a look-up the fold did not resolve)
        t = nf(img)
        if want == "raise":
            bad.append(f"decoded shape {shape}: returns {kind} instead of raising")
        elif want == "scalar":
            if kind != "ScalarImage":
                bad.append(f"decoded shape {shape}: returns {kind}, not ScalarImage")
            elif not (img is dec or t in ("reshapeC(<decoded>, (5, 7))", "np.squeeze(<decoded>)")):
                und.append(f"decoded shape {shape}: ScalarImage(img={t})")
        elif want == "optical":
            if kind != "OpticalImage":
                bad.append(f"decoded shape {shape}: returns {kind}, not OpticalImage")
            elif img is dec:
                bad.append(f"decoded shape {shape}: OpticalImage receives the decoded (BGR) array without conversion to RGB")
            elif not (isinstance(img, Sym) and img.fn == "cv2.cvtColor" and len(img.args) == 2 and img.args[0] is dec and getattr(img.args[1], "label", "") == "cv2.COLOR_BGR2RGB"):
                if isinstance(img, Sym) and img.fn == "cv2.cvtColor" and len(img.args) == 2 and img.args[0] is dec:
                    bad.append(f"decoded shape {shape}: converted with {nf(img.args[1])}, not cv2.COLOR_BGR2RGB")
                else:
                    und.append(f"decoded shape {shape}: OpticalImage(img={t})")
        else:
            if kind != "ScalarImage":
                bad.append(f"decoded shape {shape}: returns {kind}, not ScalarImage")
            elif img is dec:
                bad.append(f"decoded shape {shape}: the channel axis of length 1 is kept")
            elif t not in ("<decoded>[..., 0]", "<decoded>[:, :, 0]", "<decoded>[:, :, -1]", "<decoded>[..., -1]", "np.squeeze(<decoded>)", "np.squeeze(<decoded>, axis=-1)",
                           "np.squeeze(<decoded>, axis=2)", "reshapeC(<decoded>, (5, 7))"):
                und.append(f"decoded shape {shape}: ScalarImage(img={t})")
    return bad, und


def savable(m, notes=None):
    base = m.cls(BASE, "BaseCorrection")
    out = []
    for k in m.subclasses(base, strict=True):
        s = m.method(k, "save")
        l = m.method(k, "load")
        if s is None or l is None or s.cls is base:
            continue
        if any(isinstance(x, ast.Raise) for x in s.node.body) or any(isinstance(x, ast.Raise) for x in l.node.body if not isinstance(x, ast.If)):
            continue
        # participants of the generic protocol are the classes whose save records a class name (BaseCorrection.save's
        # contract); a class with a private save/load pair that needs constructor arguments to be re-read (e.g. a baseline
        # image) is outside the property's quantifier and only noted
        writes_name = any(isinstance(c, ast.Call) and norm(c.func) == "np.savez" and any(kk.arg == "class_name" for kk in c.keywords) for c in ast.walk(s.node))
        if not writes_name:
            if notes is not None:
                notes.append(f"{k.name} has its own save/load pair without class_name (not part of the generic read_correction protocol)")
            continue
        out.append((k, s, l))
    return out


def rule_c(ctx):
    R = "C18.c"
    ctx.rule(R, "every savable correction is reachable from the generic reader: save writes class_name as the class's own name; that name "
             "resolves in readcorrection's namespace (the eval target); the class is constructible without arguments; keys read by load are "
             "written by save")
    m = ctx.model
    ctx.consult(RDC)
    rc = m.mod(RDC)
    names_in_reader = set(rc.imports) | set(rc.classes) | set(rc.funcs)
    notes = []
    for k, s, l in savable(m, notes):
        ctx.instance(R)
        ctx.consult(k.module.name)
        sv = [c for c in ast.walk(s.node) if isinstance(c, ast.Call) and norm(c.func) == "np.savez"]
        kws = {kk.arg: norm(kk.value) for c in sv for kk in c.keywords}
        ctx.ob(R, s.qname, f"{k.name}.save writes class_name=type(self).__name__", kws.get("class_name") == "type(self).__name__", str(kws.get("class_name")), s.node)
        ctx.ob(R, f"{RDC}.read_correction", f"{k.name} resolves in the reader's namespace", k.name in names_in_reader, f"names visible to eval: {sorted(names_in_reader)[:12]}", rc.tree)
        init = m.method(k, "__init__")
        ok = True
        if init is not None:
            a = init.node.args
            pos = a.posonlyargs + a.args
            ok = len(pos) - 1 <= len(a.defaults) and all(d is not None for d in a.kw_defaults)
        ctx.ob(R, k.qname, f"{k.name}() is constructible without arguments", ok, "", (init or s).node)
        read_keys = set()
        written_top = {(kk_,) for kk_ in kws}
        for x in ast.walk(l.node):
            if isinstance(x, ast.Subscript) and isinstance(x.slice, ast.Constant) and isinstance(x.slice.value, str) and (isinstance(x.value, ast.Call) and norm(x.value.func) == "np.load" or norm(x.value) in ("data", "npzdata")):
                if not (isinstance(getattr(x, "_parent", None), ast.Subscript)):
                    if (x.slice.value,) not in written_top and _dead_for_own_files(x, written_top):
                        ctx.note(f"C18.c: {k.name}.load reads the optional key '{x.slice.value}' under `'{x.slice.value}' in data`; save never writes it (dead for files written by this code)")
                        continue
                    read_keys.add(x.slice.value)
            if isinstance(x, ast.Call) and norm(x.func) == "data.get" and x.args and isinstance(x.args[0], ast.Constant):
                read_keys.add(x.args[0].value)
        nested_ok = True
        if k.name == "IlluminationCorrection":
            read_keys = {"config"}
        ctx.ob(R, l.qname, f"{k.name}.load reads only keys that save writes", read_keys <= set(kws), f"reads {sorted(read_keys)}, writes {sorted(kws)}", l.node)
    for nt in notes:
        ctx.note("C18.c: " + nt)
    ctx.floor(R, 5)
    rcf = m.func(RDC, "read_correction")
    amr = AM(rcf)
    pth = rcf.params[0]
    amr.let("cls_name", f"np.load({pth}, allow_pickle=True)['class_name'].item()")
    ok = amr.has(rcf.node, "correction = eval(cls_name)()") is not None and amr.has(rcf.node, f"correction.load({pth})") is not None and amr.has(rcf.node, "return correction") is not None
    ctx.ob(R, rcf.qname, "generic reader: class_name -> eval(class_name)() -> load(path)", ok, str(amr.show()), rcf.node)


EXEMPT_D = {
    ("CurvatureCorrection", "use_cache"): "on-disk memo of the same transformed grid; affects where the grid is cached, not the result",
    ("CurvatureCorrection", "cache_path"): "on-disk memo of the same transformed grid",
}


def rule_d(ctx):
    R = "C18.d"
    ctx.rule(R, "load restores what the correction reads: every attribute read in the correct_array / correct_metadata closure is assigned by "
             "load (transitively) or is a constant of the zero-argument constructor that no constructor argument can change")
    m = ctx.model
    for k, s, l in savable(m):
        ctx.instance(R)
        use = StateAnalysis(m, k, ["correct_array", "correct_metadata"])
        reads = set()
        for f in use.closure:
            fi = use.info(f)
            for n in fi.cfg.nodes:
                for a, kind, _ in attr_reads(n, fi.selfname):
                    reads.add(a)
        methods = {name for kk in m.mro(k) for name in kk.methods}
        reads -= methods
        ld = StateAnalysis(m, k, ["load"])
        loaded = set(ld.call_written)
        # configuring entry points: the constructor and every public method that is neither the correction itself nor persistence (setup(...), fit(...))
        NOT_CONFIG = {"correct_array", "correct_metadata", "correct_array_series", "save", "load", "__call__", "return_config", "__init__"}
        config_methods = ["__init__"] + sorted(n_ for kk in m.mro(k) if kk.module.name.startswith("darsia.corrections") for n_ in kk.methods if not n_.startswith("_") and n_ not in NOT_CONFIG)
        ct = StateAnalysis(m, k, [n_ for n_ in config_methods if m.method(k, n_) is not None])
        # constructor-argument dependence, transitively through attributes
        dep = {}
        for a, sites in ct.call_written.items():
            d = set()
            for g, n, kind in sites:
                for e in ct._def_exprs(n, a) or own_exprs(n):
                    d |= ct.roots(g, n, e)
            dep[a] = d
        argdep = {a for a, d in dep.items() if any(x[0] == "param" and x[1] not in ("self",) for x in d)}
        changed = True
        while changed:
            changed = False
            for a, d in dep.items():
                if a not in argdep and any(x[0] == "attr" and x[1] in argdep for x in d):
                    argdep.add(a)
                    changed = True
        for a in sorted(reads):
            if a in loaded:
                continue
            if (k.name, a) in EXEMPT_D:
                ctx.note(f"C18.d: {k.name}.{a} exempt: {EXEMPT_D[(k.name, a)]}")
                continue
            ok = a not in argdep
            ctx.ob(R, k.qname, f"{k.name}.{a} (read when correcting) is restored by load or fixed by the zero-argument constructor", ok,
                   f"self.{a} depends on an argument of the constructor / a configuring method ({', '.join(config_methods[:4])}), is read by correct_array/correct_metadata, and load() never assigns it: a saved and re-read {k.name} falls back to the default", l.node)
        ctx.ob(R, k.qname, f"{k.name}: persistence closure analysed", True, f"reads {len(reads)} attributes, load assigns {sorted(loaded)[:8]}", l.node)
    ctx.floor(R, 5)


def _dead_for_own_files(node, written):
    """Is `node` (inside load) guarded by `'<key>' in <file data>` for a key that this class's save never writes?  Then it cannot run on
    a file written by the same code."""
    cur = node
    while cur is not None:
        par = getattr(cur, "_parent", None)
        if isinstance(par, ast.If) and cur in par.body:
            t = par.test
            if isinstance(t, ast.Compare) and len(t.ops) == 1 and isinstance(t.ops[0], ast.In) and isinstance(t.left, ast.Constant) and isinstance(t.left.value, str):
                if (t.left.value,) not in written:
                    return True
        cur = par
    return False


def rule_e(ctx):
    R = "C18.e"
    ctx.rule(R, "directly restored attributes are stored verbatim: whenever load assigns self.A from key K of the file (possibly through "
             ".item() / int() / a nested config dict), save writes exactly self.A under K -- a value converted on the way out (np.dtype(.), "
             "str(.), a rounded copy) reloads as a different object and the reloaded correction need not behave like the saved one")
    m = ctx.model
    PEEL_CALLS = {"int", "float", "str", "bool", "list", "tuple", "np.array", "np.asarray"}
    n = 0
    for k, s, l in savable(m):
        sv = [c for c in ast.walk(s.node) if isinstance(c, ast.Call) and norm(c.func) == "np.savez"]
        if len(sv) != 1:
            continue
        written = {}
        for kk in sv[0].keywords:
            if kk.arg is None:
                continue
            written[(kk.arg,)] = kk.value
            if isinstance(kk.value, ast.Dict):
                for dk, dv in zip(kk.value.keys, kk.value.values):
                    if isinstance(dk, ast.Constant):
                        written[(kk.arg, dk.value)] = dv
        # configuration dicts produced by a method of the class (save writes config=self.return_config()): entries are attributes, verbatim
        for kk in sv[0].keywords:
            v = kk.value
            if isinstance(v, ast.Call) and isinstance(v.func, ast.Attribute) and isinstance(v.func.value, ast.Name) and v.func.value.id == "self" and not v.args and not v.keywords:
                meth = m.method(k, v.func.attr)
                if meth is None:
                    continue
                rets = [r.value for r in ast.walk(meth.node) if isinstance(r, ast.Return) and r.value is not None]
                if len(rets) == 1 and isinstance(expand(meth.node, rets[0]), ast.Dict):
                    d = expand(meth.node, rets[0])
                    for dk, dv in zip(d.keys, d.values):
                        if not isinstance(dk, ast.Constant):
                            continue
                        n += 1
                        ctx.instance(R)
                        verb = isinstance(dv, ast.Constant) or (isinstance(dv, ast.Attribute) and isinstance(dv.value, ast.Name) and dv.value.id == "self")
                        ctx.ob(R, meth.qname, f"{k.name}: configuration entry '{dk.value}' (saved under {kk.arg}) is an attribute of the object, verbatim", verb,
                               f"`{norm(dv)[:90]}` is written: the loader re-derives its state from this value as if it were the constructor argument, so a converted value is converted twice", dv)
        env = {}
        for st in ast.walk(l.node):
            if isinstance(st, ast.Assign) and len(st.targets) == 1 and isinstance(st.targets[0], ast.Name):
                env.setdefault(st.targets[0].id, []).append(st.value)

        def keypath(e, depth=0):
            """Key path in the file that expression e reads verbatim, or None."""
            if depth > 6:
                return None
            while True:
                if isinstance(e, ast.Call) and isinstance(e.func, ast.Attribute) and e.func.attr == "item" and not e.args:
                    e = e.func.value
                elif isinstance(e, ast.Call) and norm(e.func) in PEEL_CALLS and len(e.args) == 1:
                    e = e.args[0]
                else:
                    break
            if isinstance(e, ast.Name) and len(env.get(e.id, [])) == 1:
                return keypath(env[e.id][0], depth + 1)
            if isinstance(e, ast.Call) and norm(e.func) == "np.load":
                return ()
            if isinstance(e, ast.Subscript) and isinstance(e.slice, ast.Constant) and isinstance(e.slice.value, str):
                base = keypath(e.value, depth + 1)
                return None if base is None else base + (e.slice.value,)
            if isinstance(e, ast.Call) and isinstance(e.func, ast.Attribute) and e.func.attr == "get" and e.args and isinstance(e.args[0], ast.Constant):
                base = keypath(e.func.value, depth + 1)
                return None if base is None else base + (e.args[0].value,)
            return None

        for st in ast.walk(l.node):
            if isinstance(st, ast.Assign) and len(st.targets) == 1 and self_attr(st.targets[0]):
                A = self_attr(st.targets[0])
                kp = keypath(st.value)
                if not kp:
                    continue
                if kp not in written and len(kp) == 1 and _dead_for_own_files(st, written):
                    continue  # optional key that this save never writes
                n += 1
                ctx.instance(R)
                w = written.get(kp)
                forms = (f"self.{A}", f"self.{A} if hasattr(self, '{A}') else None")
                ctx.ob(R, s.qname, f"{k.name}: key {'.'.join(kp)} restored into self.{A} is written as self.{A}", w is not None and norm(w) in forms,
                       f"save writes `{norm(w) if w is not None else None}` under {'.'.join(kp)}; load assigns it to self.{A} unchanged", w if w is not None else s.node)
        # ... and the other way round: an attribute written under its own top-level key is read back from that key (an attribute that
        # load re-derives from something else -- a default, the configuration -- comes back different whenever it was set independently)
        restored = {}
        for st in ast.walk(l.node):
            if isinstance(st, ast.Assign) and len(st.targets) == 1 and self_attr(st.targets[0]):
                restored.setdefault(self_attr(st.targets[0]), []).append(keypath(st.value))
        for kp, w in written.items():
            if len(kp) != 1 or kp[0] in ("class_name",) or not (isinstance(w, ast.Attribute) and isinstance(w.value, ast.Name) and w.value.id == "self"):
                continue
            A = w.attr
            if A not in restored:
                continue  # restored by other means (constructor call inside load, ...): not read here
            n += 1
            ctx.instance(R)
            ctx.ob(R, l.qname, f"{k.name}: self.{A}, written under '{kp[0]}', is read back from that key", any(r == kp for r in restored[A]),
                   f"load assigns self.{A} from {[('.'.join(r) if r else 'something that is not in the file') for r in restored[A]]}, never from the stored '{kp[0]}'", l.node, evidence=True)
        # ... and a restored attribute stays as it was read: what save wrote is the object's final state, so a modification after
        # the restore (in load itself or in a method of self that load calls) is applied a second time on every reload
        from .common import _inplace_writes

        direct = {A for A, kps in restored.items() if any(kps) and any(kp_ in written for kp_ in kps if kp_)}
        if direct:
            me = l.params[0]
            seen_m, todo = set(), [l]
            while todo:
                g = todo.pop()
                if g in seen_m:
                    continue
                seen_m.add(g)
                for c in ast.walk(g.node):
                    if isinstance(c, ast.Call) and isinstance(c.func, ast.Attribute) and isinstance(c.func.value, ast.Name) and g.params and c.func.value.id == g.params[0]:
                        if g is l and _dead_for_own_files(c, written):
                            continue
                        t = m.method(k, c.func.attr)
                        if t is not None and t.name not in ("__init__",):
                            todo.append(t)
            for A in sorted(direct):
                n += 1
                ctx.instance(R)
                bad = []
                for g in seen_m:
                    if not g.params:
                        continue
                    me_g = g.params[0]

                    def is_t(e, A=A, me_g=me_g):
                        while isinstance(e, ast.Subscript):
                            e = e.value
                        return isinstance(e, ast.Attribute) and e.attr == A and isinstance(e.value, ast.Name) and e.value.id == me_g
                    for w_ in _inplace_writes(g.node, is_t):
                        if g is l and (isinstance(w_, ast.Assign) or _dead_for_own_files(w_, written)):
                            continue
                        bad.append((g, w_))
                ctx.ob(R, l.qname, f"{k.name}: self.{A} is not modified after it is restored from the file", not bad,
                       "; ".join(f"{g.short}: `{norm(w_)[:70]}`" for g, w_ in bad[:3]) + f" -- reached from load: the stored self.{A} is already in its final state, the reloaded one is transformed once more",
                       bad[0][1] if bad else l.node, evidence=True)
    ctx.floor(R, 6)


def rule_f(ctx):
    R = "C18.f"
    ctx.rule(R, "what a saved correction does not persist must not matter: the helper objects a reloaded correction rebuilds from scratch (the "
             "TranslationEstimator behind DriftCorrection / TranslationCorrection) carry no state from one call to the next -- hidden-state "
             "analysis with every public method as entry; a value remembered from earlier frames makes the used object and its reloaded "
             "copy disagree on the same input")
    from ..state import StateAnalysis

    m = ctx.model
    k = m.cls("darsia.corrections.shape.translation", "TranslationEstimator")
    ents = [n for n in k.methods if not n.startswith("__")]
    ctx.need(len(ents) >= 3, "TranslationEstimator: methods not found")
    sa = StateAnalysis(m, k, ents)
    ctx.instance(R, len(ents))
    seen = set()
    for f, n, a, kind, an, chain in sa.cross_call_reads():
        key = (f.qname, a, n.text())
        if key in seen:
            continue
        seen.add(key)
        ok, why = sa.justify(f, n, a, kind)
        ctx.ob(R, f.qname, f"TranslationEstimator: read of self.{a} in `{n.text()[:60]}` does not depend on earlier calls", ok,
               f"{why}. The attribute is written while matching and read by a later match; save / load do not carry it", an, evidence=True)
    ctx.ob(R, k.qname, f"TranslationEstimator: {len(ents)} method(s) analysed for state kept between calls ({sorted(sa.call_written)})", True, "", k.node)
    ctx.floor(R, 3)


def rule_g(ctx):
    R = "C18.g"
    ctx.rule(R, "restoring a written configuration is the identity: for the corrections that persist a configuration dictionary (return_config -> "
             "save -> load -> _init_from_config), _init_from_config folded on exactly what return_config returns gives back the attributes the "
             "configuration was written from -- a value that is converted again on the way in (a padded roi padded once more) makes the reloaded "
             "correction differ from the saved one")
    from ..fold import Folder, Obj, Opaque, Raised, Refuse, Sym, mentions_unknown
    from ..terms import nf

    m = ctx.model
    n = 0
    for k in [c for mod in m.modules.values() for c in mod.classes.values()]:
        rc, ini = k.methods.get("return_config"), k.methods.get("_init_from_config")
        if rc is None or ini is None or len(rc.params) != 1 or len(ini.params) != 2:
            continue
        n += 1
        ctx.instance(R)
        ctx.consult(k.module.name)
        # attributes the written configuration is made of: return {"key": self.attr, ...}
        rets = [r.value for r in ast.walk(rc.node) if isinstance(r, ast.Return) and isinstance(r.value, ast.Dict)]
        if len(rets) != 1:
            ctx.ob(R, rc.qname, f"{k.name}: return_config returns one dictionary of attributes", False, "dictionary literal not found", rc.node)
            continue
        pairs = {kk.value: vv.attr for kk, vv in zip(rets[0].keys, rets[0].values) if isinstance(kk, ast.Constant) and isinstance(vv, ast.Attribute) and isinstance(vv.value, ast.Name) and vv.value.id == rc.params[0]}
        if len(pairs) != len(rets[0].keys):
            ctx.ob(R, rc.qname, f"{k.name}: return_config writes attributes verbatim", False, "an entry that is not `self.<attribute>` -- not found in a comparable form (C18.e judges it)", rc.node)
            continue
        tokens = {}
        for key, attr in pairs.items():
            # a roi as it is stored: a tuple of slices with symbolic bounds; everything else an opaque token
            tokens[key] = (slice(Opaque("int", "a0"), Opaque("int", "b0")), slice(Opaque("int", "a1"), Opaque("int", "b1"))) if "roi" in key else Opaque("cfg", f"CFG_{key}")
        so = Obj("self", {"__class__": k.name, "base": Obj("base", {"shape": (Opaque("int", "N0"), Opaque("int", "N1"), 3), "img": Opaque("arr", "BASE")})})
        fo = Folder(symbolic=True)
        fo.func_stack.append(ini.node)
        fo.fold_all_methods = True
        try:
            fo.call(ini.node, [so, dict(tokens)])
        except (Refuse, Raised) as e:
            ctx.ob(R, ini.qname, f"{k.name}: _init_from_config(return_config()) restores every attribute", False, f"fold not found to be possible: {e}", ini.node)
            continue
        bad, und = [], []
        for key, attr in pairs.items():
            got = so.fields.get(attr)
            if got is tokens[key] or (isinstance(tokens[key], tuple) and isinstance(got, tuple) and len(got) == len(tokens[key]) and all(a_ is b_ for a_, b_ in zip(got, tokens[key]))):
                continue
            if got is None or mentions_unknown(got):
                und.append(attr)
            elif isinstance(got, Sym) or (isinstance(got, (list, tuple)) and got is not tokens[key]):
                bad.append(f"self.{attr} becomes {nf(got)[:110]} when the written value of '{key}' is read back")
            else:
                und.append(attr)
        if bad:
            ctx.ob(R, ini.qname, f"{k.name}: _init_from_config(return_config()) restores every attribute", False,
                   "; ".join(bad[:2]) + ": the stored value is converted a second time on load, the reloaded correction is not the saved one", ini.node, evidence=True)
        else:
            ctx.ob(R, ini.qname, f"{k.name}: _init_from_config(return_config()) restores every attribute", not und, f"attributes {und} not found by the fold", ini.node)
    ctx.floor(R, 1)


def rule_h(ctx):
    R = "C18.h"
    ctx.rule(R, "the bit depth an image is written with follows from the image alone: in the write methods of image.py, the test that selects a "
             "conversion to 8 bit (img_as_ubyte, img_as(np.uint8), astype(np.uint8)) reads the image's (original) dtype, not the file name, its "
             "suffix or the caller's options -- a 16-bit image written to a lossless format that can hold it must come back with the same colours")
    m = ctx.model
    DOWN = ("skimage.img_as_ubyte", "img_as_ubyte")
    n = 0
    for k in m.mod(IMG).classes.values():
        f = k.methods.get("write")
        if f is None:
            continue
        path_names = {f.params[1]} if len(f.params) > 1 else set()
        kw = f.node.args.kwarg.arg if f.node.args.kwarg is not None else None
        # locals derived from the path / the options
        changed = True
        while changed:
            changed = False
            for s_ in ast.walk(f.node):
                if isinstance(s_, ast.Assign) and len(s_.targets) == 1 and isinstance(s_.targets[0], ast.Name) and s_.targets[0].id not in path_names:
                    used = {x.id for x in ast.walk(s_.value) if isinstance(x, ast.Name)}
                    if used & (path_names | ({kw} if kw else set())):
                        path_names.add(s_.targets[0].id)
                        changed = True
        for iff in ast.walk(f.node):
            if not isinstance(iff, ast.If):
                continue
            def converts(stmts):
                for st_ in stmts:
                    for c_ in ast.walk(st_):
                        if isinstance(c_, ast.Call) and (norm(c_.func) in DOWN or (isinstance(c_.func, ast.Attribute) and c_.func.attr in ("img_as", "astype") and c_.args and norm(c_.args[0]) in ("np.uint8", "'uint8'", "np.ubyte"))):
                            return True
                return False
            if not converts(iff.body):
                continue
            n += 1
            ctx.instance(R)
            used = {x.id for x in ast.walk(iff.test) if isinstance(x, ast.Name)}
            foreign = sorted(used & (path_names | ({kw} if kw else set())))
            ctx.ob(R, f.qname, f"{k.name}.write: the branch that converts to 8 bit (`if {norm(iff.test)[:60]}`) is selected by the image's dtype alone", not foreign,
                   f"the test reads {foreign} (derived from the file name / the options): an image of higher bit depth is reduced to 8 bit depending on where it is written -- "
                   "read back from a lossless file its colours differ from the original", iff, evidence=True)
    ctx.floor(R, 1)


def rule_i(ctx):
    R = "C18.i"
    ctx.rule(R, "typed points keep their type through pickling: corrections store configuration entries (crop points, regions) as typed point arrays inside "
             "pickled npz entries, and code that reads them back dispatches on the point class -- a __reduce__ / __reduce_ex__ / __getstate__ of a point class "
             "that rebuilds the object with another constructor (a plain ndarray) changes how the reloaded correction interprets them")
    m = ctx.model
    mod = m.mod("darsia.utils.point")
    ctx.consult("darsia.utils.point")
    n = 0
    for k in mod.classes.values():
        n += 1
        ctx.instance(R)
        bad = []
        for name in ("__reduce__", "__reduce_ex__"):
            f = k.methods.get(name)
            if f is None:
                continue
            for r in ast.walk(f.node):
                if isinstance(r, ast.Return) and isinstance(r.value, ast.Tuple) and r.value.elts:
                    ctor = norm(r.value.elts[0])
                    if ctor not in ("type(self)", "self.__class__", k.name, f"darsia.{k.name}") and not ctor.startswith(("super()", "_reconstruct", "copyreg.")):
                        bad.append((f, ctor))
                elif isinstance(r, ast.Return) and isinstance(r.value, ast.Call) and isinstance(r.value.func, ast.Attribute) and r.value.func.attr in ("__reduce__", "__reduce_ex__") \
                        and not norm(r.value.func.value).startswith("super()"):
                    bad.append((f, norm(r.value)[:60]))   # the pickling of another object (np.asarray(self)) is handed out as one's own
        ctx.ob(R, k.qname, f"{k.name}: pickling rebuilds an object of the same class", not bad,
               (f"{bad[0][0].short} returns `{bad[0][1]}` as reconstructor: a pickled {k.name} (and every subclass) comes back as another type; readers that test `isinstance(pts, VoxelArray)` "
                "take the other branch and read the points in the other axis order") if bad else "", bad[0][0].node if bad else k.node, evidence=True)
    ctx.floor(R, 6)


def run(ctx):
    ctx.guard(rule_i, ctx)
    ctx.guard(rule_h, ctx)
    ctx.guard(rule_g, ctx)
    ctx.guard(rule_f, ctx)
    ctx.guard(rule_a, ctx)
    ctx.guard(rule_b, ctx)
    ctx.guard(rule_c, ctx)
    ctx.guard(rule_d, ctx)
    ctx.guard(rule_e, ctx)
