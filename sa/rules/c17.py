"""C17 -- operations that return new objects do not modify their arguments."""
from __future__ import annotations

import ast

from ..amatch import AM
from ..flow import expand
from ..effects import FRESH, GLOBAL_STATE_CALLS, Effects
from ..fold import Folder, Opaque, Raised, Refuse
from ..report import AnalysisError
from ..srcmodel import Func, norm
from ..state import self_attr

LEVEL = "other"
IMG = "darsia.image.image"

# (module, qualified name, protected parameters or None = all, fixed boolean keywords, note)
_IMAGE_METHODS = ["copy", "astype", "img_as", "time_slice", "time_interval", "slice", "subregion", "__add__", "__sub__", "__mul__", "__lt__", "__gt__", "__eq__", "__le__", "__ge__",
                  "metadata", "shape_metadata"]
REGISTRY = (
    [(IMG, f"Image.{n}", None, {}) for n in _IMAGE_METHODS]
    + [
        (IMG, "Image.reset_origin", ["self"], {"return_image": True}),  # documented to reset self.origin; nothing else of self may change: see special rule
        (IMG, "OpticalImage.to_trichromatic", None, {"return_image": True}),
        (IMG, "OpticalImage.to_monochromatic", None, {}),
        (IMG, "OpticalImage.add_grid", None, {}),
        (IMG, "OpticalImage.metadata", None, {}),
        (IMG, "Image.__init__", ["img", "transformations", "kwargs"], {}),
        (IMG, "ScalarImage.__init__", ["img", "transformations", "kwargs"], {}),
        (IMG, "OpticalImage.__init__", ["img", "transformations", "kwargs"], {}),
        ("darsia.image.arithmetics", "weight", None, {}),
        ("darsia.image.arithmetics", "superpose", None, {}),
        ("darsia.image.arithmetics", "stack", None, {}),
        ("darsia.restoration.resize", "Resize.__call__", ["img"], {}),
        ("darsia.restoration.resize", "resize", None, {}),
        ("darsia.restoration.resize", "equalize_voxel_size", None, {}),
        ("darsia.restoration.resize", "uniform_refinement", None, {}),
        ("darsia.signals.reduction.dimensionreduction", "AxisReduction.__call__", ["img"], {}),
        ("darsia.signals.reduction.dimensionreduction", "reduce_axis", None, {}),
        ("darsia.signals.reduction.dimensionreduction", "extrude_along_axis", None, {}),
        ("darsia.utils.standard_images", "zeros_like", None, {}),
        ("darsia.utils.standard_images", "ones_like", None, {}),
        ("darsia.utils.box", "bounding_box", None, {}),
        ("darsia.utils.box", "bounding_box_inverse", None, {}),
        ("darsia.utils.box", "perimeter", None, {}),
        ("darsia.utils.box", "random_patches", None, {}),
        ("darsia.signals.models.clipmodel", "ClipModel.__call__", ["img"], {}),
        ("darsia.signals.models.linearmodel", "ScalingModel.__call__", ["img"], {}),
        ("darsia.signals.models.linearmodel", "LinearModel.__call__", ["img"], {}),
        ("darsia.signals.models.linearmodel", "HeterogeneousLinearModel.__call__", ["img"], {}),
        ("darsia.signals.models.combinedmodel", "CombinedModel.__call__", ["img"], {}),
        ("darsia.signals.models.staticthresholdmodel", "StaticThresholdModel.__call__", ["img", "mask"], {}),
        ("darsia.signals.models.kernelinterpolation", "KernelInterpolation.__call__", ["signal"], {}),
        ("darsia.measure.integration", "Geometry.integrate", ["data"], {}),
        ("darsia.measure.integration", "Geometry.normalize", ["img", "img_ref"], {}),
        ("darsia.measure.emd", "EMD.__call__", ["img_1", "img_2"], {}),
        ("darsia.measure.wasserstein", "VariationalWassersteinDistance.__call__", ["img_1", "img_2"], {}),
        ("darsia.measure.wasserstein", "wasserstein_distance", None, {}),
        ("darsia.multi_image_analysis.concentrationanalysis", "ConcentrationAnalysis.__call__", ["img"], {}),
        ("darsia.restoration.tvd", "TVD.__call__", ["img"], {}),
        ("darsia.restoration.tvd", "tvd", ["img"], {}),
        ("darsia.restoration.h1_regularization", "H1_regularization", ["img"], {}),
        ("darsia.restoration.split_bregman_tvd", "split_bregman_tvd", ["img", "x0", "mu", "omega", "ell"], {}),
        ("darsia.corrections.basecorrection", "BaseCorrection.__call__", ["image"], {"overwrite": False}),
        ("darsia.image.coordinatetransformation", "CoordinateTransformation.__call__", ["image"], {}),
        ("darsia.corrections.shape.generalizedperspective", "GeneralizedPerspectiveCorrection.__init__", ["fit_options", "pts_src", "pts_dst"], {}),
        ("darsia.corrections.shape.affine", "AffineCorrection.__init__", ["fit_options", "pts_src", "pts_dst"], {}),
    ]
)


def rule_a(ctx, E, only=None, floor=50):
    R = "C17.a"
    ctx.rule(R, "effect summaries over a registry of call forms documented to return a new object: no mutation event (attribute / subscript "
             "store, in-place operator, mutator method, out=, callee that mutates) may be rooted at a protected argument, under the "
             "resolved summaries of all repository callees; keyword-dependent forms are analysed with the keyword fixed")
    m = ctx.model
    n = 0
    for mod, qn, protect, fixed in REGISTRY:
        if only is not None and not only(mod, qn):
            continue
        try:
            f = m.func(mod, qn)
        except AnalysisError:
            raise
        ctx.consult(mod)
        n += 1
        ctx.instance(R)
        events, _ = E.analyse_with(f, fixed) if fixed else (E.events.get(f, []), None)
        prot = set(protect) if protect is not None else set(f.params)
        if qn == "Image.reset_origin":
            # documented effect: self.origin is reset; any other store on self would be an unexpected side effect
            events = [e for e in events if not (e.root == "self" and e.kind == "store" and e.via.startswith("self.origin ="))]
        bad = {}
        for e in events:
            if e.root in prot:
                bad.setdefault(e.root, []).append(e)
        for p in sorted(prot & set(f.params)):
            evs = bad.get(p, [])
            ctx.ob(R, f.qname, f"argument `{p}` is not modified" + (f" (with {fixed})" if fixed else ""), not evs,
                   "; ".join(f"L{getattr(e.node, 'lineno', 0)} {e.kind}: {e.via}" for e in evs[:3]), evs[0].node if evs else f.node)
    ctx.floor(R, floor)
    ctx.stat("registry_forms", n)


def rule_b(ctx, E):
    R = "C17.b"
    ctx.rule(R, "shared metadata references: metadata() hands out shallow copies, so derived images share their dimensions / date / time "
             "lists with the source; no function may write in place into such an attribute (x.dimensions[i] = ..., x.date.append(...), "
             "x.time.append(...)) unless the list it writes to was created in the same function")
    m = ctx.model
    attrs = {"dimensions", "date", "time", "origin"}
    n = 0
    for f in m.all_funcs():
        if not f.module.name.startswith("darsia.image") and not f.module.name.startswith("darsia.signals.reduction") and not f.module.name.startswith("darsia.restoration"):
            continue
        amap = E.alias.get(f, {})
        for st in ast.walk(f.node):
            tgt = None
            what = ""
            if isinstance(st, (ast.Assign, ast.AugAssign)):
                for t in (st.targets if isinstance(st, ast.Assign) else [st.target]):
                    if isinstance(t, ast.Subscript) and isinstance(t.value, ast.Attribute) and t.value.attr in attrs:
                        tgt, what = t.value, norm(st)[:80]
                    # `x.date += [...]` extends the list object x.date refers to (list.__iadd__), it does not build a new one
                    if isinstance(st, ast.AugAssign) and isinstance(t, ast.Attribute) and t.attr in attrs and \
                            (t.attr in ("date", "dimensions", "origin") or isinstance(st.value, (ast.List, ast.ListComp)) or
                             (isinstance(st.value, ast.IfExp) and any(isinstance(b, (ast.List, ast.ListComp)) for b in (st.value.body, st.value.orelse)))):
                        tgt, what = t, norm(st)[:80]
            elif isinstance(st, ast.Call) and isinstance(st.func, ast.Attribute) and st.func.attr in ("append", "extend", "insert", "pop", "remove", "sort", "reverse", "clear") \
                    and isinstance(st.func.value, ast.Attribute) and st.func.value.attr in attrs:
                tgt, what = st.func.value, norm(st)[:80]
            if tgt is None:
                continue
            n += 1
            ctx.instance(R)
            ctx.consult(f.module.name)
            key = E._key(tgt, f)
            r = set(amap.get(key, set())) if key else set()
            fresh = bool(r) and r <= {FRESH}
            ctx.ob(R, f.qname, f"in-place write `{what}` targets a list created in this function", fresh,
                   f"`{norm(tgt)}` may be shared (aliases {sorted(r) or ['an object created elsewhere']}): images derived through metadata() hold the same list", st, evidence=True)
    ctx.stat("inplace_metadata_writes", n)
    md = m.func(IMG, "Image.metadata")
    am = AM(md)
    rvs = [expand(md.node, r.value) for r in ast.walk(md.node) if isinstance(r, ast.Return) and r.value is not None]
    ok = len(rvs) == 1 and (isinstance(rvs[0], ast.Dict) or (isinstance(rvs[0], ast.Call) and (norm(rvs[0].func) in ("copy.copy", "copy.deepcopy", "dict") or (isinstance(rvs[0].func, ast.Attribute) and rvs[0].func.attr == "copy"))))
    ctx.ob(R, md.qname, "metadata() returns a copy of the dict (values shared)", ok, str([norm(r.value) for r in ast.walk(md.node) if isinstance(r, ast.Return)]), md.node)
    ctx.instance(R)
    ctx.floor(R, 1)


def rule_c(ctx, E):
    R = "C17.c"
    ctx.rule(R, "global random state: no function of the package may call np.random.seed / random.seed / np.random.set_state (empty allow-list)")
    m = ctx.model
    n_calls = 0
    for f in m.all_funcs():
        for c in ast.walk(f.node):
            if isinstance(c, ast.Call):
                n_calls += 1
                d = norm(c.func)
                if d in GLOBAL_STATE_CALLS:
                    ctx.consult(f.module.name)
                    ctx.ob(R, f.qname, f"no call of {d}", False, f"`{norm(c)}` re-seeds the process-wide generator: callers' random streams change", c)
    ctx.ob(R, "darsia", "package scanned for global RNG seeding", True, f"{n_calls} call sites inspected", None)
    ctx.instance(R, n_calls)
    ctx.floor(R, 1000)
    # keep the rule from passing vacuously: a positive example must match
    probe = ast.parse("def f():\n    np.random.seed(42)\n")
    hit = any(isinstance(c, ast.Call) and norm(c.func) in GLOBAL_STATE_CALLS for c in ast.walk(probe))
    ctx.need(hit, "RNG rule self-check failed")


class TypeFolder(Folder):
    def c_isinstance(self, a, kw):
        v, t = a
        tags = t if isinstance(t, tuple) else (t,)
        if isinstance(v, Opaque):
            return any(getattr(tg, "name", None) == v.tag for tg in tags)
        return super().c_isinstance(a, kw)


_OPNAME = {ast.Add: "+", ast.Sub: "-", ast.Lt: "<", ast.LtE: "<=", ast.Gt: ">", ast.GtE: ">=", ast.Eq: "=="}
_OPERATOR = {"operator.add": "+", "operator.sub": "-", "operator.lt": "<", "operator.le": "<=", "operator.gt": ">", "operator.ge": ">=", "operator.eq": "==",
             "np.add": "+", "np.subtract": "-", "np.less": "<", "np.less_equal": "<=", "np.greater": ">", "np.greater_equal": ">=", "np.equal": "=="}
_FLIP = {">": "<", ">=": "<=", "<": ">", "<=": ">="}


def _fold_operator(g, op):
    """Symbolic fold of a binary dunder that delegates to a helper: the data of the result must be `self.img <op> other.img` (image operand)
    and, where a scalar operand is accepted, `self.img <op> other`.  None when the method leaves the folding language."""
    from ..fold import Folder, Obj, Sym

    def canon(v):
        if not isinstance(v, Sym) or len(v.args) != 2:
            return None
        o = _OPERATOR.get(v.fn, v.fn)
        a, b = v.args
        la, lb = getattr(a, "label", None), getattr(b, "label", None)
        if o in _FLIP and la != "A":
            o, la, lb = _FLIP[o], lb, la
        elif o in ("+", "==") and la != "A":
            la, lb = lb, la
        return (o, la, lb)
    verdicts = []
    for other, lab, must in ((Obj("other", {"__class__": "Image", "img": Opaque("arr", "B")}), "B", True), (Opaque("float", "c"), "c", False)):
        fo = Folder(symbolic=True)
        fo.func_stack.append(g.node)
        fo.fold_all_methods = True   # helpers the dunder delegates to (_combine, _compare) are part of it
        try:
            r = fo.call(g.node, [Obj("self", {"__class__": "Image", "img": Opaque("arr", "A")}), other])
        except (Refuse, Raised):
            if must:
                return None
            continue
        data = [t.args[2] for t in fo.trace if isinstance(t, Sym) and t.fn == "setattr" and t.args[1] == "img"]
        if not data and isinstance(r, Sym) and r.args:
            data = [r.args[0]]
        if len(data) != 1:
            if must:
                return None
            continue
        c = canon(data[0])
        if c is None or c[0] not in _OPNAME.values() or {c[1], c[2]} - {"A", "B", "c"}:
            # not an operator applied to the two data arrays as far as the fold can tell (an unresolved helper, a wrapped call): nothing to judge
            if must:
                return None
            continue
        verdicts.append((c == (_OPNAME[op], "A", lab), f"with {'an image' if must else 'a scalar'} operand the result data is {data[0]!r}"))
    bad = [w for ok, w in verdicts if not ok]
    return (not bad, "; ".join(bad))


def rule_d(ctx):
    R = "C17.d"
    ctx.rule(R, "the scalar guard of multiplication accepts every documented type (guard folded over the type tags of the annotation); each "
             "arithmetic / comparison operator applies its own operator to .img of both operands and builds the result from self's metadata")
    m = ctx.model
    f = m.func(IMG, "Image.__mul__")
    ann = f.node.args.args[1].annotation
    tags = sorted({x.id for x in ast.walk(ann) if isinstance(x, ast.Name)} - {"Union", "Optional"}) if ann is not None else []
    ctx.need(tags, "Image.__mul__: scalar annotation not found")
    guards = [s for s in f.node.body if isinstance(s, ast.If) and any(isinstance(x, ast.Raise) for x in s.body)]
    ctx.instance(R)
    for t in tags:
        rejected = False
        for g in guards:
            try:
                rejected = rejected or bool(TypeFolder().ev(g.test, {f.params[1]: Opaque(t, "scalar")}))
            except (Refuse, Raised) as e:
                raise AnalysisError(f"Image.__mul__ guard outside the folding language: {e}")
        ctx.ob(R, f.qname, f"documented scalar type `{t}` passes the guard", not rejected, f"guard `{norm(guards[0].test) if guards else ''}` raises for {t}", guards[0] if guards else f.node, evidence=True)
    ops = {"__add__": ast.Add, "__sub__": ast.Sub, "__lt__": ast.Lt, "__gt__": ast.Gt, "__eq__": ast.Eq, "__le__": ast.LtE, "__ge__": ast.GtE}
    for name, op in ops.items():
        g = m.func(IMG, f"Image.{name}")
        ctx.instance(R)
        other = g.params[1]
        found = []
        for x in ast.walk(g.node):
            if isinstance(x, ast.BinOp) and norm(x.left) == "self.img":
                found.append((type(x.op), norm(x.right)))
            elif isinstance(x, ast.Compare) and norm(x.left) == "self.img" and len(x.ops) == 1:
                found.append((type(x.ops[0]), norm(x.comparators[0])))
            elif isinstance(x, ast.Compare) and norm(x.comparators[0]) == "self.img" and len(x.ops) == 1:
                # canonical orientation: `self.img > y` is stored as `y < self.img`
                flip = {ast.Lt: ast.Gt, ast.LtE: ast.GtE, ast.Gt: ast.Lt, ast.GtE: ast.LtE}
                found.append((flip.get(type(x.ops[0]), type(x.ops[0])), norm(x.left)))
        if not found:
            sem = _fold_operator(g, op)
            if sem is not None:
                ctx.ob(R, g.qname, f"{name} applies `{op.__name__}` to self.img and the other operand's data", sem[0], sem[1], g.node, evidence=True)
                continue
        ok = bool(found) and all(o is op for o, _ in found) and {r for _, r in found} <= {f"{other}.img", other} and f"{other}.img" in {r for _, r in found}
        ctx.ob(R, g.qname, f"{name} applies `{op.__name__}` to self.img and the other operand's data", ok, str([(o.__name__, r) for o, r in found]), g.node)
    rm = m.cls(IMG, "Image")
    alias = [s for s in rm.node.body if isinstance(s, ast.Assign) and norm(s.targets[0]) == "__rmul__"]
    ctx.ob(R, rm.qname, "__rmul__ is __mul__", len(alias) == 1 and norm(alias[0].value) == "__mul__", "", rm.node)
    ctx.instance(R)
    am = AM(f)
    sc = f.params[1]
    copy_ok = am.has(f.node, "result_image = self.copy()") is not None and am.has(f.node, "return result_image") is not None
    ctx.ob(R, f.qname, "__mul__ works on a copy of the image and returns it", copy_ok, str(am.show()), f.node)
    RI = am.actual("result_image") or "result_image"
    from ..algebra import NotPolynomial, Poly, ToPoly

    stores = [s_ for s_ in ast.walk(f.node) if isinstance(s_, (ast.Assign, ast.AugAssign)) and norm(s_.targets[0] if isinstance(s_, ast.Assign) else s_.target) == f"{RI}.img"]
    X, S = Poly.atom("X"), Poly.atom("S")

    def atom(n):
        t = norm(n)
        return "X" if t in (f"{RI}.img", "self.img", "self.copy().img") else ("S" if t == sc else None)
    verdict, why = None, ""
    inplace = [s_ for s_ in stores if isinstance(s_, ast.AugAssign)]
    if inplace:
        # an in-place product keeps the dtype of the image's array: numpy neither promotes (uint8 * 300 wraps, or raises under the casting rules)
        # nor accepts a float scalar for integer data -- the result differs from raw-array arithmetic img.img * scalar
        ctx.ob(R, f.qname, "__mul__ multiplies the copy's data by the scalar, nothing else", False,
               f"`{norm(inplace[0])[:70]}` works in place on the copy's array: the product keeps the array's dtype instead of the promoted type of `array * scalar` "
               "(integer images wrap or raise for scalars that do not fit)", inplace[0], evidence=True)
        stores = []
        verdict = "reported"
    if len(stores) == 1:
        st = stores[0]
        e = expand(f.node, st.value)

        class _Op(ast.NodeTransformer):   # operator.mul(a, b) is a * b
            def visit_Call(self, c_):
                self.generic_visit(c_)
                from ..fold import _OPERATOR_FUNCS
                if isinstance(c_.func, ast.Attribute) and isinstance(c_.func.value, ast.Name) and c_.func.value.id == "operator" and len(c_.args) == 2 and not c_.keywords \
                        and c_.func.attr in _OPERATOR_FUNCS and issubclass(_OPERATOR_FUNCS[c_.func.attr], ast.operator):
                    return ast.copy_location(ast.BinOp(left=c_.args[0], op=_OPERATOR_FUNCS[c_.func.attr](), right=c_.args[1]), c_)
                return c_
        from ..flow import clone as _clone
        e = ast.fix_missing_locations(_Op().visit(_clone(e)))
        try:
            p = ToPoly(atomize=atom)(e)
            if isinstance(st, ast.AugAssign):
                p = {ast.Mult: X * p, ast.Add: X + p, ast.Sub: X - p}.get(type(st.op), lambda: None)
                p = p if not callable(p) else None
            verdict = p is not None and p == X * S
            why = f"`{norm(st)[:80]}` gives {p!r}, not image data times scalar"
            if not verdict and p is not None and set(p.atoms()) - set(X.atoms()) - set(S.atoms()):
                verdict = None   # something the polynomial reading does not understand (a call, another name) takes part: nothing to judge
                # ... unless it is the product itself that a call post-processes (a cast back to the image's dtype, a clip, a rounding)
                for c_ in ast.walk(e):
                    if isinstance(c_, ast.Call):
                        inside = [c_.func.value] if isinstance(c_.func, ast.Attribute) else []
                        inside += list(c_.args)
                        if any(isinstance(b, ast.BinOp) and isinstance(b.op, ast.Mult) and {atom(b.left), atom(b.right)} == {"X", "S"} for i_ in inside for b in ast.walk(i_)):
                            verdict, why = False, f"`{norm(st)[:80]}`: the product is post-processed by `{norm(c_.func)[-40:]}` (raw-array arithmetic does not do that: the dtype / values of the result differ from img.img * scalar)"
                            break
        except NotPolynomial:
            inner = [c for c in ast.walk(e) if isinstance(c, ast.Call)]
            if inner and any(isinstance(b, ast.BinOp) and isinstance(b.op, ast.Mult) for b in ast.walk(e)):
                verdict, why = False, f"`{norm(st)[:80]}`: the product is post-processed by `{norm(inner[0].func)}` (raw-array arithmetic does not do that: the dtype / values of the result differ from img.img * scalar)"
    if verdict == "reported":
        pass
    elif verdict is None:
        ctx.ob(R, f.qname, "__mul__ multiplies the copy's data by the scalar, nothing else", False, "store into the copy's data not found", f.node)
    else:
        ctx.ob(R, f.qname, "__mul__ multiplies the copy's data by the scalar, nothing else", verdict, why, stores[0], evidence=True)
    ctx.floor(R, 9)


def rule_e(ctx):
    R = "C17.e"
    ctx.rule(R, "option dictionaries belong to the caller: in the classes that store an `options` / `kwargs` dictionary they were given, no object "
             "taken out of it (options.get(key, ...), options[key] -- directly, through a local or through an attribute it was stored in "
             "un-copied) is modified in place (setdefault / update / pop / item store): the caller's nested dictionary would gain or lose entries")
    from .common import _inplace_writes

    m = ctx.model
    n_cls = 0
    for mn in ("darsia.measure.wasserstein", "darsia.measure.emd", "darsia.restoration.tvd", "darsia.restoration.resize", "darsia.multi_image_analysis.concentrationanalysis"):
        if mn not in m.modules:
            continue
        for k in m.mod(mn).classes.values():
            holders = set()   # attributes that hold the caller's dictionary
            for f in k.methods.values():
                if not f.params:
                    continue
                me = f.params[0]
                for st in ast.walk(f.node):
                    if isinstance(st, ast.Assign) and isinstance(st.value, ast.Name) and st.value.id in ("options", "kwargs") and st.value.id in f.params + ([f.node.args.kwarg.arg] if f.node.args.kwarg else []):
                        for t in st.targets:
                            if isinstance(t, ast.Attribute) and isinstance(t.value, ast.Name) and t.value.id == me and not (f.node.args.kwarg and st.value.id == f.node.args.kwarg.arg):
                                holders.add(t.attr)   # a **kwargs dict is fresh per call; a positional dict is the caller's
            if not holders:
                continue
            n_cls += 1
            ctx.instance(R)

            def taken_from(e, me):
                """expression that hands out an object stored inside one of the holder dictionaries (no copy)"""
                while True:
                    if isinstance(e, ast.Call) and isinstance(e.func, ast.Attribute) and e.func.attr == "get" and isinstance(e.func.value, ast.Attribute) \
                            and isinstance(e.func.value.value, ast.Name) and e.func.value.value.id == me and e.func.value.attr in holders:
                        return True
                    if isinstance(e, ast.Subscript) and isinstance(e.value, ast.Attribute) and isinstance(e.value.value, ast.Name) and e.value.value.id == me and e.value.attr in holders:
                        return True
                    return False
            nested_attrs = set()
            for f in k.methods.values():
                if not f.params:
                    continue
                me = f.params[0]
                for st in ast.walk(f.node):
                    if isinstance(st, ast.Assign) and taken_from(st.value, me):
                        for t in st.targets:
                            if isinstance(t, ast.Attribute) and isinstance(t.value, ast.Name) and t.value.id == me:
                                nested_attrs.add(t.attr)
            bad = []
            for f in k.methods.values():
                if not f.params:
                    continue
                me = f.params[0]
                locals_ = {t.id for st in ast.walk(f.node) if isinstance(st, ast.Assign) and taken_from(st.value, me) for t in st.targets if isinstance(t, ast.Name)}

                def is_t(e, me=me, locals_=locals_):
                    return (isinstance(e, ast.Name) and e.id in locals_) or (isinstance(e, ast.Attribute) and isinstance(e.value, ast.Name) and e.value.id == me and e.attr in nested_attrs) or taken_from(e, me)
                for w in _inplace_writes(f.node, is_t):
                    bad.append((f, w))
            ctx.ob(R, k.qname, f"{k.name}: no object taken out of the stored option dictionary ({sorted(holders)}) is modified in place", not bad,
                   "; ".join(f"{f.short}: `{norm(w)[:70]}`" for f, w in bad[:3]) + " -- the nested dictionary is the caller's own object", bad[0][1] if bad else k.node, evidence=True)
    ctx.need(n_cls >= 1, "no class storing an options dictionary found")
    ctx.floor(R, 1)


def run(ctx):
    E = Effects(ctx.model)
    ctx.guard(rule_a, ctx, E)
    ctx.guard(rule_b, ctx, E)
    ctx.guard(rule_c, ctx, E)
    ctx.guard(rule_d, ctx)
    ctx.guard(rule_e, ctx)
