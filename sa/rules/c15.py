"""C15 -- every quadrature rule is exact to its nominal degree (decided completely)."""
from __future__ import annotations

import ast
import itertools
from decimal import Decimal
from fractions import Fraction

from ..fold import Arr, Folder, Raised, Refuse, dec
from ..report import AnalysisError
from ..srcmodel import norm

LEVEL = "proof"
MOD = "darsia.utils.quadrature"
TOL = Decimal(10) ** -60
ORDERS = [0, 1, 2, 3, 4, "max"]


def _pts(dim, arr):
    """Literal points array -> list of dim-tuples of Decimal."""
    if not isinstance(arr, Arr):
        raise Refuse("points are not a literal array")
    data = arr.data
    out = []
    for p in data:
        if isinstance(p, list):
            out.append(tuple(dec(x) for x in p))
        else:
            out.append((dec(p),))
    return out


def _wts(arr):
    if not isinstance(arr, Arr):
        raise Refuse("weights are not a literal array")
    return [dec(w) for w in arr.flat()]


def fold_rules(ctx):
    """{(fname, dim, order): ('ret', pts, wts) | ('raise', name)} for gauss and gauss_reference_cell."""
    m = ctx.model
    ctx.consult(MOD)
    g = m.func(MOD, "gauss")
    gr = m.func(MOD, "gauss_reference_cell")
    rc = m.func(MOD, "reference_cell_corners")

    def resolver(call):
        t = m.resolve_call(call, gr)
        return t.node if t is g else None

    out = {}
    for dim in (1, 2, 3):
        for order in ORDERS:
            for f, res in ((g, None), (gr, resolver)):
                try:
                    v = Folder(res, max_steps=2_000_000).call(f.node, [dim, order])
                    if not (isinstance(v, tuple) and len(v) == 2):
                        raise Refuse("rule does not return (points, weights)")
                    out[(f.name, dim, order)] = ("ret", _pts(dim, v[0]), _wts(v[1]))
                except Raised as e:
                    out[(f.name, dim, order)] = ("raise", e.name)
                except Refuse as e:
                    raise AnalysisError(f"{f.qname}({dim},{order!r}) outside the folding language: {e}")
        try:
            v = Folder().call(rc.node, [dim])
            out[(rc.name, dim, None)] = ("ret", _pts(dim, v[0]), _wts(v[1]))
        except Raised as e:
            out[(rc.name, dim, None)] = ("raise", e.name)
        except Refuse as e:
            raise AnalysisError(f"{rc.qname}({dim}) outside the folding language: {e}")
    return out


def _close(a, b):
    return abs(a - b) < TOL


def _nroot(npts, dim):
    n = round(npts ** (1.0 / dim))
    for c in (n - 1, n, n + 1):
        if c >= 1 and c ** dim == npts:
            return c
    return None


def exact_integral(alpha, lo, hi):
    """prod_i int_lo^hi x^a dx as Decimal."""
    r = Fraction(1)
    for a in alpha:
        r *= (Fraction(hi) ** (a + 1) - Fraction(lo) ** (a + 1)) / (a + 1)
    return dec(r)


def check_rule(ctx, R, q, node, label, dim, pts, wts, n_nominal, lo, hi, measure, max_deg=None):
    """All obligations of one offered rule on [lo,hi]^dim.  Returns True if structurally sound."""
    ok = ctx.ob(R, q, f"{label}: as many weights as points", len(pts) == len(wts), f"{len(pts)} points, {len(wts)} weights", node)
    ctx.ob(R, q, f"{label}: all weights positive", all(w > 0 for w in wts), f"min weight {min(wts) if wts else None}", node)
    ctx.ob(R, q, f"{label}: weights sum to the measure of the cell", _close(sum(wts), dec(measure)), f"sum {sum(wts):.12f} measure {measure}", node)
    n = _nroot(len(pts), dim)
    ctx.ob(R, q, f"{label}: {len(pts)} points = n^{dim} with n = {n_nominal}", n == n_nominal, f"n inferred {n}", node)
    if n is None or not ok:
        return False
    # tensor grid of n distinct abscissae per variable
    absc = []
    for i in range(dim):
        vals = []
        for p in pts:
            if not any(_close(p[i], v) for v in vals):
                vals.append(p[i])
        absc.append(vals)
    grid_ok = all(len(a) == n for a in absc)
    if grid_ok:
        seen = []
        for p in pts:
            if any(all(_close(x, y) for x, y in zip(p, s)) for s in seen):
                grid_ok = False
                break
            seen.append(p)
    ctx.ob(R, q, f"{label}: points are the tensor grid of {n} distinct abscissae per variable", grid_ok,
           f"abscissae per variable {[len(a) for a in absc]}", node)
    # exactness on monomials of per-variable degree <= 2n-1
    deg = 2 * n - 1 if max_deg is None else max_deg
    bad = []
    n_mono = 0
    for alpha in itertools.product(range(deg + 1), repeat=dim):
        n_mono += 1
        s = Decimal(0)
        for p, w in zip(pts, wts):
            t = w
            for x, a in zip(p, alpha):
                if a:
                    t *= x ** a
            s += t
        ex = exact_integral(alpha, lo, hi)
        good = _close(s, ex)
        if good:
            ctx.ob(R, q, f"{label}: integrates x^{alpha} exactly", True, "", node)
        else:
            bad.append((alpha, s, ex))
    if bad:
        a0, s0, e0 = bad[0]
        ctx.ob(R, q, f"{label}: exact on every monomial of per-variable degree <= {deg}", False,
               f"{len(bad)} of {n_mono} monomials wrong, first x^{a0}: quadrature {s0:.12f} exact {e0:.12f}", node)
    ctx.stat("monomials_checked", n_mono)
    return not bad


def run(ctx):
    tabs = fold_rules(ctx)
    m = ctx.model
    g = m.func(MOD, "gauss")
    gr = m.func(MOD, "gauss_reference_cell")
    rc = m.func(MOD, "reference_cell_corners")
    Ra, Rb, Rc = "C15.a", "C15.b", "C15.c"
    ctx.rule(Ra, "gauss() folded to a table (dim, order) -> (points, weights) with exact rational / 100-digit "
             "arithmetic; per offered row: equal counts, positive weights, sum 2^dim, tensor grid of n=order+1 "
             "abscissae, every monomial of per-variable degree <= 2n-1 integrated to 1e-60; 'max' resolves to an offered row")
    ctx.rule(Rb, "gauss_reference_cell folded per row: points are (x+1)/2 of the gauss row, weights normalised to 1, "
             "exact on the unit cell; reference_cell_corners: the 2^dim distinct vertices, weights 2^-dim, multilinear exact")
    ctx.rule(Rc, "the rules selected by transport_density for every L1 mode and dim exist, have equal point/weight counts "
             "(the consumer zips them), positive weights of sum 1 and first moments 1/2")
    offered = 0
    for dim in (1, 2, 3):
        for order in ORDERS:
            row = tabs[("gauss", dim, order)]
            label = f"gauss({dim},{order!r})"
            if row[0] == "raise":
                if order == "max":
                    ctx.ob(Ra, g.qname, f"{label}: symbolic order resolves to an offered rule", False, f"raises {row[1]}", g.node)
                else:
                    ctx.ob(Ra, g.qname, f"{label}: not offered, raises NotImplementedError", row[1] == "NotImplementedError",
                           f"raises {row[1]}", g.node)
                continue
            offered += 1
            ctx.instance(Ra)
            _, pts, wts = row
            if order == "max":
                # must coincide with one of the integer rows
                same = [o for o in ORDERS[:-1] if tabs[("gauss", dim, o)][0] == "ret"
                        and len(tabs[("gauss", dim, o)][1]) == len(pts)
                        and all(all(_close(a, b) for a, b in zip(p, q)) for p, q in zip(tabs[("gauss", dim, o)][1], pts))
                        and len(tabs[("gauss", dim, o)][2]) == len(wts)
                        and all(_close(a, b) for a, b in zip(tabs[("gauss", dim, o)][2], wts))]
                ctx.ob(Ra, g.qname, f"{label}: equals an offered integer-order row", bool(same), f"matches orders {same}", g.node)
                n_nom = (same[0] + 1) if same else _nroot(len(pts), dim)
            else:
                n_nom = order + 1
            check_rule(ctx, Ra, g.qname, g.node, label, dim, pts, wts, n_nom, -1, 1, 2 ** dim)
            # reference cell twin
            rrow = tabs[("gauss_reference_cell", dim, order)]
            rlabel = f"gauss_reference_cell({dim},{order!r})"
            if rrow[0] == "raise":
                ctx.ob(Rb, gr.qname, f"{rlabel}: defined whenever gauss is", False, f"raises {rrow[1]}", gr.node)
                continue
            ctx.instance(Rb)
            _, rpts, rwts = rrow
            ctx.ob(Rb, gr.qname, f"{rlabel}: same number of points as the gauss row", len(rpts) == len(pts), f"{len(rpts)} vs {len(pts)}", gr.node)
            if len(rpts) == len(pts):
                ctx.ob(Rb, gr.qname, f"{rlabel}: points are (x+1)/2 of the gauss row",
                       all(all(_close(r, (x + 1) / 2) for r, x in zip(rp, p)) for rp, p in zip(rpts, pts)), "", gr.node)
            check_rule(ctx, Rb, gr.qname, gr.node, rlabel, dim, rpts, rwts, n_nom, 0, 1, 1)
        # corners
        crow = tabs[("reference_cell_corners", dim, None)]
        clabel = f"reference_cell_corners({dim})"
        if crow[0] == "raise":
            ctx.ob(Rb, rc.qname, f"{clabel}: defined", False, f"raises {crow[1]}", rc.node)
        else:
            ctx.instance(Rb)
            _, cpts, cwts = crow
            verts = set(itertools.product((0, 1), repeat=dim))
            got = set()
            for p in cpts:
                if all(x in (0, 1) for x in p):
                    got.add(tuple(int(x) for x in p))
            ctx.ob(Rb, rc.qname, f"{clabel}: the 2^{dim} distinct vertices of the unit cell", got == verts and len(cpts) == 2 ** dim,
                   f"{len(cpts)} points, {len(got)} distinct vertices", rc.node)
            check_rule(ctx, Rb, rc.qname, rc.node, clabel, dim, cpts, cwts, 2, 0, 1, 1, max_deg=1)
    # the domain of `order` is what the source tests for: integers and 'max'.  A test that admits another kind of order (a sequence: one order per
    # direction) offers rules this table does not enumerate -- they are folded for sample tuples and held to the same exactness
    for fn_ in (g, gr):
        pname = fn_.params[1] if len(fn_.params) > 1 else None
        seq_tests = [c_ for c_ in ast.walk(fn_.node) if isinstance(c_, ast.Call) and norm(c_.func) == "isinstance" and len(c_.args) == 2 and norm(c_.args[0]) == pname
                     and any(t_ in norm(c_.args[1]) for t_ in ("tuple", "list", "ndarray", "Sequence", "Iterable"))]
        if not seq_tests:
            continue
        for dim, order in ((2, (1, 2)), (2, (2, 0)), (3, (0, 1, 2))):
            label = f"{fn_.name}({dim},{order!r})"
            ctx.instance(Ra)
            try:
                v = Folder(max_steps=2_000_000).call(fn_.node, [dim, order])
                pts, wts = _pts(dim, v[0]), _wts(v[1])
            except Raised as e:
                ctx.ob(Ra, fn_.qname, f"{label}: a sequence of orders (admitted by `{norm(seq_tests[0])}`) gives a rule", False, f"raises {e.name}", seq_tests[0], evidence=True)
                continue
            except (Refuse, TypeError, ValueError, IndexError) as e:
                ctx.ob(Ra, fn_.qname, f"{label}: a sequence of orders (admitted by `{norm(seq_tests[0])}`) gives a rule", False, f"rule for a sequence of orders not found to be foldable: {e}", seq_tests[0])
                continue
            lo, hi = (-1, 1) if fn_ is g else (0, 1)
            bad = []
            if len(pts) != len(wts):
                bad.append(f"{len(pts)} points, {len(wts)} weights")
            else:
                for alpha in itertools.product(*[range(2 * (o_ + 1)) for o_ in order]):
                    s_ = Decimal(0)
                    for p_, w_ in zip(pts, wts):
                        t_ = w_
                        for x_, a_ in zip(p_, alpha):
                            if a_:
                                t_ *= x_ ** a_
                        s_ += t_
                    ex = exact_integral(alpha, lo, hi)
                    if not _close(s_, ex):
                        bad.append(f"x^{alpha}: quadrature {s_:.10f} exact {ex:.10f}")
            ctx.ob(Ra, fn_.qname, f"{label}: exact on every monomial of degree <= 2 n_k - 1 in variable k", not bad, f"{len(bad)} wrong, first {bad[0] if bad else ''}", seq_tests[0], evidence=True)
    ctx.floor(Ra, 9)
    ctx.floor(Rb, 9)
    ctx.stat("offered_gauss_rows", offered)
    consumer(ctx, tabs)
    ctx.guard(fresh_tables, ctx)


def fresh_tables(ctx):
    """C15.d: each request builds its own arrays.  A functools cache around a table function (decorator, or a module-level rebinding
    `gauss = lru_cache(...)(gauss)`) hands the *same* ndarray objects to every caller: after one caller has scaled the points / weights to its
    cell in place, every later request of that (dim, order) returns a rule that is no longer exact.  The tables folded under C15.a / C15.b are
    those of the first request only."""
    import ast
    from .common import CACHE_DECORATORS
    from ..srcmodel import norm
    R = "C15.d"
    ctx.rule(R, "the three table functions hand out arrays built by the request itself: no functools cache as decorator and no module-level "
             "rebinding of their names to a caching wrapper (shared ndarrays would make a request's rule depend on what earlier callers did to theirs)")
    ctx.floor(R, 3)
    mod = ctx.model.mod(MOD)
    names = ("gauss", "gauss_reference_cell", "reference_cell_corners")
    for n in names:
        f = ctx.model.func(MOD, n)
        ctx.instance(R)
        decs = [norm(d.func) if isinstance(d, ast.Call) else norm(d) for d in getattr(f.node, "decorator_list", [])]
        cached = [d for d in decs if d in CACHE_DECORATORS]
        other = [d for d in decs if d not in CACHE_DECORATORS]
        ctx.ob(R, f.qname, f"{n}: not wrapped in a functools cache", not cached,
               f"decorated with `{cached[0] if cached else ''}`: the point / weight arrays of the first request are returned to every later caller; "
               "a caller that maps them to its cell in place changes the rule for everybody", f.node, evidence=True)
        if other:
            ctx.ob(R, f.qname, f"{n}: decorators are understood", False, f"decorator `{other[0]}` not found to leave the returned arrays per-request", f.node)
        # module-level rebinding of the public name
        for s in mod.tree.body:
            tg = []
            if isinstance(s, ast.Assign):
                tg = [t.id for t in s.targets if isinstance(t, ast.Name)]
            elif isinstance(s, ast.AnnAssign) and isinstance(s.target, ast.Name) and s.value is not None:
                tg = [s.target.id]
            if n not in tg:
                continue
            v = s.value
            inner = v
            is_cache = False
            while isinstance(inner, ast.Call):
                d = norm(inner.func)
                if d in CACHE_DECORATORS or (isinstance(inner.func, ast.Call) and norm(inner.func.func) in CACHE_DECORATORS):
                    is_cache = True
                inner = inner.func if isinstance(inner.func, ast.Call) else (inner.args[0] if inner.args else None)
            if is_cache:
                ctx.ob(R, f.qname, f"{n}: the module does not rebind the name to a caching wrapper", False,
                       f"`{norm(s)[:90]}`: every request of the same (dim, order) after the first receives the arrays of the first, including whatever "
                       "an earlier caller did to them in place", s, evidence=True)
            else:
                ctx.ob(R, f.qname, f"{n}: the module does not rebind the name", False, f"`{norm(s)[:90]}`: rebinding not understood", s)


def consumer_selections(ctx):
    """(callee name, literal order or None, call node) for each quadrature call in transport_density (or in a helper of the
    same module that it delegates to)."""
    from ..amatch import helper_closure

    m = ctx.model
    td = m.func("darsia.measure.wasserstein", "VariationalWassersteinDistance.transport_density")
    ctx.consult(td.module.name)
    sel = []
    for host in helper_closure(td):
        for n in ast.walk(host.node):
            if not isinstance(n, ast.Call):
                continue
            t = m.resolve_call(n, host)
            if t is None or isinstance(t, str) or getattr(t, "module", None) is not m.mod(MOD):
                continue
            order = None
            if len(n.args) > 1:
                if not isinstance(n.args[1], ast.Constant):
                    raise AnalysisError(f"non-literal quadrature order in {norm(n)}")
                order = n.args[1].value
            sel.append((t.name, order, n))
    return td, sel


def consumer(ctx, tabs):
    R = "C15.c"
    td, sel = consumer_selections(ctx)
    ctx.floor(R, 9)
    for name, order, node in sel:
        for dim in (1, 2, 3):
            ctx.instance(R)
            row = tabs.get((name, dim, order))
            label = f"{name}({dim},{order!r})" if order is not None else f"{name}({dim})"
            if row is None:
                raise AnalysisError(f"transport_density selects {label}, which the extractor did not tabulate")
            if row[0] == "raise":
                ctx.ob(R, td.qname, f"{label} selected by transport_density exists", False, f"raises {row[1]}", node)
                continue
            _, pts, wts = row
            ctx.ob(R, td.qname, f"{label}: zip() drops nothing (equal counts)", len(pts) == len(wts), f"{len(pts)} vs {len(wts)}", node)
            ctx.ob(R, td.qname, f"{label}: weights positive", all(w > 0 for w in wts), "", node)
            ctx.ob(R, td.qname, f"{label}: weights sum to 1", _close(sum(wts), Decimal(1)), f"sum {sum(wts):.12f}", node)
            for i in range(dim):
                mom = sum(w * p[i] for p, w in zip(pts, wts))
                ctx.ob(R, td.qname, f"{label}: first moment in variable {i} is 1/2", _close(mom, Decimal("0.5")), f"{mom:.12f}", node)
    # the consumer evaluates the field at the rule's own points through face_to_cell(grid, flux, pt): the per-axis interpolation
    # weights (1 - pt[d], pt[d]) are decided by C06.c and re-evaluated here
    from . import c06
    from .common import shared

    from . import c05 as _c05
    shared(ctx, "C15.c", _c05.rule_e, why="transport_density weights the quadrature of the cell flux with the cell weights: exactness for constant / linear weighted fluxes needs the weights as given")
    shared(ctx, "C15.c", c06.rule_c, why="a rule that is exact for linear functions integrates the RT0 field exactly only if face_to_cell interpolates each component along its own axis")
