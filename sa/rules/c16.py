"""C16 -- solvers and regularisers carry no hidden state between calls."""
from __future__ import annotations

import ast

from ..flow import expand

from .. import cfg as C
from ..flow import explicit_keywords
from ..report import AnalysisError
from ..srcmodel import Cls, Func, norm
from ..state import StateAnalysis, attr_reads, attr_writes, self_attr

LEVEL = "other"
SOLVERS = [("darsia.utils.linear_solvers.jacobi", "Jacobi"), ("darsia.utils.linear_solvers.mg", "MG"), ("darsia.utils.linear_solvers.cg", "CG")]
WAS = "darsia.measure.wasserstein"
AND = "darsia.utils.andersonacceleration"


def _report_state(ctx, R, sa, label, what, exempt=()):
    """One obligation per (class, attribute): the attribute carries nothing from one call to the next."""
    per_attr = {}
    n = 0
    for f, node, a, kind, an, chain in sa.cross_call_reads():
        n += 1
        if a in exempt:
            continue
        ok, why = sa.justify(f, node, a, kind)
        rec = per_attr.setdefault(a, dict(ok=True, bad=[], why="", node=an, path=[], chain=chain, q=f.qname))
        if not ok:
            if rec["ok"]:
                rec.update(ok=False, why=why, node=an, chain=chain, q=f.qname,
                           path=[f"L{x.line}: {x.text()[:80]}" for x in sa.witness if x.stmt is not None][:14])
            rec["bad"].append(f"{f.short}: {node.text()[:60]}")
    dyn = getattr(sa, "dynamic_writes", [])
    for a, rec in sorted(per_attr.items()):
        if not rec["ok"] and dyn:
            # attributes are also written through computed names (setattr / __dict__): which reads are preceded by a write cannot be decided
            ctx.ob(R, sa.cls.qname, f"{label}: self.{a} carries no state from one call to the next", False, "", rec["node"])
            continue
        ctx.ob(R, sa.cls.qname, f"{label}: self.{a} carries no state from one call to the next", rec["ok"],
               (f"{rec['why']}. Reads not preceded by a write in the same call: {sorted(set(rec['bad']))[:4]}; the result of {what} "
                f"therefore depends on earlier calls (entry chain {' -> '.join(rec['chain'])})") if not rec["ok"] else "justified (J1/J2/guard read)",
               rec["node"], path=rec["path"])
    if dyn:
        ctx.note(f"{R}: {label}: attributes are written through computed names at {[(f_.short, c_.lineno) for f_, c_ in dyn][:3]}")
    return n


def rule_a(ctx):
    R = "C16.a"
    ctx.rule(R, "hidden-state analysis of every Solver subclass with entry __call__: each read of an attribute the call "
             "closure itself writes is preceded by a write in the same call on every path, or is J1/J2-justified; "
             "update_params-settable attributes count as varying between calls")
    m = ctx.model
    n_cls = 0
    for modname, cname in SOLVERS:
        ctx.consult(modname)
        k = m.cls(modname, cname)
        n_cls += 1
        sa = StateAnalysis(m, k, ["__call__"])
        ctx.stat("cfg_nodes", sa.stats["cfg_nodes"])
        ctx.stat("functions", sa.stats["functions"])
        n = _report_state(ctx, R, sa, cname, f"{cname}.__call__")
        ctx.ob(R, k.qname, f"{cname}: hidden-state analysis completed", True, f"{n} cross-call read(s), call-written attributes {sorted(sa.call_written)}", k.node)
        ctx.instance(R)
    ctx.floor(R, 3)


def solver_reads(m, k):
    """Attributes read in the __call__ closure of a solver class and settable by update_params."""
    sa = StateAnalysis(m, k, ["__call__"])
    reads = set()
    for f in sa.closure:
        fi = sa.info(f)
        for n in fi.cfg.nodes:
            for a, kind, _ in attr_reads(n, fi.selfname):
                reads.add(a)
        # nested function bodies (closures such as CG._mv) are single 'def' nodes: walk them as well
        for sub in ast.walk(f.node):
            a = self_attr(sub, fi.selfname) if isinstance(sub, ast.Attribute) and isinstance(sub.ctx, ast.Load) else None
            if a:
                reads.add(a)
    up = m.method(k, "update_params")
    settable = set()
    if up is not None:
        usa = StateAnalysis(m, k, ["update_params"])
        settable = {a for a in usa.call_written}
    return reads, settable


def rule_b(ctx):
    R = "C16.b"
    ctx.rule(R, "parameter-update mechanism: every function that takes a Solver and calls solver.update_params before "
             "solver(...) passes, from its own parameters, every attribute that a solver's __call__ closure reads and "
             "update_params can set")
    m = ctx.model
    need = set()
    for modname, cname in SOLVERS:
        reads, settable = solver_reads(m, m.cls(modname, cname))
        need |= reads & settable
    ctx.stat("solver_params_read_and_settable", len(need))
    users = [m.func("darsia.restoration.h1_regularization", "_H1_regularization_array"),
             m.func("darsia.restoration.split_bregman_tvd", "split_bregman_tvd")]
    for f in users:
        ctx.consult(f.module.name)
        g = C.CFG(f.node)
        ups = [n for n in g.nodes if n.kind == "stmt" and any(isinstance(c, ast.Call) and norm(c.func) == "solver.update_params" for c in ast.walk(n.stmt))]
        uses = [n for n in g.nodes if n.kind in ("stmt", "for", "if") and n.stmt is not None and any(
            isinstance(c, ast.Call) and norm(c.func) == "solver" for e in ([n.stmt] if n.kind == "stmt" else []) for c in ast.walk(e))]
        ctx.need(ups and uses, f"{f.qname}: solver.update_params / solver(...) calls not found")
        ctx.instance(R)
        for u in ups:
            call = next(c for c in ast.walk(u.stmt) if isinstance(c, ast.Call) and norm(c.func) == "solver.update_params")
            kws = {k.arg for k in call.keywords}
            ctx.ob(R, f.qname, f"`{u.text()[:60]}` passes every settable attribute the solvers read", need <= kws,
                   f"passes {sorted(kws)}, solvers read {sorted(need)}", call)
        dom = g.dominators()
        for use in uses:
            ok = any(u.id in dom.get(use.id, ()) for u in ups)
            ctx.ob(R, f.qname, f"solver call `{use.text()[:50]}` is dominated by an update_params call", ok, "", use.stmt)
    ctx.floor(R, 2)


def rule_c(ctx):
    R = "C16.c"
    ctx.rule(R, "shared default instances: every default-argument expression that constructs a repository object is listed; "
             "its class must have no unjustified call-written state (C16.a) and the function must refresh what it reads "
             "(C16.b); mutable default containers must not be written or stored-and-written")
    m = ctx.model
    n_obj = n_cont = 0
    solver_classes = {m.cls(a, b) for a, b in SOLVERS}
    checked_users = {"darsia.restoration.h1_regularization._H1_regularization_array", "darsia.restoration.split_bregman_tvd.split_bregman_tvd"}
    for f in m.all_funcs():
        a = f.node.args
        params = a.posonlyargs + a.args
        defaults = list(zip(params[len(params) - len(a.defaults):], a.defaults)) + [(p, d) for p, d in zip(a.kwonlyargs, a.kw_defaults) if d is not None]
        for p, d in defaults:
            if isinstance(d, ast.Call):
                tgt = m.resolve_expr(d.func, f.module)
                if isinstance(tgt, Cls):
                    n_obj += 1
                    ctx.instance(R)
                    ctx.consult(f.module.name)
                    if tgt in solver_classes:
                        # the default instance is shared by every call: it must be refreshed before use, directly or by delegation
                        direct = f.qname in checked_users
                        delegates = any(isinstance(c, ast.Call) and any(k.arg == p.arg and norm(k.value) == p.arg for k in c.keywords)
                                        and isinstance(m.resolve_call(c, f), Func) for c in ast.walk(f.node))
                        calls_it = any(isinstance(c, ast.Call) and norm(c.func) == p.arg for c in ast.walk(f.node))
                        ctx.ob(R, f.qname, f"shared default `{p.arg}={norm(d)}` is refreshed through update_params before use",
                               direct or (delegates and not calls_it), f"direct={direct} delegates={delegates} calls_it={calls_it}", d)
                        # an attribute of the shared instance assigned only on some paths keeps, on the other paths, what an earlier call left there
                        for st_ in ast.walk(f.node):
                            if isinstance(st_, (ast.Assign, ast.AugAssign)):
                                for t_ in (st_.targets if isinstance(st_, ast.Assign) else [st_.target]):
                                    if isinstance(t_, ast.Attribute) and isinstance(t_.value, ast.Name) and t_.value.id == p.arg:
                                        cur_, cond_ = st_, None
                                        while cur_ is not None and cur_ is not f.node:
                                            par_ = getattr(cur_, "_parent", None)
                                            if isinstance(par_, (ast.If, ast.While, ast.For, ast.Try)):
                                                cond_ = par_
                                                break
                                            cur_ = par_
                                        ctx.ob(R, f.qname, f"`{norm(st_)[:50]}`: an attribute of the shared default `{p.arg}` is set on every call or never", cond_ is None,
                                               f"the store is conditional (`{norm(cond_.test)[:50] if isinstance(cond_, (ast.If, ast.While)) else type(cond_).__name__}`): a call that sets {p.arg}.{t_.attr} leaves it on the "
                                               f"instance every later call without an explicit {p.arg} shares -- the result of such a call depends on the calls made before", st_, evidence=True)
                    else:
                        sa = StateAnalysis(m, tgt, ["__call__"]) if m.method(tgt, "__call__") else None
                        cw = sorted(sa.call_written) if sa else []
                        ctx.ob(R, f.qname, f"shared default `{p.arg}={norm(d)}`: class {tgt.name} keeps no call-written state", not cw, f"call-written {cw}", d)
            elif isinstance(d, (ast.Dict, ast.List, ast.Set)):
                n_cont += 1
                ctx.instance(R + ".containers")
                name = p.arg
                # written directly?
                writes = []
                stored = []
                for n in ast.walk(f.node):
                    if isinstance(n, (ast.Assign, ast.AugAssign)):
                        tgts = n.targets if isinstance(n, ast.Assign) else [n.target]
                        for t in tgts:
                            if isinstance(t, ast.Subscript) and isinstance(t.value, ast.Name) and t.value.id == name:
                                writes.append(n)
                            if isinstance(t, ast.Attribute) and isinstance(n, ast.Assign) and isinstance(n.value, ast.Name) and n.value.id == name:
                                stored.append(t.attr)
                    if isinstance(n, ast.Call) and isinstance(n.func, ast.Attribute) and isinstance(n.func.value, ast.Name) and n.func.value.id == name \
                            and n.func.attr in ("update", "setdefault", "pop", "append", "extend", "clear", "insert", "remove", "popitem"):
                        writes.append(n)
                ctx.ob(R, f.qname, f"mutable default `{name}={norm(d)}` is not written", not writes,
                       f"written at {[norm(w)[:60] for w in writes[:3]]}: the default object (and a caller-supplied one) is shared between calls", d)
                for attr in stored:
                    # stored on self: no method of the class may write into it
                    if f.cls is None:
                        continue
                    bad = []
                    for k in m.mro(f.cls):
                        for g in k.methods.values():
                            for n in ast.walk(g.node):
                                if isinstance(n, (ast.Assign, ast.AugAssign)):
                                    tgts = n.targets if isinstance(n, ast.Assign) else [n.target]
                                    for t in tgts:
                                        if isinstance(t, ast.Subscript) and self_attr(t.value) == attr:
                                            bad.append(f"{g.short}: {norm(n)[:50]}")
                                if isinstance(n, ast.Call) and isinstance(n.func, ast.Attribute) and self_attr(n.func.value) == attr \
                                        and n.func.attr in ("update", "setdefault", "pop", "clear", "popitem"):
                                    bad.append(f"{g.short}: {norm(n)[:50]}")
                    ctx.ob(R, f.qname, f"mutable default `{name}` stored as self.{attr} is never written through", not bad, str(bad[:3]), d)
    ctx.floor(R, 4)
    ctx.floor(R + ".containers", 5)
    ctx.stat("default_object_instances", n_obj)
    ctx.stat("mutable_default_containers", n_cont)


def rule_d(ctx):
    R = "C16.d"
    ctx.rule(R, "Anderson history is reset at the start of every solve: reset() is called whenever the inner iteration "
             "counter is 0, every history attribute read in __call__ is (re)assigned by reset(), the counter is "
             "iteration or iteration % restart, and every call site passes the zero-based index of a "
             "`for ... in range(...)` loop of the enclosing solve")
    m = ctx.model
    ctx.consult(AND)
    k = m.cls(AND, "AndersonAcceleration")
    call = m.method(k, "__call__")
    reset = m.method(k, "reset")
    ctx.need(call is not None and reset is not None, "AndersonAcceleration.__call__/reset not found")
    sa = StateAnalysis(m, k, ["__call__"])
    reset_writes = sa.summary(reset)
    ctx.instance(R)
    # history attributes = call-written attributes read across calls
    hist = set()
    for f, node, a, kind, an, chain in sa.cross_call_reads():
        hist.add(a)
    # positive evidence for a reset that keeps a buffer: reset() binds the history attribute only under a condition, and in __call__ the column
    # written into it is indexed by the caller's iteration count while the slice read from it is sized by the inner (restart) counter -- after a
    # restart at an iteration that is not a multiple of the depth the slice 0:mk covers columns written before the restart
    it_param = call.params[-1]
    may = set()
    for s_ in ast.walk(reset.node):
        if isinstance(s_, (ast.Assign, ast.AnnAssign)):
            for t_ in (s_.targets if isinstance(s_, ast.Assign) else [s_.target]):
                if self_attr(t_):
                    may.add(self_attr(t_))
    stale = []
    for a_ in sorted((hist - set(reset_writes)) & may):
        w_idx, r_idx = [], []
        for n_ in ast.walk(call.node):
            if isinstance(n_, ast.Subscript) and self_attr(n_.value) == a_:
                e_ = expand(call.node, n_.slice)
                names = {x.id for x in ast.walk(e_) if isinstance(x, ast.Name)}
                attrs_ = {self_attr(x) for x in ast.walk(e_) if isinstance(x, ast.Attribute)}
                (w_idx if isinstance(n_.ctx, ast.Store) else r_idx).append((names, attrs_, n_))
        if any(it_param in nm and "_inner_iteration" not in at for nm, at, _ in w_idx) and any("_inner_iteration" in at for _, at, _ in r_idx):
            stale.append(a_)
    ctx.ob(R, call.qname, "every history attribute read across calls is re-initialised by reset()", hist <= set(reset_writes),
           f"history {sorted(hist)}, reset writes {sorted(reset_writes)}"
           + (f"; reset() keeps {stale} on some path, and __call__ writes its columns by `{it_param}` but reads a slice sized by the inner counter: after a restart at an "
              f"iteration that is not a multiple of the depth, columns of the previous cycle are read" if stale else ""), call.node, evidence=bool(stale))
    # reset guarded by counter == 0
    g = sa.info(call).cfg
    it_param = call.params[-1]
    guard_ok = False
    for n in g.nodes:
        if n.kind == "if" and norm(n.stmt.test) in ("self._inner_iteration == 0", "0 == self._inner_iteration"):
            body_calls = [norm(c.func) for s in n.stmt.body for c in ast.walk(s) if isinstance(c, ast.Call)]
            guard_ok = "self.reset" in body_calls
            # no history read before this guard on any path
            early = []
            dom = g.dominators()
            for x in g.nodes:
                if x.id in dom.get(n.id, ()) and x is not n:
                    early += [a for a, kd, _ in attr_reads(x, "self") if a in hist and a != "_inner_iteration"]
            ctx.ob(R, call.qname, "no history attribute is read before the reset guard", not early, str(early), n.stmt)
    # named contradiction: the reset at counter 0 is made to depend on what earlier calls left on the object (hasattr / a history attribute in a
    # conjunction with the counter test): at a restart boundary the old history then survives
    weak = None
    for iff_ in ast.walk(call.node):
        if isinstance(iff_, ast.If) and isinstance(iff_.test, ast.BoolOp) and isinstance(iff_.test.op, ast.And) \
                and any(norm(v_) in ("self._inner_iteration == 0", "0 == self._inner_iteration") for v_ in iff_.test.values) \
                and any(isinstance(c_, ast.Call) and norm(c_.func) == "self.reset" for s_ in iff_.body for c_ in ast.walk(s_)):
            extra = [v_ for v_ in iff_.test.values if norm(v_) not in ("self._inner_iteration == 0", "0 == self._inner_iteration")]
            if any((isinstance(x, ast.Call) and norm(x.func) == "hasattr") or (isinstance(x, ast.Attribute) and isinstance(x.value, ast.Name) and x.value.id == "self" and x.attr.startswith("_")) for v_ in extra for x in ast.walk(v_)):
                weak = iff_
    ctx.ob(R, call.qname, "reset() is called when the inner iteration counter is 0", guard_ok,
           (f"`if {norm(weak.test)[:90]}`: the reset is skipped when the history of earlier calls is still there -- at a restart boundary the acceleration mixes iterates of the previous cycle" if weak is not None else ""),
           weak or call.node, evidence=weak is not None)
    cnt = [norm(s.value) for s in ast.walk(call.node) if isinstance(s, ast.Assign) and any(self_attr(t) == "_inner_iteration" for t in s.targets)]
    ctx.ob(R, call.qname, "inner counter is iteration or iteration % restart", sorted(cnt) == sorted([it_param, f"{it_param} % self._restart"]) or cnt == [f"{it_param} if self._restart is None else {it_param} % self._restart"]
           or cnt == [f"{it_param} % self._restart if self._restart is not None else {it_param}"], str(cnt), call.node,
           evidence=any("self._inner_iteration" in c_ for c_ in cnt))  # the counter is advanced from its own previous value: it survives from one solve to the next
    # call sites
    n_sites = 0
    for f in m.all_funcs():
        for c in ast.walk(f.node):
            if isinstance(c, ast.Call) and norm(c.func) == "self.anderson":
                n_sites += 1
                ctx.instance(R + ".sites")
                ctx.consult(f.module.name)
                arg = c.args[2] if len(c.args) >= 3 else next((kk.value for kk in c.keywords if kk.arg == "iteration"), None)
                ok = False
                desc = norm(arg) if arg is not None else "missing"
                if isinstance(arg, ast.Name):
                    cur = c
                    while cur is not None and cur is not f.node:
                        cur = getattr(cur, "_parent", None)
                        if isinstance(cur, ast.For) and isinstance(cur.target, ast.Name) and cur.target.id == arg.id:
                            it = cur.iter
                            ok = isinstance(it, ast.Call) and norm(it.func) == "range" and len(it.args) == 1
                            desc = f"{arg.id} of `for {arg.id} in {norm(it)}`"
                            break
                ctx.ob(R, f.qname, "anderson is called with the zero-based index of the solve's iteration loop", ok, desc, c,
                       evidence=arg is not None and any(isinstance(x, ast.Attribute) and isinstance(x.value, ast.Name) and x.value.id == "self" for x in ast.walk(arg)))  # an index that reads object state
    ctx.floor(R + ".sites", 2)
    ctx.floor(R, 1)


def rule_e(ctx):
    R = "C16.e"
    ctx.rule(R, "re-used distance objects: in each _solve every linear_solve call that may pass reuse_solver=True is "
             "dominated by a call with the default/constant-False value, and linear_solve sets a fresh solver up unless "
             "reuse is requested; options are read, never written; the remaining call-written attributes of the "
             "distance objects are written before they are read in the same call or are J1-justified")
    m = ctx.model
    ctx.consult(WAS)
    base = m.cls(WAS, "VariationalWassersteinDistance")
    ls = m.method(base, "linear_solve")
    flag = [s for s in ast.walk(ls.node) if isinstance(s, ast.Assign) and norm(s.value) in ("not reuse_solver or not hasattr(self, 'linear_solver')", "not (reuse_solver and hasattr(self, 'linear_solver'))")]
    ctx.ob(R, ls.qname, "a solver is set up unless reuse is requested and one exists", len(flag) == 1 and isinstance(flag[0].targets[0], ast.Name),
           str([norm(s) for s in ast.walk(ls.node) if isinstance(s, ast.Assign) and "reuse_solver" in norm(s.value)][:3]), ls.node, evidence=False)
    dflt = {a.arg: d for a, d in zip(ls.node.args.args[-len(ls.node.args.defaults):], ls.node.args.defaults)}
    ctx.ob(R, ls.qname, "reuse_solver defaults to False", "reuse_solver" in dflt and norm(dflt["reuse_solver"]) == "False", str({k: norm(x) for k, x in dflt.items()}), ls.node)
    for cname in ("WassersteinDistanceNewton", "WassersteinDistanceBregman"):
        k = m.cls(WAS, cname)
        f = m.method(k, "_solve")
        g = C.CFG(f.node)
        ctx.stat("cfg_nodes", len(g.nodes))
        dom = g.dominators()
        calls = []
        for n in g.nodes:
            if n.kind == "stmt":
                for c in ast.walk(n.stmt):
                    if isinstance(c, ast.Call) and norm(c.func) == "self.linear_solve":
                        r = next((kk.value for kk in c.keywords if kk.arg == "reuse_solver"), c.args[3] if len(c.args) > 3 else None)
                        fresh = r is None or (isinstance(r, ast.Constant) and r.value is False)
                        calls.append((n, c, fresh, r))
        ctx.need(calls, f"{f.qname}: no linear_solve call")
        ctx.instance(R)
        fresh_nodes = [n for n, c, fr, r in calls if fr]
        for n, c, fr, r in calls:
            if fr:
                continue
            ok = any(x.id in dom.get(n.id, ()) for x in fresh_nodes)
            ctx.ob(R, f.qname, f"linear_solve(reuse_solver={norm(r)}) is dominated by a call that sets a fresh solver up", ok,
                   "a path reaches this call without passing a linear_solve that sets a solver up: it reuses whatever factorisation the object still holds from an earlier call", c, evidence=True)
        ctx.ob(R, f.qname, "at least one linear_solve call per solve sets a fresh solver up", bool(fresh_nodes), "no linear_solve call of this solve sets a fresh solver up", f.node, evidence=True)
        # options never written
        writes = []
        for kk in m.mro(k):
            for g2 in kk.methods.values():
                for n in ast.walk(g2.node):
                    if isinstance(n, (ast.Assign, ast.AugAssign)):
                        for t in (n.targets if isinstance(n, ast.Assign) else [n.target]):
                            if isinstance(t, ast.Subscript) and self_attr(t.value) == "options":
                                writes.append(f"{g2.short}: {norm(n)[:50]}")
                    if isinstance(n, ast.Call) and isinstance(n.func, ast.Attribute) and self_attr(n.func.value) == "options" and n.func.attr in ("update", "setdefault", "pop", "clear"):
                        writes.append(f"{g2.short}: {norm(n)[:50]}")
        ctx.ob(R, k.qname, "self.options is read, never written", not writes, str(writes[:3]), k.node)
        # general hidden-state sweep; attributes covered by the explicit-reuse rule are exempt by name with a reason
        exempt = {
            "linear_solver": "explicit reuse (reuse_solver), decided above",
            "solver_options": "written together with linear_solver by every setup_*_solver",
            "amg_options": "written together with linear_solver by setup_amg/cg_solver",
            "amg_residual_history": "written together with linear_solver by setup_amg_solver",
        }
        exempt["fully_reduced_jacobian"] = "scratch matrix, completely overwritten before it is handed out (checked below)"
        sa = StateAnalysis(m, k, ["__call__"], ctor=("__init__",))
        ctx.stat("functions", sa.stats["functions"])
        _report_state(ctx, R, sa, cname, f"{cname}.__call__", exempt=exempt)
    # the scratch matrix: values and indices are completely overwritten from the argument before it is returned
    el = m.method(base, "eliminate_lagrange_multiplier")
    p_jac = el.params[1]
    body = el.node.body
    data_store = [i for i, st in enumerate(body) if isinstance(st, ast.Assign) and norm(st.targets[0]) == "self.fully_reduced_jacobian.data[:]"
                  and p_jac in {x.id for x in ast.walk(st.value) if isinstance(x, ast.Name)}]
    idx_store = [i for i, st in enumerate(body) if isinstance(st, ast.Assign) and norm(st.targets[0]) == "self.fully_reduced_jacobian.indices"
                 and norm(st.value).startswith("self.fully_reduced_jacobian_indices")]
    rets = [i for i, st in enumerate(body) if isinstance(st, ast.Return)]
    ctx.ob(R, el.qname, "the cached fully reduced matrix has all its values and indices overwritten before it is returned",
           bool(data_store) and bool(idx_store) and bool(rets) and max(data_store + idx_store) < min(rets),
           f"data stores {data_store}, index stores {idx_store}, returns {rets}", el.node)
    ctx.floor(R, 2)


def rule_f(ctx):
    R = "C16.f"
    ctx.rule(R, "function-style regularisers keep no module-level state: no `global` statement and no store into a module "
             "global in tvd, split_bregman_tvd, h1_regularization; the TVD object keeps no call-written state")
    m = ctx.model
    for modname in ("darsia.restoration.tvd", "darsia.restoration.split_bregman_tvd", "darsia.restoration.h1_regularization"):
        mod = m.mod(modname)
        ctx.consult(modname)
        ctx.instance(R)
        globs = [n for n in ast.walk(mod.tree) if isinstance(n, (ast.Global, ast.Nonlocal)) and isinstance(n, ast.Global)]
        ctx.ob(R, modname, "no `global` statement", not globs, "", mod.tree)
        module_names = set(mod.assigns)
        bad = []
        for f in list(mod.funcs.values()) + [g for c in mod.classes.values() for g in c.methods.values()]:
            for n in ast.walk(f.node):
                if isinstance(n, (ast.Assign, ast.AugAssign)):
                    for t in (n.targets if isinstance(n, ast.Assign) else [n.target]):
                        b = t
                        while isinstance(b, (ast.Subscript, ast.Attribute)):
                            b = b.value
                        if isinstance(b, ast.Name) and b.id in module_names and isinstance(t, (ast.Subscript, ast.Attribute)):
                            bad.append(f"{f.short}: {norm(n)[:50]}")
        ctx.ob(R, modname, "no store into a module-level object", not bad, str(bad[:3]), mod.tree)
    k = m.cls("darsia.restoration.tvd", "TVD")
    sa = StateAnalysis(m, k, ["__call__"])
    ctx.ob(R, k.qname, "TVD.__call__ closure writes no attribute", not sa.call_written, str(sorted(sa.call_written)), k.node)
    ctx.floor(R, 3)


def rule_g(ctx):
    R = "C16.g"
    ctx.rule(R, "update_params sets each coefficient from its own argument: for every parameter p of an update_params method that is stored as "
             "self.p, the store happens whenever p is given -- the statement is `self.p = p if p is not None else self.p`, or an "
             "assignment whose enclosing tests mention p only; overrides forward every parameter in the same position")
    m = ctx.model
    SOLV = "darsia.utils.linear_solvers.solver"
    ctx.consult(SOLV)
    n = 0
    for mn, mod in m.modules.items():
        if not mn.startswith("darsia.utils.linear_solvers"):
            continue
        for k in mod.classes.values():
            f = k.methods.get("update_params")
            if f is None:
                continue
            ctx.consult(mn)
            params = f.params[1:]
            stored = {}
            for st in ast.walk(f.node):
                if isinstance(st, ast.Assign) and len(st.targets) == 1 and self_attr(st.targets[0]) in params:
                    stored.setdefault(self_attr(st.targets[0]), []).append(st)
            for p in params:
                for st in stored.get(p, []):
                    n += 1
                    ctx.instance(R)
                    conds = []
                    cur = st
                    while cur is not None and cur is not f.node:
                        par = getattr(cur, "_parent", None)
                        if isinstance(par, (ast.If, ast.While)):
                            conds.append(par.test)
                        cur = par
                    foreign = sorted({x.id for c in conds for x in ast.walk(c) if isinstance(x, ast.Name) and x.id in params and x.id != p})
                    v = st.value
                    own_form = norm(v) in (p, f"{p} if {p} is not None else self.{p}", f"self.{p} if {p} is None else {p}")
                    ctx.ob(R, f.qname, f"self.{p} is updated whenever `{p}` is given", own_form and not foreign,
                           f"`{norm(st)[:70]}` is guarded by tests on {foreign}: update_params({p}=...) alone leaves the previous value in place" if foreign else norm(st)[:90], st)
            # forwarding overrides
            for c in ast.walk(f.node):
                if isinstance(c, ast.Call) and isinstance(c.func, ast.Attribute) and c.func.attr == "update_params":
                    n += 1
                    ctx.instance(R)
                    kws = explicit_keywords(f.node, c)
                    if kws is None or any(isinstance(a, ast.Starred) for a in c.args):
                        ctx.ob(R, f.qname, f"`{norm(c.func)}` receives every parameter in its own position", False, "forwarding through * / ** arguments: correspondence not found", c)
                        continue
                    args = [norm(a) for a in c.args] + [f"{k}={norm(v)}" for k, v in kws]
                    ok = [norm(a) for a in c.args] == params[:len(c.args)] and all(k == norm(v) for k, v in kws) and len(c.args) + len(kws) == len(params)
                    ctx.ob(R, f.qname, f"`{norm(c.func)}` receives every parameter in its own position", ok, str(args), c)
    ctx.floor(R, 5)


def rule_h(ctx):
    R = "C16.h"
    ctx.rule(R, "objects held in solver attributes are not modified in place during a call: in the __call__ closure of every Solver subclass "
             "and of AndersonAcceleration, no in-place operator / element store / mutator method acts on a local name or expression that "
             "aliases an attribute of self (effect summaries; `w = self.coeff; w /= h**2` changes what the next call starts from, while "
             "the attribute itself is never re-bound and the hidden-state analysis therefore sees no write)")
    from ..effects import Effects, base_name

    m = ctx.model
    E = Effects(m)
    n_f = 0
    for modname, cname in list(SOLVERS) + [(AND, "AndersonAcceleration")]:
        k = m.cls(modname, cname)
        sa = StateAnalysis(m, k, ["__call__"])
        ctx.instance(R)
        bad = []
        for f in sa.closure:
            n_f += 1
            if not f.params:
                continue
            for e in E.events_on(f, f.params[0]):
                if e.kind in ("callee", "store"):
                    continue  # callees are visited themselves; stores are attribute writes the hidden-state analysis accounts for
                n = e.node
                tgt = n.target if isinstance(n, ast.AugAssign) else (n.targets[0] if isinstance(n, ast.Assign) else (n.func.value if isinstance(n, ast.Call) and isinstance(n.func, ast.Attribute) else None))
                b = base_name(tgt) if tgt is not None else None
                if isinstance(b, ast.Name) and b.id != f.params[0]:
                    bad.append((f, e))
        ctx.ob(R, k.qname, f"{cname}: no attribute object is modified in place through an alias during a call", not bad,
               "; ".join(f"{f.short} L{getattr(e.node, 'lineno', 0)}: `{e.via[:60]}` ({e.kind})" for f, e in bad[:3]) + " -- the attribute keeps the modified object: a second call starts from different coefficients / history",
               bad[0][1].node if bad else k.node, evidence=True)
    # the regulariser object that wraps split_bregman_tvd: a call leaves the object as configured (no attribute is re-bound, no option
    # is taken out of the stored keyword arguments) -- otherwise the second call of the same object runs with other options than the first
    k = m.cls("darsia.restoration.tvd", "TVD")
    sa = StateAnalysis(m, k, ["__call__"])
    ctx.instance(R)
    bad = []
    for f in sa.closure:
        n_f += 1
        if not f.params or f.name == "__init__":
            continue
        for e in E.events_on(f, f.params[0]):
            if e.kind == "callee":
                continue
            bad.append((f, e))
    ctx.ob(R, k.qname, "TVD: a call does not change the configured object (attributes, stored keyword arguments)", not bad,
           "; ".join(f"{f.short} L{getattr(e.node, 'lineno', 0)}: `{e.via[:70]}` ({e.kind})" for f, e in bad[:3]) + " -- the next call of the same object runs with a different configuration (e.g. the default solver instead of the one given)",
           bad[0][1].node if bad else k.node, evidence=True)
    ctx.stat("closure_functions_scanned", n_f)
    ctx.floor(R, 4)


def run(ctx):
    # arguments that are overwritten (warm-start arrays, coefficient arrays) carry the state of one call into the next: C17.a on the solvers
    from . import c17
    from .common import shared
    from ..effects import Effects

    shared(ctx, "C16.h", c17.rule_a, Effects(ctx.model), (lambda mod, qn: any(w in mod for w in ("split_bregman_tvd", "h1_regularization", "tvd", "linear_solvers", "andersonacceleration"))), 1,
           why="a solver that writes into the arrays it is given (x0, coefficients) makes the next call with the same arrays depend on this one")
    ctx.guard(rule_h, ctx)
    ctx.guard(rule_a, ctx)
    ctx.guard(rule_b, ctx)
    ctx.guard(rule_c, ctx)
    ctx.guard(rule_d, ctx)
    ctx.guard(rule_e, ctx)
    ctx.guard(rule_f, ctx)
    ctx.guard(rule_g, ctx)
