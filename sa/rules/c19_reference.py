"""Documented construction of the Patches tables: the constructor as confirmed by hand against property C19 (rows <-> matrix axis 0,
columns <-> axis 1; ROIs with overlap, interiors without; corner / centre tables).  Used as the reference of the symbolic comparison in
c19.py -- never compared as text."""

REFERENCE_INIT = '''
class Patches:
    def __init__(self, img: darsia.Image, num_patches: list[int], **kwargs) -> None:
        self.base = img
        if self.base.space_dim == 3:
            raise NotImplementedError('3d patches are not tested yet!')
        if self.base.time_dim == 1:
            raise NotImplementedError('Patches of space time images are not tested yet!')
        self.num_patches: list[int] = num_patches
        self.num_active_spatial_axes = min(len(self.num_patches), self.base.space_dim)
        self.relative_space_overlap = kwargs.get('rel_overlap', 0.0)
        self.absolute_time_overlap: int = kwargs.get('abs_time_overlap', 0)
        patch_dimensions_metric = [self.base.dimensions[i] / self.num_patches[i] for i in range(self.num_active_spatial_axes)]
        indexing = self.base.indexing
        patch_dimensions_voxels = [self.base.coordinatesystem.num_voxels(length=patch_dimensions_metric[i], axis=darsia.to_cartesian_indexing(i, indexing)) for i in range(self.num_active_spatial_axes)]
        overlap_metric = [self.relative_space_overlap * patch_dimensions_metric[i] for i in range(self.num_active_spatial_axes)]
        overlap_voxels = [self.base.coordinatesystem.num_voxels(length=overlap_metric[i], axis=darsia.to_cartesian_indexing(i, indexing)) for i in range(self.num_active_spatial_axes)]
        nv = self.base.num_voxels
        pv = patch_dimensions_voxels
        ov = overlap_voxels
        cv = [ceil(overlap / 2) for overlap in overlap_voxels]
        off = [0 if c == o / 2.0 else 1 for c, o in zip(cv, ov)]
        self.nv = nv
        self.pv = pv
        self.ov = ov
        self.cv = cv
        self.off = off
        if self.base.space_dim == 2:
            self.rois: list[list[tuple]] = [[(slice(max(i * pv[0] - ov[0], 0), (i + 1) * pv[0] + ov[0]), slice(max(j * pv[1] - ov[1], 0), (j + 1) * pv[1] + ov[1])) for j in range(self.num_patches[1])] for i in range(self.num_patches[0])]
        elif self.base.space_dim == 3:
            raise NotImplementedError
        if self.base.space_dim == 2:
            self.relative_rois_without_overlap: list[list[tuple]] = [[(slice(0, pv[0]) if i == 0 else slice(ov[0], pv[0] + ov[0]), slice(0, pv[1]) if j == 0 else slice(ov[1], pv[1] + ov[1])) for j in range(self.num_patches[1])] for i in range(self.num_patches[0])]
        elif self.base.space_dim == 3:
            raise NotImplementedError
        if self.base.space_dim == 2:
            self.patches = [[self.base.subregion(self.rois[i][j]) for j in range(self.num_patches[1])] for i in range(self.num_patches[0])]
        elif self.base.space_dim == 3:
            raise NotImplementedError
        if self.base.space_dim == 2:
            self.global_centers_cartesian = np.array([[self.base.origin + np.array([(j + 0.5) * patch_dimensions_metric[1], -(i + 0.5) * patch_dimensions_metric[0]]) for j in range(self.num_patches[1])] for i in range(self.num_patches[0])])
        elif self.base.space_dim == 3:
            raise NotImplementedError
        if self.base.space_dim == 2:
            self.global_centers_voxels = np.array([[self.base.coordinatesystem.voxel(self.global_centers_cartesian[i, j]) for j in range(self.num_patches[1])] for i in range(self.num_patches[0])], dtype=int)
        elif self.base.space_dim == 3:
            raise NotImplementedError
        if self.base.space_dim == 2:
            self.global_corners_cartesian = np.array([[np.array([[j * patch_dimensions_metric[1], -i * patch_dimensions_metric[0]], [j * patch_dimensions_metric[1], -(i + 1) * patch_dimensions_metric[0]], [(j + 1) * patch_dimensions_metric[1], -(i + 1) * patch_dimensions_metric[0]], [(j + 1) * patch_dimensions_metric[1], -i * patch_dimensions_metric[0]]]) + self.base.origin[np.newaxis, :] for j in range(self.num_patches[1])] for i in range(self.num_patches[0])])
        elif self.base.space_dim == 3:
            raise NotImplementedError
        if self.base.space_dim == 2:
            self.global_corners_voxels = np.array([[np.array([[i * pv[0], j * pv[1]], [min(nv[0], (i + 1) * pv[0]), j * pv[1]], [min(nv[0], (i + 1) * pv[0]), min(nv[1], (j + 1) * pv[1])], [i * pv[0], min(nv[1], (j + 1) * pv[1])]]) for j in range(self.num_patches[1])] for i in range(self.num_patches[0])], dtype=int)
        elif self.base.space_dim == 3:
            raise NotImplementedError
        if self.base.space_dim == 2:
            self.local_corners_voxels = np.array([[np.array([[0, 0], [min(nv[0], (i + 1) * pv[0]) - i * pv[0], 0], [min(nv[0], (i + 1) * pv[0]) - i * pv[0], min(nv[1], (j + 1) * pv[1]) - j * pv[1]], [0, min(nv[1], (j + 1) * pv[1]) - j * pv[1]]]) for j in range(self.num_patches[1])] for i in range(self.num_patches[0])], dtype=int)
        elif self.base.space_dim == 3:
            raise NotImplementedError
        self.weights_defined = False
'''
