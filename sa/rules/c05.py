"""C05 -- distances behave like a transport cost (only the two structural clauses are decided)."""
from __future__ import annotations

import ast

from ..amatch import AM
from ..flow import expand
from ..report import AnalysisError
from ..srcmodel import norm
from . import c15

LEVEL = "other"
WAS = "darsia.measure.wasserstein"


def rule_a(ctx):
    R = "C05.a"
    ctx.rule(R, "the unified front end returns what the back end returns: documented methods = dispatched methods, the chain ends in "
             "raise, every path returns exactly <object built on that path>(mass_1, mass_2) in that order, the variational back ends "
             "receive generate_grid(mass_1), weight and options unmodified, and options is never written")
    m = ctx.model
    ctx.consult(WAS)
    f = m.func(WAS, "wasserstein_distance")
    ctx.instance(R)
    p1, p2, pm, pw = f.params[0], f.params[1], f.params[2], f.params[3]
    doc = ast.get_docstring(f.node) or ""
    import re

    documented = set(re.findall(r'"([a-z0-9_.]+)"', next((ln for ln in doc.splitlines() if "method (str)" in ln), "")))
    ctx.need(len(documented) >= 3, f"{f.qname}: documented method names not found in the docstring")
    # the front end is folded symbolically per documented method (any spelling of the dispatch is followed): what it returns must be
    # <back end class>(generate_grid(mass_1), weight, options)(mass_1, mass_2)
    from ..fold import Folder, Opaque, Raised, Refuse

    M1, M2, W, O = Opaque("img", "mass_1"), Opaque("img", "mass_2"), Opaque("img", "weight"), Opaque("dict", "options")
    want_cls = {"newton": "WassersteinDistanceNewton", "bregman": "WassersteinDistanceBregman"}
    for lit in sorted(documented):
        for spelled in (lit, lit.upper()):
            ctx.instance(R)
            fo = Folder(symbolic=True)
            variational = lit in want_cls
            try:
                res = fo.call(f.node, [M1, M2, spelled, W if variational else None], {"options": O})
                got = repr(res)
            except Raised as e:
                got = f"raises {e.name}"
            except Refuse as e:
                ctx.ob(R, f.qname, f"method {spelled!r}: returns the back end's result on (mass_1, mass_2)", False, f"front end not found to be foldable: {e}", f.node)
                continue
            if variational:
                want = f"{want_cls[lit]}(darsia.generate_grid({M1!r}), {W!r}, {O!r})({M1!r}, {M2!r})"
            else:
                want = None
            ok = got == want if want else (got.startswith("darsia.EMD(") and got.endswith(f"({M1!r}, {M2!r})"))
            ctx.ob(R, f.qname, f"method {spelled!r}: returns {'Cls(generate_grid(mass_1), weight, options)' if variational else 'darsia.EMD(...)'}(mass_1, mass_2)", ok, f"returns {got}", f.node, evidence=True)
    fo = Folder(symbolic=True)
    try:
        fo.call(f.node, [M1, M2, "no-such-method", None], {})
        got = "returns"
    except Raised as e:
        got = f"raises {e.name}"
    except Refuse as e:
        got = f"not found to be foldable: {e}"
    ctx.ob(R, f.qname, "an undocumented method name raises", got.startswith("raises"), got, f.node)
    # every return hands back a back end applied to the two masses (a constant or anything else is not a distance computed by a back end)
    rets = [r for r in ast.walk(f.node) if isinstance(r, ast.Return) and r.value is not None]
    bad = [norm(r.value) for r in rets if not (isinstance(expand(f.node, r.value), ast.Call) and [norm(a) for a in expand(f.node, r.value).args] == [p1, p2])]
    ctx.ob(R, f.qname, "every return is <back end>(mass_1, mass_2)", bool(rets) and not bad, f"other returns: {bad}", f.node, evidence=True)
    am = AM(f)
    am.has(f.node, "options = kwargs.get('options', {})")
    oname = am.actual("options") or "options"
    writes = [norm(n) for n in ast.walk(f.node) if isinstance(n, (ast.Assign, ast.AugAssign)) and any(isinstance(t, ast.Subscript) and norm(t.value) == oname for t in (n.targets if isinstance(n, ast.Assign) else [n.target]))]
    writes += [norm(n) for n in ast.walk(f.node) if isinstance(n, ast.Call) and norm(n.func) in (f"{oname}.update", f"{oname}.pop", f"{oname}.setdefault", f"{oname}.clear")]
    ctx.ob(R, f.qname, "options is not written", not writes, str(writes), f.node)
    ctx.floor(R, 1)


def rule_b(ctx):
    R = "C05.b"
    ctx.rule(R, "the cost functional uses positive quadrature weights that integrate linear functions exactly (the mechanism behind the "
             "first-moment bound): for every L1 mode and dim 1..3 the selected rule has equal point/weight counts, positive weights, "
             "sum 1, first moments 1/2 (tables folded as in C15); the integrand is the Euclidean norm of the (weighted) cell flux; the "
             "total is mass_matrix_cells . density summed")
    tabs = c15.fold_rules(ctx)
    td, sel = c15.consumer_selections(ctx)
    from decimal import Decimal

    for name, order, node in sel:
        for dim in (1, 2, 3):
            ctx.instance(R)
            row = tabs.get((name, dim, order))
            label = f"{name}({dim},{order!r})" if order is not None else f"{name}({dim})"
            if row is None or row[0] == "raise":
                ctx.ob(R, td.qname, f"{label} exists", False, str(row), node)
                continue
            _, pts, wts = row
            ok = len(pts) == len(wts) and all(w > 0 for w in wts) and abs(sum(wts) - 1) < c15.TOL
            mom = all(abs(sum(w * p[i] for p, w in zip(pts, wts)) - Decimal("0.5")) < c15.TOL for i in range(dim)) if len(pts) == len(wts) else False
            ctx.ob(R, td.qname, f"{label}: positive weights of total 1 with as many points", ok, f"{len(pts)} pts {len(wts)} wts sum {sum(wts):.6f}", node, evidence=True)
            ctx.ob(R, td.qname, f"{label}: integrates linear functions exactly", mom, "first moments of the folded rule differ from 1/2", node, evidence=len(pts) == len(wts))
    ctx.floor(R, 9)
    # integrand and total
    ncalls = [c for c in ast.walk(td.node) if isinstance(c, ast.Call) and norm(c.func) == "np.linalg.norm"]
    norms = [norm(c) for c in ncalls]
    # canonical spelling: np.linalg.norm(x, axis=-1) (the explicit order 2 is dropped by the canonical form); any other order is not Euclidean
    eucl = bool(ncalls) and all(len(c.args) == 1 and [(k.arg, norm(k.value)) for k in c.keywords] == [("axis", "-1")] for c in ncalls)
    ctx.ob(R, td.qname, "integrand is the Euclidean norm over the last axis of the cell flux", eucl and len(norms) in (1, 2), str(norms), td.node)
    am = AM(td)
    loops = [l for l in ast.walk(td.node) if isinstance(l, ast.For)]
    ok = len(loops) == 1 and am.eq(loops[0].iter, "zip(quad_pts, quad_weights)") and am.eq(loops[0].target, "(quad_pt, quad_weight)")
    am_acc = AM(td)
    am_acc.bind.update({k: v for k, v in am.bind.items() if k in ("quad_weight",)})
    am_acc.let("cell_flux_norm", "np.linalg.norm(some_cell_flux, axis=-1)")
    acc = am_acc.has(td.node, "transport_density += quad_weight * cell_flux_norm") is not None
    pts_ok = am.has(td.node, "cell_flux = darsia.face_to_cell(self.grid, flat_flux, pt=quad_pt)") is not None
    ctx.ob(R, td.qname, "density accumulates weight * |flux(point)| over zip(points, weights)", ok and acc and pts_ok, str(am.show()), td.node)
    l1 = ctx.model.func(WAS, "VariationalWassersteinDistance.l1_dissipation")
    am2 = AM(l1)
    ok = am2.has(l1.node, f"return self.mass_matrix_cells.dot(self.transport_density({l1.params[1]})).sum()") is not None and sum(1 for r in ast.walk(l1.node) if isinstance(r, ast.Return)) == 1
    ctx.ob(R, l1.qname, "distance = sum(mass_matrix_cells . transport_density(flux))", ok, str(am2.show()), l1.node)
    # the density that is integrated to the distance (l1_dissipation) and reported (transport density of the result) is the weighted one: the
    # value of `weighted` in force at these calls -- the keyword if given, the parameter's default otherwise -- is the constant True
    a_ = td.node.args
    pos_ = [x.arg for x in a_.posonlyargs + a_.args]
    dflt = None
    if "weighted" in pos_:
        i_ = pos_.index("weighted") - (len(pos_) - len(a_.defaults))
        dflt = a_.defaults[i_] if 0 <= i_ < len(a_.defaults) else None
    elif "weighted" in [x.arg for x in a_.kwonlyargs]:
        dflt = a_.kw_defaults[[x.arg for x in a_.kwonlyargs].index("weighted")]
    has_w = dflt is not None or "weighted" in pos_
    k_ = ctx.model.cls(WAS, "VariationalWassersteinDistance")
    for fn_ in [l1] + [f_ for f_ in k_.methods.values() if f_.name != "l1_dissipation" and any(isinstance(r_, ast.Return) for r_ in ast.walk(f_.node))
                       and any(isinstance(c_, ast.Call) and norm(c_.func) == "self.transport_density" and any(kw.arg == "flatten" for kw in c_.keywords) for c_ in ast.walk(f_.node))]:
        for c_ in ast.walk(fn_.node):
            if isinstance(c_, ast.Call) and norm(c_.func) == "self.transport_density" and has_w:
                given = next((kw.value for kw in c_.keywords if kw.arg == "weighted"), c_.args[pos_.index("weighted") - 1] if "weighted" in pos_ and len(c_.args) > pos_.index("weighted") - 1 else None)
                eff = given if given is not None else dflt
                is_const = isinstance(eff, ast.Constant) and isinstance(eff.value, bool)
                ctx.ob(R, fn_.qname, f"`{norm(c_)[:60]}`: the density that enters the distance / the reported result is the weighted one", is_const and eff.value is True,
                       (f"weighted is {eff.value} here ({'argument' if given is not None else 'default of transport_density'}): the distance no longer scales with the cell weights "
                        "(a constant weight c gives W1 instead of c * W1)") if is_const else f"value of `weighted` not found to be a constant: {norm(eff) if eff is not None else 'missing'}",
                       c_, evidence=is_const)


def rule_c(ctx):
    R = "C05.c"
    ctx.rule(R, "physical units of the OpenCV back end: the signature pairs the column index with the voxel size of matrix axis 1 and the row "
             "index with the voxel size of matrix axis 0 (dx is the image's voxel_size in matrix order); the distance is rescaled by the "
             "original sum times the cell volume prod(voxel_size); both images are turned into signatures with the same dx")
    from ..algebra import NotPolynomial, Poly, ToPoly

    m = ctx.model
    EMD = "darsia.measure.emd"
    ctx.consult(EMD)
    f = m.func(EMD, "EMD._img_to_sig")
    img, dx = f.params[1], f.params[2]
    ctx.instance(R)
    # names bound by unpacking dx, by position
    comp = {}
    for s in ast.walk(f.node):
        if isinstance(s, ast.Assign) and isinstance(s.targets[0], ast.Tuple) and norm(s.value) == dx:
            for i, e in enumerate(s.targets[0].elts):
                if isinstance(e, ast.Name):
                    comp[e.id] = i
    ctx.need(len(comp) == 2, "EMD._img_to_sig: unpacking of dx into two components not found")
    # loop variables over the two matrix axes
    axis_of = {}
    for l in ast.walk(f.node):
        if isinstance(l, ast.For) and isinstance(l.target, ast.Name) and isinstance(l.iter, ast.Call) and norm(l.iter.func) == "range" and len(l.iter.args) == 1:
            t = norm(l.iter.args[0])
            if t == f"{img}.shape[0]":
                axis_of[l.target.id] = 0
            elif t == f"{img}.shape[1]":
                axis_of[l.target.id] = 1
    ctx.need(sorted(axis_of.values()) == [0, 1], "EMD._img_to_sig: loops over the two matrix axes not found")
    lists = [n for n in ast.walk(f.node) if isinstance(n, ast.List) and len(n.elts) == 3 and isinstance(getattr(n, "_parent", None), ast.Call) and norm(n._parent.func) == "np.array"]
    ctx.need(len(lists) == 1, "EMD._img_to_sig: signature row [weight, x, y] not found")

    def atom(n):
        if isinstance(n, ast.Name) and n.id in comp:
            return f"dx[{comp[n.id]}]"
        if isinstance(n, ast.Name) and n.id in axis_of:
            return f"index{axis_of[n.id]}"
        return None
    try:
        x = ToPoly(atomize=atom)(lists[0].elts[1])
        y = ToPoly(atomize=atom)(lists[0].elts[2])
    except NotPolynomial as e:
        raise AnalysisError(f"EMD._img_to_sig: signature coordinates outside the polynomial language: {e}")
    ctx.ob(R, f.qname, "x coordinate = column index * voxel size of matrix axis 1", x == Poly.atom("index1") * Poly.atom("dx[1]"), repr(x), lists[0])
    ctx.ob(R, f.qname, "y coordinate = row index * voxel size of matrix axis 0", y == Poly.atom("index0") * Poly.atom("dx[0]"), repr(y), lists[0])
    w = lists[0].elts[0]
    ctx.ob(R, f.qname, "weight is the pixel value at (row, col)", {axis_of.get(x_.id) for x_ in ast.walk(w) if isinstance(x_, ast.Name) and x_.id in axis_of} == {0, 1}
           and [axis_of[x_.id] for x_ in ast.walk(w) if isinstance(x_, ast.Name) and x_.id in axis_of][:2] == [0, 1], norm(w), lists[0])
    c = m.func(EMD, "EMD.__call__")
    am = AM(c)
    ok = (am.has(c.node, "cell_volume = np.prod(preprocessed_img_1.voxel_size)") is not None
          and am.has(c.node, "integral = self._sum(preprocessed_img_1)") is not None
          and am.has(c.node, "dx = tuple(preprocessed_img_1.voxel_size)") is not None
          and am.has(c.node, "sig_1 = self._img_to_sig(normalized_img_1, dx=dx, time_num=time_num)") is not None
          and am.has(c.node, "sig_2 = self._img_to_sig(normalized_img_2, dx=dx, time_num=time_num)") is not None
          and am.has(c.node, "rescaled_distance = np.multiply(dist, integral * cell_volume)") is not None)
    ctx.ob(R, c.qname, "distance = cv2.EMD(sig_1, sig_2, L2) * original sum * prod(voxel_size), both signatures with the image's voxel_size", ok, str(am.show()), c.node)
    l2 = [norm(k) for k in ast.walk(c.node) if isinstance(k, ast.Call) and norm(k.func) == "cv2.EMD"]
    ctx.ob(R, c.qname, "cv2.EMD is evaluated with the Euclidean ground distance", len(l2) == 1 and l2[0].endswith(", cv2.DIST_L2)"), str(l2), c.node)
    ctx.floor(R, 1)


def rule_d(ctx):
    R = "C05.d"
    ctx.rule(R, "the distance scales linearly with a constant factor on the cell weights: homogeneity-degree analysis of "
             "_compute_face_weight (cell_weights has degree 1, fluxes / grid data 0, the regularisation floor any; sums need equal degrees, "
             "products add, quotients subtract, powers multiply; averages, norms and reshapes keep the degree; transport_density(weighted) "
             "and cell_weighted_flux add 1) -- every return path of every mobility mode, helpers included, must give (face weight, inverse) "
             "the degrees (1, -1)")
    from ..degree import ANY, Degree, Mismatch

    m = ctx.model
    f = m.func(WAS, "VariationalWassersteinDistance._compute_face_weight")
    ctx.instance(R)

    def base(t):
        if t == "self.cell_weights":
            return 1
        if t == "self.regularization":
            return ANY
        if t.startswith("self.grid") or t in ("self.L", "self.mass_matrix_faces"):
            return 0
        return None

    def add(a, b):
        return None if a is None or b is None else (a if b == ANY else b if a == ANY else a + b)

    def td(ev, c, env):
        w = next((k.value for k in c.keywords if k.arg == "weighted"), c.args[1] if len(c.args) > 1 else None)
        weighted = True if w is None else (w.value if isinstance(w, ast.Constant) else None)
        a = ev.ev(c.args[0], env)
        return None if weighted is None or a is None else (add(a, 1) if weighted else a)
    calls = {"self.transport_density": td,
             "self._product": lambda ev, c, env: add(ev.ev(c.args[0], env), ev.ev(c.args[1], env)),
             "self._harmonic_average": lambda ev, c, env: ev.ev(c.args[0], env),
             "self.cell_weighted_flux": lambda ev, c, env: add(ev.ev(c.args[0], env), 1),
             "darsia.cell_to_face_average": lambda ev, c, env: ev.ev(c.args[1], env),
             "darsia.face_to_cell": lambda ev, c, env: ev.ev(c.args[1], env),
             "self.face_reconstruction": lambda ev, c, env: ev.ev(c.args[0], env)}

    def resolve(c):
        g = m.resolve_call(c, f)
        return g if g is not None and hasattr(g, "node") and getattr(g, "cls", None) is f.cls and norm(c.func) not in calls else None
    try:
        rets = sorted(set(Degree(base, calls, resolve).returns(f.node.body, {f.params[1]: 0})), key=str)
    except Mismatch as e:
        ctx.ob(R, f.qname, "face weight has degree 1 and its inverse degree -1 in the cell weights, on every return path", False,
               f"{e}: multiplying a constant weight by c does not scale the face weights by c, so the distance does not scale linearly", f.node, evidence=True)
        ctx.floor(R, 1)
        return
    known = [r for r in rets if isinstance(r, tuple) and len(r) == 2 and None not in r]
    wrong = [r for r in known if tuple(r) != (1, -1)]
    ok = bool(known) and not wrong and len(known) == len(rets)
    ctx.ob(R, f.qname, "face weight has degree 1 and its inverse degree -1 in the cell weights, on every return path", ok,
           f"return paths with degrees {[tuple(map(str, r)) for r in wrong]}" if wrong else "", f.node, evidence=bool(wrong))
    ctx.floor(R, 1)


VALUE_CHANGING = {"np.maximum", "np.minimum", "np.clip", "np.abs", "np.fmax", "np.fmin", "np.nan_to_num", "np.round", "np.floor", "np.ceil",
                  "darsia.convert_dtype", "skimage.img_as_float", "skimage.img_as_float64", "skimage.img_as_float32", "skimage.img_as_ubyte",
                  "skimage.util.img_as_float", "img_as_float", "+", "-", "*", "/", "**"}


def rule_e(ctx):
    R = "C05.e"
    ctx.rule(R, "the cell weights are the values of the weight image: _setup_face_weights folded with and without a weight; with a weight, "
             "self.cell_weights is the image's array, at most converted in type (astype / asarray / copy) -- a clamp, a rescaling conversion "
             "(skimage's img_as_float divides integer data by the dtype range) or any arithmetic on it changes the weighted cost, which must "
             "be the cost with the user's weights and scale linearly with them; the face weights are derived from that same array")
    from ..fold import Folder, Obj, Opaque, Raised, Refuse, Sym
    from ..terms import nf

    m = ctx.model
    base = m.cls(WAS, "VariationalWassersteinDistance")
    f = m.method(base, "_setup_face_weights")
    ctx.instance(R)
    W = Opaque("ndarray", "WEIGHT")
    so = Obj("self", {"__class__": "VariationalWassersteinDistance", "weight": Obj("weight", {"img": W}), "regularization": Opaque("float", "REG"),
                      "grid": Obj("grid", {"shape": Opaque("tuple", "GRIDSHAPE"), "num_faces": Opaque("int", "NUMFACES")}), "options": Opaque("dict", "OPTIONS")})
    hav = []
    so.fields["_harmonic_average"] = lambda a, k: (hav.append(a[0] if a else None), Opaque("ndarray", "FACEWEIGHTS"))[1]
    fo = Folder(symbolic=True)
    fo.func_stack.append(f.node)
    fo.fold_all_methods = True
    try:
        fo.call(f.node, [so])
    except (Refuse, Raised) as e:
        ctx.ob(R, f.qname, "with a weight image: cell_weights is the image's array", False, f"fold of _setup_face_weights not found to be possible: {e}", f.node)
        ctx.floor(R, 1)
        return
    cw = so.fields.get("cell_weights")
    t = cw
    while isinstance(t, Sym):
        if t.attr in ("astype", "copy", "view") and t.recv is not None:
            t = t.recv
        elif t.fn in ("np.asarray", "np.array", "np.ascontiguousarray", "np.copy", "np.asfarray") and t.args:
            t = t.args[0]
        else:
            break
    if t is W:
        ctx.ob(R, f.qname, "with a weight image: cell_weights is the image's array", True, "", f.node)
    elif isinstance(t, Sym) and (t.fn in VALUE_CHANGING or (t.attr or "").lstrip(".") in ("clip", "round")) and "WEIGHT" in nf(t):
        ctx.ob(R, f.qname, "with a weight image: cell_weights is the image's array", False,
               f"cell_weights = {nf(cw)[:120]}: the weights are changed in value before they enter the discretisation -- the reported cost is not the cost with the "
               "user's weights (integer-typed or small weights are rescaled / clamped), and it no longer scales linearly with them", f.node, evidence=True)
    else:
        ctx.ob(R, f.qname, "with a weight image: cell_weights is the image's array", False, f"cell_weights not found to be the weight array: {nf(cw)[:120]}", f.node)
    if hav:
        ctx.ob(R, f.qname, "the face weights are the harmonic average of the very array stored as cell_weights", hav[-1] is cw, f"_harmonic_average is applied to {nf(hav[-1])[:100]}", f.node, evidence=True)
    ctx.floor(R, 1)


def rule_g(ctx):
    R = "C05.g"
    ctx.rule(R, "the Bregman shrink step compares like with like: _shrink subtracts the shrink factor from the inverse face weights (degree -1 in a "
             "constant weight), so every shrink factor that _solve starts with has degree -1 as well (L / face_weights) -- with another power "
             "of the weights the un-converged iterates, and with them the reported distance, do not scale linearly with a constant weight")
    from ..degree import ANY, Degree, Mismatch, UNKNOWN

    m = ctx.model
    f = m.func(WAS, "WassersteinDistanceBregman._solve")

    def base(t):
        if t in ("self.face_weights", "self.cell_weights"):
            return 1
        if t in ("self.face_weights_inv",):
            return -1
        if t in ("self.L", "self.regularization") or t.startswith("self.grid") or t.startswith("self.options"):
            return 0
        return None
    D = Degree(base, {}, None)
    n = 0
    for st in ast.walk(f.node):
        if isinstance(st, ast.Assign) and len(st.targets) == 1 and isinstance(st.targets[0], ast.Name) and st.targets[0].id == "shrink_factor":
            n += 1
            ctx.instance(R)
            try:
                d = D.ev(st.value, {})
            except Mismatch as e:
                ctx.ob(R, f.qname, "the initial shrink factor has degree -1 in the weights", False, f"`{norm(st)[:80]}`: {e}", st, evidence=True)
                continue
            if d is UNKNOWN or d is None:
                ctx.ob(R, f.qname, "the initial shrink factor has degree -1 in the weights", False, f"degree of `{norm(st)[:80]}` not found", st)
            else:
                ctx.ob(R, f.qname, "the initial shrink factor has degree -1 in the weights", d in (-1, ANY), f"`{norm(st)[:80]}` has degree {d} in a constant weight; the inverse face weights it is compared with have degree -1", st, evidence=True)
    ctx.floor(R, 1)


def run(ctx):
    from . import c15 as _c15
    from .common import shared as _sh15
    ctx.guard(_sh15, ctx, "C05.b", _c15.run, why="the distance is the quadrature of the weighted flux norm over each cell")
    ctx.guard(rule_g, ctx)
    from .common import rule_abs_tolerance
    _m = ctx.model
    rule_abs_tolerance(ctx, "C05.f", [f for mn in (WAS, "darsia.measure.emd", "darsia.utils.linalg") for k in _m.mod(mn).classes.values() for f in k.methods.values()] + list(_m.mod(WAS).funcs.values()),
                       "the distance must scale linearly with the masses")
    ctx.guard(rule_e, ctx)
    ctx.guard(rule_d, ctx)
    ctx.guard(rule_a, ctx)
    ctx.guard(rule_b, ctx)
    ctx.guard(rule_c, ctx)
    # the cost functional integrates the cell flux that face_to_cell reconstructs at the quadrature points (C06.c)
    from . import c06
    from .common import shared

    from . import c07 as _c07
    shared(ctx, "C05.b", _c07.rule_d, why="lengths and face areas of the transport problem come from the grid generate_grid builds for the image: first-moment bound and thin-grid costs need each axis with its own voxel size")
    shared(ctx, "C05.b", c06.rule_c, why="the transport cost is the quadrature of |face_to_cell(flux, pt)|")
    # the reported value is the cost of a mass-conserving flux only if every linear solve uses a factorisation of its own matrix (C04.g)
    from . import c04, c17
    from ..effects import Effects

    shared(ctx, "C05.a", c04.rule_g, why="a stale factorisation returns a flux that violates the mass balance the distance is defined with")
    # the OpenCV back end normalises copies: a distance evaluation that rescales the caller's images changes every later distance (C17.a)
    shared(ctx, "C05.c", c17.rule_a, Effects(ctx.model), (lambda mod, qn: mod == "darsia.measure.emd"), 1,
           why="d(a, b) evaluated twice, or d(b, a) after d(a, b), must see the same images")
