"""C13 -- concentration analysis: stage order, difference algebra, probe untouched, packaging."""
from __future__ import annotations

import ast

from ..amatch import AM
from ..flow import clone, expand
from ..algebra import NotPolynomial, Poly, ToPoly
from ..effects import Effects
from ..report import AnalysisError
from ..srcmodel import norm

LEVEL = "other"
MOD = "darsia.multi_image_analysis.concentrationanalysis"
STAGES = ["_subtract_background", "_reduce_signal", "_clean_signal", "_balance_signal"]


def rule_a(ctx):
    R = "C13.a"
    ctx.rule(R, "stage order: the value chain of __call__ is _subtract_background(probe) -> _reduce_signal -> _clean_signal -> "
             "_balance_signal -> (_restore_signal -> _convert_signal) when first_restoration_then_model else (_convert_signal -> "
             "_restore_signal); each stage's argument is exactly the previous stage's result; each private stage is the identity when its "
             "operator is None and otherwise returns the operator applied to its argument; cleaning is clip(x - filter, 0, None)")
    m = ctx.model
    ctx.consult(MOD)
    k = m.cls(MOD, "ConcentrationAnalysis")
    f = m.method(k, "__call__")
    ctx.instance(R)
    # chain of single assignments: name -> (stage, args)
    defs = {}
    multi = set()

    def collect(stmts, cond):
        for s in stmts:
            if isinstance(s, ast.Assign) and len(s.targets) == 1 and isinstance(s.targets[0], ast.Name) and isinstance(s.value, ast.Call) and norm(s.value.func).startswith("self._"):
                nme = s.targets[0].id
                if (nme, cond) in defs:
                    multi.add(nme)
                defs[(nme, cond)] = (norm(s.value.func)[5:], [norm(a) for a in s.value.args], s)
            elif isinstance(s, ast.If):
                t = norm(s.test)
                collect(s.body, cond + ((t, True),))
                collect(s.orelse, cond + ((t, False),))

    collect(f.node.body, ())
    ctx.ob(R, f.qname, "every intermediate is assigned once per branch", not multi, str(sorted(multi)), f.node)

    sb = [d for d in defs.values() if d[0] == "_subtract_background"]
    ctx.need(len(sb) == 1 and len(sb[0][1]) == 1, f"{f.qname}: the call self._subtract_background(<working image>) was not found")
    PROBE = sb[0][1][0]
    STAGESET = set(STAGES) | {"_restore_signal", "_convert_signal"}

    # the packaged array: first argument of the returned constructor calls (one name, defined once per order branch)
    ret_args = {norm(r.value.args[0]) for r in ast.walk(f.node) if isinstance(r, ast.Return) and isinstance(r.value, ast.Call) and r.value.args}
    ctx.need(len(ret_args) == 1, f"{f.qname}: the returns do not package one result ({sorted(ret_args)})")
    RES = next(iter(ret_args))
    order_if = [n for n in ast.walk(f.node) if isinstance(n, ast.If) and norm(n.test) == "self.first_restoration_then_model"]
    ctx.need(len(order_if) == 1, f"{f.qname}: branch on self.first_restoration_then_model not found")

    def chain_for(flag):
        """Value chain of the result in the given order branch, innermost stage first, every once-bound local replaced by its definition."""
        arm = order_if[0].body if flag else order_if[0].orelse
        local = {}
        for s_ in arm:
            if isinstance(s_, ast.Assign) and len(s_.targets) == 1 and isinstance(s_.targets[0], ast.Name):
                local[s_.targets[0].id] = s_.value
        e = local.get(RES)
        seen = set()
        # substitute the arm's own temporaries, then the function-level once-bound locals
        import copy

        class Sub(ast.NodeTransformer):
            def visit_Name(self, n):
                if isinstance(n.ctx, ast.Load) and n.id in local and n.id != RES and n.id not in seen:
                    seen.add(n.id)
                    return self.visit(clone(local[n.id]))
                return n
        if e is None:
            return [], None, None
        e = expand(f.node, Sub().visit(clone(e)))
        stages = []
        cur = e
        extra = None
        while isinstance(cur, ast.Call) and norm(cur.func).startswith("self._") and norm(cur.func)[5:] in STAGESET and cur.args:
            stages.append((norm(cur.func)[5:], [norm(a) for a in cur.args]))
            cur = cur.args[0]
        return list(reversed(stages)), norm(cur), e

    for flag, tail in ((True, ["_restore_signal", "_convert_signal"]), (False, ["_convert_signal", "_restore_signal"])):
        ch, start, e = chain_for(flag)
        names = [c[0] for c in ch]
        probe_x = norm(expand(f.node, ast.parse(PROBE, mode="eval").body))
        ctx.ob(R, f.qname, f"restoration->model = {flag}: stages run in the documented order, each on the previous result", names == STAGES + tail and start in (PROBE, probe_x),
               f"chain from `{start}`: {names}", f.node,
               evidence=start in (PROBE, probe_x) and ((sorted(names) == sorted(STAGES + tail) and names != STAGES + tail)     # all documented stages, in another order
               or (bool(names) and set(names) < set(STAGES + tail) and [n_ for n_ in STAGES + tail if n_ in names] == names
                   and set(STAGES + tail) <= {norm(c_.func)[5:] for c_ in ast.walk(f.node) if isinstance(c_, ast.Call) and norm(c_.func).startswith("self._")})))  # a stage is computed and its result dropped; only for a chain followed back to the probe
        conv = [a for st, a in ch if st == "_convert_signal"]
        ctx.ob(R, f.qname, f"restoration->model = {flag}: the model also receives the original difference", bool(conv) and len(conv[0]) == 2 and conv[0][1] in (f"self._subtract_background({PROBE})", f"self._subtract_background({probe_x})"), str(conv)[:200], f.node)
        ctx.ob(R, f.qname, f"restoration->model = {flag}: the end of the chain is what is returned", e is not None, f"returned {RES}", f.node)
    flag_defs = [s for s in ast.walk(m.method(k, "__init__").node) if isinstance(s, ast.Assign) and norm(s.targets[0]) == "self.first_restoration_then_model"]
    ok_flag = any(norm(s.value) == "kwargs.get('restoration -> model', True)" for s in flag_defs)
    # named contradiction: the option is read, but an omitted option does not give the documented default order (restoration first)
    bad_default = None
    for s in flag_defs:
        for c in ast.walk(s.value):
            if isinstance(c, ast.Call) and isinstance(c.func, ast.Attribute) and c.func.attr in ("get", "pop") and c.args and isinstance(c.args[0], ast.Constant) and c.args[0].value == "restoration -> model":
                dflt = c.args[1] if len(c.args) > 1 else None
                if dflt is None or (isinstance(dflt, ast.Constant) and dflt.value is not True):
                    bad_default = norm(s.value)
    ctx.ob(R, f.qname, "the order flag is the constructor option 'restoration -> model'", ok_flag,
           f"`{bad_default}`: when the option is omitted the flag is falsy, i.e. the model runs before the restoration although the documented default is restoration first" if bad_default else "",
           flag_defs[0] if flag_defs else f.node, evidence=bool(bad_default))
    # identity-when-None stages
    for stage, attr in (("_reduce_signal", "signal_reduction"), ("_balance_signal", "balancing"), ("_restore_signal", "restoration"), ("_convert_signal", "model")):
        g = m.method(k, stage)
        ctx.instance(R)
        p = g.params[1]
        rets = [norm(r.value) for r in ast.walk(g.node) if isinstance(r, ast.Return)]
        ok = rets == [f"{p} if self.{attr} is None else self.{attr}({p})"] or sorted(rets) == sorted([p, f"self.{attr}({p})"])
        ctx.ob(R, g.qname, f"identity when self.{attr} is None, otherwise self.{attr}(argument)", ok, str(rets), g.node)
    g = m.method(k, "_clean_signal")
    p = g.params[1]
    rets = [norm(r.value) for r in ast.walk(g.node) if isinstance(r, ast.Return)]
    ctx.ob(R, g.qname, "cleaning is clip(x - filter, 0, None), identity without a filter", rets == [f"{p} if self.threshold_cleaning_filter is None else np.clip({p} - self.threshold_cleaning_filter, 0, None)"], str(rets), g.node)
    for sub in m.subclasses(k, strict=True):
        for stage in STAGES + ["_restore_signal", "_convert_signal"]:
            if stage in sub.methods:
                base_n = len(m.method(k, stage).params)
                ctx.ob(R, sub.methods[stage].qname, f"override of {stage} keeps the stage signature", len(sub.methods[stage].params) == base_n, "", sub.methods[stage].node)
    ctx.floor(R, 4)


def diff_forms(g):
    """{(has_base, option): linear form description} extracted from _subtract_background."""
    out = {}
    for top in g.node.body:
        if isinstance(top, ast.If) and norm(top.test) == "self.base is None":
            for has_base, arm in ((False, top.body), (True, top.orelse)):
                for s in arm:
                    if isinstance(s, ast.If):
                        cur = s
                        while True:
                            t = cur.test
                            if isinstance(t, ast.Compare) and norm(t.left) == "self._diff_option":
                                opt = t.comparators[0].value
                                val = [x.value for x in cur.body if isinstance(x, ast.Assign)]
                                out[(has_base, opt)] = val[0] if val else None
                            if len(cur.orelse) == 1 and isinstance(cur.orelse[0], ast.If):
                                cur = cur.orelse[0]
                                continue
                            out[(has_base, "__else_raises__")] = any(isinstance(x, ast.Raise) for x in cur.orelse)
                            break
    return out


def classify(expr, p):
    """(wrapper, linear form over atoms I = probe data, B = baseline data)."""
    I, B = Poly.atom("I"), Poly.atom("B")

    def atom(n):
        t = norm(n)
        if t == f"{p}.img":
            return I
        if t == "self.base.img":
            return B
        return None

    conv = ToPoly(atomize=atom)
    e = expr
    if isinstance(e, ast.Call) and norm(e.func) == "np.clip" and len(e.args) == 3 and norm(e.args[1]) == "0" and norm(e.args[2]) == "None":
        return "clip0", conv(e.args[0])
    if isinstance(e, ast.Call) and norm(e.func) in ("np.absolute", "np.abs") and len(e.args) == 1:
        return "abs", conv(e.args[0])
    if isinstance(e, ast.Call) and norm(e.func) == "skimage.util.compare_images" and len(e.args) == 2 and any(k.arg == "method" and norm(k.value) == "'diff'" for k in e.keywords):
        # frozen external fact: compare_images(a, b, method='diff') = |a - b|
        return "abs", conv(e.args[0]) - conv(e.args[1])
    return "id", conv(e)


def rule_b(ctx):
    R = "C13.b"
    ctx.rule(R, "difference options as linear forms over I (probe data) and B (baseline data): plain = I - B, positive = clip0(I - B), "
             "negative = clip0(B - I), absolute = |I - B| (with B = 0 when there is no baseline); hence positive + negative = absolute, "
             "positive - negative = plain and every option maps the baseline to 0; documented options = branches of both arms, else raises")
    m = ctx.model
    k = m.cls(MOD, "ConcentrationAnalysis")
    g = m.method(k, "_subtract_background")
    p = g.params[1]
    I, B = Poly.atom("I"), Poly.atom("B")
    want = {"plain": ("id", I - B), "positive": ("clip0", I - B), "negative": ("clip0", B - I), "absolute": ("abs", I - B)}
    # the method is folded symbolically for every (baseline present?, option): the returned term is read as wrapper(linear form)
    from ..fold import Folder, Obj, Opaque, Raised, Refuse, Sym

    def to_poly(x):
        if isinstance(x, Opaque):
            return Poly.atom(x.label)
        if isinstance(x, Sym):
            if x.fn in ("+", "-", "*") and len(x.args) == 2:
                a_, b_ = to_poly(x.args[0]), to_poly(x.args[1])
                return a_ + b_ if x.fn == "+" else (a_ - b_ if x.fn == "-" else a_ * b_)
            if x.fn == "neg" and len(x.args) == 1:
                return -to_poly(x.args[0])
        if isinstance(x, (int, float)) and not isinstance(x, bool):
            return Poly.const(x)
        raise NotPolynomial(repr(x))

    def classify_term(x):
        if isinstance(x, Sym) and x.fn == "np.clip" and len(x.args) == 3 and x.args[1] == 0 and x.args[2] is None:
            return "clip0", to_poly(x.args[0])
        if isinstance(x, Sym) and x.fn in ("np.abs", "np.absolute") and len(x.args) == 1:
            return "abs", to_poly(x.args[0])
        if isinstance(x, Sym) and x.fn == "skimage.util.compare_images" and len(x.args) == 2 and x.kw.get("method") == "diff":
            return "abs", to_poly(x.args[0]) - to_poly(x.args[1])   # frozen external fact: compare_images(a, b, method='diff') = |a - b|
        return "id", to_poly(x)

    for has_base in (True, False):
        ctx.instance(R)
        for opt in list(want) + ["no-such-option"]:
            me = Obj("self", {"base": Obj("base", {"img": Opaque("arr", "B")}) if has_base else None, "_diff_option": opt})
            fo = Folder(symbolic=True)
            fo.func_stack.append(g.node)
            label = f"{'with' if has_base else 'without'} baseline, '{opt}'"
            try:
                res = fo.call(g.node, [me, Obj("img", {"img": Opaque("arr", "I")})])
            except Raised as e:
                ctx.ob(R, g.qname, f"{label}: " + ("an undocumented option raises" if opt not in want else "is dispatched"), opt not in want, f"raises {e.name}", g.node, evidence=__import__("sa.fold", fromlist=["raised_by_code"]).raised_by_code(e))
                continue
            except Refuse as e:
                ctx.ob(R, g.qname, f"{label}: evaluated", False, f"difference not found to be foldable: {e}", g.node)
                continue
            if opt not in want:
                ctx.ob(R, g.qname, f"{label}: an undocumented option raises", False, f"returns {res!r}", g.node, evidence=True)
                continue
            w, form = want[opt]
            wf = form if has_base else form.subst("B", Poly())
            try:
                gw, gf = classify_term(res)
                ok = gw == w and (gf == wf or (w == "abs" and gf == -wf))
                ctx.ob(R, g.qname, f"{label} = {w}({wf!r})", ok, f"got {gw}({gf!r})", g.node, evidence=True)
            except NotPolynomial as ex:
                ctx.ob(R, g.qname, f"{label} = {w}({wf!r})", False, f"returned term not found to be a linear form: {ex}", g.node)
    init = m.method(k, "__init__")
    doc = ast.get_docstring(init.node) or ""
    import re
    line = next((l for l in doc.splitlines() if "options:" in l and "positive" in l), "")
    documented = sorted(re.findall(r"'([a-z]+)'", line))
    ctx.ob(R, init.qname, "documented diff options are the dispatched ones", documented == sorted(want), str(documented), init.node)
    ctx.floor(R, 2)


def self_attr_(t):
    return t.attr if isinstance(t, ast.Attribute) and isinstance(t.value, ast.Name) and t.value.id == "self" else None


def rule_c(ctx):
    R = "C13.c"
    ctx.rule(R, "the probe is not modified: the working image is a deep copy of the probe on every path, no mutation event is rooted at the "
             "probe argument (effect summaries), and the baseline is stored as a copy")
    m = ctx.model
    k = m.cls(MOD, "ConcentrationAnalysis")
    f = m.method(k, "__call__")
    p = f.params[1]
    ctx.instance(R)
    sb = [c for c in ast.walk(f.node) if isinstance(c, ast.Call) and norm(c.func) == "self._subtract_background" and len(c.args) == 1]
    ctx.need(len(sb) == 1, f"{f.qname}: the call self._subtract_background(<working image>) was not found")
    warg = sb[0].args[0]
    if isinstance(warg, ast.Name):
        probes = [norm(s.value) for s in ast.walk(f.node) if isinstance(s, ast.Assign) and norm(s.targets[0]) == warg.id]
    else:
        probes = [norm(warg)]
    # a working image produced by a helper of the class: every value the helper returns, with the helper's parameter renamed to the probe
    def through_helper(txt):
        e = ast.parse(txt, mode="eval").body
        if isinstance(e, ast.Call) and norm(e.func).startswith("self._") and [norm(a_) for a_ in e.args] == [p]:
            h = m.method(k, e.func.attr)
            if h is not None and len(h.params) == 2:
                from ..flow import expand as _ex
                return [norm(_ex(h.node, r.value)).replace(h.params[1], p) for r in ast.walk(h.node) if isinstance(r, ast.Return) and r.value is not None]
        return [txt]
    probes = [y for x in probes for y in through_helper(x)]
    ctx.ob(R, f.qname, "working image is copy.deepcopy(probe) on every path", len(probes) >= 1 and all(v.startswith(f"copy.deepcopy({p})") for v in probes), str(probes), f.node,
           evidence=any(v.startswith((f"copy.copy({p})", f"{p}.copy()")) or v == p for v in probes))  # a shallow copy / the probe itself on some path: its array is shared
    E = Effects(m)
    ev = E.events_on(f, p)
    ctx.ob(R, f.qname, "no mutation event is rooted at the probe argument", not ev, str(ev[:3]), f.node, evidence=True)
    init = m.method(k, "__init__")
    b = [norm(s.value) for s in ast.walk(init.node) if isinstance(s, ast.Assign) and norm(s.targets[0]) == "self.base" and norm(s.value) != "None"]
    ctx.ob(R, init.qname, "baseline is stored as a copy", b == ["base[0].copy()"], str(b), init.node)
    # the baseline and the collection used for the cleaning filter are taken from the same (float-converted) list:
    # the same definitions of the list reach both stores (reaching definitions over the constructor's CFG)
    from .. import cfg as C

    g = C.CFG(init.node)
    RD, _ = C.reaching_definitions(g, init.params)
    sites = {}
    for nd in g.nodes:
        if nd.kind == "stmt" and isinstance(nd.stmt, ast.Assign) and self_attr_(nd.stmt.targets[0]) in ("base", "_base_collection") and norm(nd.stmt.value) != "None":
            names = [x.id for x in ast.walk(nd.stmt.value) if isinstance(x, ast.Name) and x.id in init.params]
            if names:
                sites[self_attr_(nd.stmt.targets[0])] = (nd, sorted(i for nme, i in RD.get(nd.id, ()) if nme == names[0]))
    ok = set(sites) == {"base", "_base_collection"} and sites["base"][1] == sites["_base_collection"][1]
    ctx.ob(R, init.qname, "self.base and self._base_collection are taken from the same definitions of the baseline list (after the float conversion)", ok,
           str({k_: [g.nodes[i].text()[:50] for i in v[1]] for k_, v in sites.items()}), init.node,
           evidence=set(sites) == {"base", "_base_collection"} and all(v[1] for v in sites.values()))  # both stores read the parameter's list, from different definitions of it
    ctx.floor(R, 1)


def rule_d(ctx):
    R = "C13.d"
    ctx.rule(R, "result packaging: metadata is the probe's metadata(); ScalarImage exactly when the result has one axis fewer than the probe, "
             "otherwise type(probe)")
    m = ctx.model
    f = m.method(m.cls(MOD, "ConcentrationAnalysis"), "__call__")
    p = f.params[1]
    ctx.instance(R)
    # the packaging may sit in __call__ or in a helper it delegates to: located by the ScalarImage constructor call
    from ..amatch import helper_closure

    hosts = [g for g in helper_closure(f) if any(isinstance(c, ast.Call) and norm(c.func) == "darsia.ScalarImage" for c in ast.walk(g.node))]
    if len(hosts) != 1:
        ctx.ob(R, f.qname, "result packaging (ScalarImage / type(probe)) found", False, "packaging code not found", f.node)
        ctx.floor(R, 1)
        return
    g = hosts[0]
    am = AM(g, params_bindable=(g is not f))
    pr = p if g is f else "probe"
    am.let("metadata", f"{pr}.metadata()")
    am.let("is_scalar", f"len(concentration.shape) == len({pr}.shape) - 1")
    t1 = am.has(g.node, "return darsia.ScalarImage(concentration, **metadata)")
    t2 = am.has(g.node, f"return type({pr})(concentration, **metadata)") if t1 is not None else None
    ctx.ob(R, g.qname, "metadata = probe.metadata(); ScalarImage(result, **metadata) resp. type(probe)(result, **metadata)", t1 is not None and t2 is not None, str(am.show()), g.node)
    conds = [n for n in ast.walk(g.node) if isinstance(n, ast.If) and am.eq(n.test, "is_scalar")]
    in_body = len(conds) == 1 and t1 is not None and any(t1 is x for x in ast.walk(ast.Module(body=conds[0].body, type_ignores=[])))
    n_ret = sum(1 for r in ast.walk(g.node) if isinstance(r, ast.Return))
    ctx.ob(R, g.qname, "scalar iff result has one axis fewer than the probe; ScalarImage when reduced, type(probe) otherwise (the only two returns)", in_body and n_ret == 2, str(am.show()), g.node)
    if g is not f:
        calls = [c for c in ast.walk(f.node) if isinstance(c, ast.Call) and isinstance(c.func, ast.Attribute) and c.func.attr == g.name]
        ctx.ob(R, f.qname, "the packaging helper receives the result and the probe", len(calls) == 1 and len(calls[0].args) == 2 and norm(calls[0].args[1]) == p, str([norm(c) for c in calls]), f.node)
    ctx.floor(R, 1)


def rule_e(ctx):
    R = "C13.e"
    ctx.rule(R, "the baseline maps to zero also with a cleaning filter: cleaning is clip(x - filter, 0, None), so the filter learnt from extra "
             "baselines must be >= 0 everywhere (for the `plain` difference the reduced differences can be negative) and >= the reduced "
             "difference of each extra baseline; find_cleaning_filter is folded on two extra baselines and the filter term is bounded "
             "from below through zeros / np.maximum / np.max / whole-array stores")
    from ..fold import Arr, Folder, Obj, Opaque, Raised, Refuse, Sym
    from ..terms import nf

    m = ctx.model
    f = m.func(MOD, "ConcentrationAnalysis.find_cleaning_filter")
    ctx.instance(R)
    fo = Folder(symbolic=True)
    fo.func_stack.append(f.node)
    fo.fold_all_methods = True   # helpers of the class that wrap the difference / reduction are followed
    fo.overrides = {"self._subtract_background": lambda a, k: Sym("S", a), "self._reduce_signal": lambda a, k: Sym("R", a)}
    imgs = [Obj(f"B{i}", {"copy": (lambda a, k, i=i: Opaque("img", f"B{i}c")), "img": Opaque("arr", f"B{i}.img")}) for i in range(3)]
    so = Obj("self", {"__class__": "ConcentrationAnalysis", "base": Obj("base", {"img": Opaque("arr", "BASE", {"shape": (4, 5, 3)})}), "_base_collection": imgs})
    args = [so] + [None if p_ == "baseline_images" else False for p_ in f.params[1:]]
    try:
        fo.call(f.node, args)
    except (Refuse, Raised) as e:
        raise AnalysisError(f"{f.qname}: outside the folding language ({e})")
    term = so.fields.get("threshold_cleaning_filter")
    ctx.need(term is not None, f"{f.qname}: self.threshold_cleaning_filter is not set for two extra baselines")
    # whole-array stores replace the value of the array they go into
    repl = {}
    for t in fo.trace:
        if isinstance(t, Sym) and t.fn == "setitem" and (t.args[1] is Ellipsis or t.args[1] == slice(None) or t.args[1] == (slice(None), slice(None))):
            repl[id(t.args[0])] = t.args[2]
        elif isinstance(t, Sym) and t.fn in ("setitem", "augitem") and t.args[0] is term:
            raise AnalysisError(f"{f.qname}: partial store into the filter: {nf(t)[:80]}")
    leaves = {f"R(S(B{i}c))" for i in (1, 2)}
    NEG = float("-inf")

    def lb(v):
        """(lower bound, leaves it is known to dominate, recognised?)"""
        if id(v) in repl:
            return lb(repl[id(v)])
        if isinstance(v, Arr):
            flat = [x for row in v.data for x in (row if isinstance(row, list) else [row])]
            return (min(flat) if flat and all(isinstance(x, (int, float)) or hasattr(x, "numerator") for x in flat) else NEG), set(), True
        if isinstance(v, (int, float)) and not isinstance(v, bool):
            return v, set(), True
        t = nf(v)
        if t in leaves:
            return NEG, {t}, True
        if isinstance(v, Sym):
            fn = v.fn if v.recv is None else (f"{v.recv.label}.{v.attr}" if isinstance(v.recv, Opaque) and v.recv.tag == "callable" else None)
            if fn in ("np.maximum", "np.fmax") and len(v.args) == 2:
                a, b = lb(v.args[0]), lb(v.args[1])
                return max(a[0], b[0]), a[1] | b[1], a[2] and b[2]
            if fn == "R" and len(v.args) >= 1 and isinstance(v.args[0], Sym) and (v.args[0].fn in ("np.maximum", "np.fmax", "np.max", "np.amax", "np.maximum.reduce") or
                                                                               (isinstance(v.args[0].recv, Opaque) and v.args[0].recv.tag == "callable" and v.args[0].attr in ("maximum", "max"))):
                # the signal reduction applied to a maximum of un-reduced differences: a channel-mixing reduction (grey value, sums of channels)
                # does not commute with the maximum, so the result need not dominate any single reduced difference -- a known shape, nothing dominated
                return NEG, set(), True
            if fn in ("np.maximum.reduce", "np.fmax.reduce") and v.args and isinstance(v.args[0], (list, tuple)) and v.kw.get("axis", 0) == 0:
                parts = [lb(x) for x in v.args[0]]
                return max(p_[0] for p_ in parts), set().union(*[p_[1] for p_ in parts]), all(p_[2] for p_ in parts)
            if fn in ("np.max", "np.amax", "np.nanmax") and v.args and isinstance(v.args[0], (list, tuple)) and v.kw.get("axis", None) == 0:
                parts = [lb(x) for x in v.args[0]]
                return max(p_[0] for p_ in parts), set().union(*[p_[1] for p_ in parts]), all(p_[2] for p_ in parts)
            if fn in ("np.asarray", "np.array", "np.copy", "np.ascontiguousarray") and len(v.args) == 1:
                return lb(v.args[0])   # conversions keep the values
            if v.recv is not None and v.attr in ("copy", "astype") and not isinstance(v.recv, Opaque):
                return lb(v.recv)
            if fn in ("np.abs", "np.absolute") and len(v.args) == 1:
                return 0, set(), True
            if fn in ("np.zeros", "np.zeros_like"):
                return 0, set(), True
            if fn == "np.clip" and len(v.args) >= 2 and isinstance(v.args[1], (int, float)):
                return v.args[1], set(), True
        return NEG, set(), False
    bound, dom, known = lb(term)
    t_txt = nf(repl.get(id(term), term))[:160]
    ctx.ob(R, f.qname, "the learnt cleaning filter is >= 0 everywhere", bound >= 0, f"filter = {t_txt}: nothing bounds it from below (a negative entry makes the baseline itself map to a positive signal)" if known else "", f.node, evidence=known)
    ctx.ob(R, f.qname, "the learnt cleaning filter dominates the reduced difference of every extra baseline", dom == leaves, f"filter = {t_txt} dominates {sorted(dom)} of {sorted(leaves)}" if known else "", f.node, evidence=known)
    ctx.floor(R, 1)


def rule_f(ctx):
    R = "C13.f"
    ctx.rule(R, "the cleaning filter is a function of the images it is learnt from: hidden-state analysis of ConcentrationAnalysis with "
             "find_cleaning_filter as entry -- every read of self.threshold_cleaning_filter is preceded by a write in the same call, so a filter "
             "determined again (set-up with update, a second set of baseline images) does not contain the previous one")
    from ..state import StateAnalysis

    m = ctx.model
    k = m.cls(MOD, "ConcentrationAnalysis")
    ctx.need("find_cleaning_filter" in k.methods, "ConcentrationAnalysis.find_cleaning_filter not found")
    sa = StateAnalysis(m, k, ["find_cleaning_filter"])
    ctx.instance(R)
    seen = set()
    for f, n, a, kind, an, chain in sa.cross_call_reads():
        if a != "threshold_cleaning_filter":
            continue   # configuration set by the constructor and the reduction / balancing objects: C13.b-d
        key = (f.qname, n.text())
        if key in seen:
            continue
        seen.add(key)
        ok, why = sa.justify(f, n, a, kind)
        ctx.ob(R, f.qname, f"read of self.{a} in `{n.text()[:60]}` does not depend on earlier calls", ok,
               f"{why}. The filter learnt before survives into the one learnt now: cleaning removes the maximum of both", an, evidence=True)
    ctx.ob(R, k.qname, "find_cleaning_filter analysed for a filter kept from earlier calls", True, "", k.node)
    ctx.floor(R, 1)


def run(ctx):
    ctx.guard(rule_f, ctx)
    ctx.guard(rule_a, ctx)
    ctx.guard(rule_b, ctx)
    ctx.guard(rule_c, ctx)
    ctx.guard(rule_d, ctx)
    ctx.guard(rule_e, ctx)
    # the result is type(probe)(array, **probe.metadata()): it carries the probe's metadata only if metadata() -> constructor is a faithful round trip (C18.a)
    from . import c18
    from .common import shared

    from . import c14 as _c14
    shared(ctx, "C13.a", _c14.rule_b, why="restoration and model stages are commonly CombinedModel objects: the documented stage order holds only if a combined model is the sequential composition of its parts for every signal (an all-zero one included)")
    shared(ctx, "C13.d", c18.rule_a, why="the result image is constructed from probe.metadata(); every key must round-trip through the constructor unchanged")
