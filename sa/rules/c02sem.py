"""Symbolic model of Image.subregion for C02.a / C02.b: the method is folded for each kind of region argument (tuple of slices with
symbolic bounds, with open bounds; VoxelArray; CoordinateArray) in 2 and 3 space dimensions, and the resulting term -- the data
block, the origin, the dimensions and the metadata handed to the new image -- is compared in normal form with the term obtained
by folding the documented construction below in the same way.  Equal normal forms mean the same result for every region and
image; unequal normal forms decide nothing (the syntactic rules of c02.py then give their own verdict)."""
from __future__ import annotations

import ast

from .. import terms
from ..fold import Folder, Obj, Opaque, Raised, Refuse, Sym
from ..terms import nf

# the documented construction: one selection, bounded to the image, feeds data, origin and extent
REFERENCE = '''
def subregion(self, roi):
    if isinstance(roi, darsia.CoordinateArray):
        box = self.coordinatesystem.voxel(roi)
        voxels = tuple(slice(max(0, np.min(box[:, d])), min(np.max(box[:, d]), self.num_voxels[d])) for d in range(self.space_dim))
    elif isinstance(roi, darsia.VoxelArray):
        voxels = tuple(slice(max(0, np.min(roi[:, d])), min(np.max(roi[:, d]), self.num_voxels[d])) for d in range(self.space_dim))
    elif isinstance(roi, tuple):
        voxels = roi
    else:
        raise ValueError
    assert len(voxels) == self.space_dim
    voxels = tuple(slice(*sl.indices(self.num_voxels[d])) for d, sl in enumerate(voxels))
    origin = self.coordinatesystem.coordinate([sl.start for sl in voxels])
    opposite = self.coordinatesystem.coordinate([sl.stop for sl in voxels])
    extent = np.abs(opposite - origin)
    dimensions = [extent[darsia.interpret_indexing("ijk"[m], "xyz"[: self.space_dim])[0]] for m in range(self.space_dim)]
    metadata = self.metadata()
    metadata["dimensions"] = dimensions
    metadata["origin"] = origin
    return type(self)(img=self.img[voxels], **metadata)
'''


def _cases(dim):
    sym = lambda n: Opaque("int", n)  # noqa: E731
    yield "slices", tuple(slice(sym(f"a{k}"), sym(f"b{k}")) for k in range(dim))
    yield "slices with open bounds", tuple(slice(None, sym(f"b{k}")) if k == 0 else slice(sym(f"a{k}"), None) for k in range(dim))
    yield "VoxelArray", Opaque("VoxelArray", "V")
    yield "CoordinateArray", Opaque("CoordinateArray", "X")


def _fold(fnode, dim, roi, ctx_func=None):
    fo = Folder(symbolic=True)
    fo.func_stack.append(ctx_func if ctx_func is not None else fnode)
    fo.fold_all_methods = True
    meta = {k: Opaque("meta", k) for k in ("space_dim", "indexing", "dimensions", "origin", "series", "scalar", "name", "date", "time")}
    so = Obj("self", {"__class__": "Image", "space_dim": dim, "indexing": "ijk"[:dim], "num_voxels": [Opaque("int", f"N{k}") for k in range(dim)], "coordinatesystem": Obj("CS", {}),
                      "img": Opaque("arr", "DATA"), "metadata": lambda a, k: dict(meta)})
    return fo.call(fnode, [so, roi])


def compare(f):
    """[(case, dim, equal?, actual normal form or reason)] -- or None when the reference itself does not fold (engine defect)."""
    ref_node = ast.parse(REFERENCE).body[0]
    out = []
    terms.ROWWISE = {"coordinate", "voxel"}
    try:
        for dim in (2, 3):
            for label, roi in _cases(dim):
                want = nf(_fold(ref_node, dim, roi, ctx_func=f.node))
                try:
                    got = nf(_fold(f.node, dim, roi))
                except Raised as e:
                    out.append((label, dim, False, f"raises {e.name}"))
                    continue
                except Refuse as e:
                    out.append((label, dim, None, f"outside the folding language: {e}"))
                    continue
                out.append((label, dim, got == want, got))
    finally:
        terms.ROWWISE = set()
    return out
