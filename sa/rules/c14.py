"""C14 -- signal-to-data models obey their defining algebra (structural clauses)."""
from __future__ import annotations

import ast
import itertools

from ..algebra import NotPolynomial, Poly, ToPoly
from ..fold import Folder, Obj, Opaque, Raised, Refuse, Sym
from ..report import AnalysisError
from ..amatch import AM
from ..srcmodel import norm
from ..state import self_attr

LEVEL = "other"
LIN = "darsia.signals.models.linearmodel"
CLIP = "darsia.signals.models.clipmodel"
COMB = "darsia.signals.models.combinedmodel"
KINT = "darsia.signals.models.kernelinterpolation"
KER = "darsia.utils.kernels"
STM = "darsia.signals.models.staticthresholdmodel"
APX = "darsia.utils.approximations"

N = 3  # block size used when folding label-wise / support-wise models


def literal_names(f):
    ann = f.node.args.args[2].annotation
    names = []
    for sub in ast.walk(ann):
        if isinstance(sub, ast.Subscript) and norm(sub.value) == "list":
            for x in ast.walk(sub.slice):
                if isinstance(x, ast.Constant) and isinstance(x.value, str):
                    names.append(x.value)
    has_all = any(isinstance(x, ast.Constant) and x.value == "all" for x in ast.walk(ann))
    return names, has_all


def rule_a(ctx):
    R = "C14.a"
    ctx.rule(R, "every documented `dofs` value updates the right parameters: update_model_parameters is folded symbolically over None, "
             "'all' and every non-empty sub-list (both orders) of the Literal names of its annotation; no documented value may raise or "
             "fall through; the single self.update(...) call passes the k-th parameter slot to the k-th selected name in declaration order")
    m = ctx.model
    models = [
        (CLIP, "ClipModel", {"min_value": 1, "max_value": 1}, {}),
        (LIN, "ScalingModel", {"scaling": 1}, {}),
        (LIN, "LinearModel", {"scaling": 1, "offset": 1}, {}),
        (LIN, "HeterogeneousLinearModel", {"scaling": N, "offset": N}, {"num_labels": N}),
        (KINT, "KernelInterpolation", {"kernel": 1, "values": N}, {"num_supports": N}),
    ]
    RETURNS = []  # (class, dofs, value returned by update_model_parameters, nominal number of parameters) where a value is returned
    for mod, cname, sizes, fields in models:
        ctx.consult(mod)
        f = m.func(mod, f"{cname}.update_model_parameters")
        names, has_all = literal_names(f)
        ctx.need(names and has_all and set(names) == set(sizes), f"{f.qname}: Literal names of the dofs annotation are {names}, expected {sorted(sizes)}")
        ctx.instance(R)
        blockwise = any(v > 1 for v in sizes.values())
        domain = [None, "all"]
        for r in range(1, len(names) + 1):
            for combo in itertools.permutations(names, r):
                domain.append(list(combo))
        for dofs in domain:
            selected = names if dofs in (None, "all") else [n for n in names if n in dofs]
            total = sum(sizes[n] for n in selected)
            params = [Sym(f"p{i}") for i in range(total)]
            me = Obj("self", dict(fields))
            fo = Folder(symbolic=True)
            label = f"{cname} dofs={dofs!r}"
            try:
                rv = fo.call(f.node, [me, params, dofs])
                if rv is not None:
                    RETURNS.append((cname, dofs, rv, sum(sizes.values())))
            except Raised as e:
                # only a `raise` statement of the code is a refusal; an exception of the fold's own making (an attribute the stand-in lacks) is not
                explicit = isinstance(e.node, ast.Raise) or e.name != "AttributeError"   # TypeError / KeyError / IndexError on concrete values are Python's own semantics
                ctx.ob(R, f.qname, f"{label}: accepted", False, f"raises {e.name} at `{norm(e.node)[:60] if e.node is not None else ''}`" + ("" if explicit else " -- raised by the fold on a stand-in, analysable form not found"),
                       e.node or f.node, evidence=explicit)
                continue
            except Refuse as e:
                raise AnalysisError(f"{f.qname} outside the folding language for dofs={dofs!r}: {e}")
            ups = [t for t in fo.trace if t.fn == "self.update"]
            ctx.ob(R, f.qname, f"{label}: exactly one self.update call", len(ups) == 1, f"calls {[t.fn for t in fo.trace]} (falls through silently)" if not ups else str(ups), f.node, evidence=False)
            if len(ups) != 1:
                continue
            kw = ups[0].kw
            want, off = {}, 0
            for n in selected:
                sz = sizes[n]
                want[n] = params[off] if (sz == 1 and not (blockwise and n != "kernel" and sizes[n] > 1)) else params[off:off + sz]
                if sizes[n] > 1:
                    want[n] = params[off:off + sz]
                off += sz
            ok = set(kw) == set(want) and all((kw[n] is want[n]) if isinstance(want[n], Sym) else (isinstance(kw[n], list) and len(kw[n]) == len(want[n]) and all(a is b for a, b in zip(kw[n], want[n]))) for n in want)
            ctx.ob(R, f.qname, f"{label}: slots routed in declaration order", ok, f"update({', '.join(f'{k}={v!r}' for k, v in kw.items())}); expected {want}", f.node)
    ctx.floor(R, 5)
    # CombinedModel routing
    f = m.func(COMB, "CombinedModel.update_model_parameters")
    ctx.consult(COMB)
    # folded symbolically on two sub-models with 2 and 3 parameters: each sub-model must be handed the parameter vector from its own offset on
    from ..fold import Folder as _F, Obj as _O, Opaque as _Op, Raised as _Ra, Refuse as _Re

    ms = [_O("m0", {"num_parameters": 2}), _O("m1", {"num_parameters": 3})]
    P = [_Op("p", f"p{i}") for i in range(5)]
    plist = lambda k: "[" + ", ".join(f"<opaque p p{i}>" for i in range(k, 5)) + "]"
    TITLE = "CombinedModel: parameters are consumed left to right, num_parameters per sub-model, in self.models order"
    fo = _F(symbolic=True)
    fo.func_stack.append(f.node)
    try:
        fo.call(f.node, [_O("self", {"models": ms}), P, None])
        got = [repr(t) for t in fo.trace if ".update_model_parameters(" in repr(t)]
        want = [f"m0.update_model_parameters({plist(0)})", f"m1.update_model_parameters({plist(2)})"]
        ctx.ob(R, f.qname, TITLE, got == want,
               f"sub-models with 2 and 3 parameters receive {got}", f.node, evidence=True)
    except (_Re, _Ra) as e:
        ctx.ob(R, f.qname, TITLE, False, f"routing not found to be foldable: {e}", f.node)
    # a list of (position, dofs) pairs: the k-th addressed sub-model reads from where the block of the (k-1)-th addressed one ends
    # (block size = its num_parameters), whatever its position in self.models
    npar = [2, 3]
    # what a sub-model's update_model_parameters hands back: nothing in the documented interface; if some class returns a number that differs
    # from its block size (a partial update reporting "1 entry read"), the routing is also folded with stand-ins that return it
    rets = [None] + sorted({rv for _, _, rv, tot in RETURNS if isinstance(rv, int) and not isinstance(rv, bool) and rv != tot})[:1]
    for order, ret in [(o, r_) for r_ in rets for o in ([1], [0, 1], [1, 0], [0], [1, 1])]:
        dofs = [(k, _Op("dofs", f"d{k}")) for k in order]
        fo = _F(symbolic=True)
        fo.func_stack.append(f.node)
        title = f"CombinedModel: dofs addressing sub-models {order}: the k-th addressed sub-model reads from the end of the block of the one addressed before"
        if ret is not None:
            who = next(f"{c_}.update_model_parameters(dofs={d_!r})" for c_, d_, rv, tot in RETURNS if rv == ret and rv != tot)
            title += f" (sub-models returning {ret}, as {who} does)"
        if True:
            ms = [_O("m0", {"num_parameters": 2, "update_model_parameters": (lambda a2, k2, fo=fo: (fo.trace.append(Sym("m0.update_model_parameters", a2, k2)), ret)[1])}),
                  _O("m1", {"num_parameters": 3, "update_model_parameters": (lambda a2, k2, fo=fo: (fo.trace.append(Sym("m1.update_model_parameters", a2, k2)), ret)[1])})]
        try:
            fo.call(f.node, [_O("self", {"models": ms}), P, dofs])
            got = [repr(t) for t in fo.trace if ".update_model_parameters(" in repr(t)]
            want, off = [], 0
            for k in order:
                want.append(f"m{k}.update_model_parameters({plist(off)}, <opaque dofs d{k}>)")
                off += npar[k]
            if len(got) == len(want) and all(g.split("(")[0] == w.split("(")[0] for g, w in zip(got, want)):
                ctx.ob(R, f.qname, title, got == want, f"receive {got}; expected {want}", f.node, evidence=True)
            else:
                ctx.ob(R, f.qname, title, False, f"routing not found to be foldable: calls {got}", f.node)
        except (_Re, _Ra) as e:
            ctx.ob(R, f.qname, title, False, f"routing not found to be foldable: {e}", f.node)
    init = m.func(COMB, "CombinedModel.__init__")
    me = _O("self", {})
    fo = _F(symbolic=True)
    fo.func_stack.append(init.node)
    env = {init.params[0]: me, init.params[1]: ms + [_O("m2", {})]}
    from ..fold import fold_stmts
    fold_stmts(fo, init.node.body, env)
    npar = me.fields.get("num_parameters")
    if isinstance(npar, int):
        ctx.ob(R, init.qname, "CombinedModel: num_parameters is the sum over the sub-models (models without parameters count 0)", npar == 5, f"sub-models with 2, 3 and no parameters give num_parameters = {npar}", init.node, evidence=True)
    else:
        ctx.ob(R, init.qname, "CombinedModel: num_parameters is the sum over the sub-models (models without parameters count 0)", False, "num_parameters not found by the symbolic fold", init.node)

def rule_b(ctx):
    R = "C14.b"
    ctx.rule(R, "a combined model is the sequential composition: __call__ threads `result` through self.models in list order, starting from a copy of the input")
    m = ctx.model
    f = m.func(COMB, "CombinedModel.__call__")
    p = f.params[1]
    ctx.instance(R)
    am = AM(f)
    first = [s for s in f.node.body if isinstance(s, ast.Assign)][:1]
    loops = [l for l in f.node.body if isinstance(l, ast.For)]
    ok = len(first) == 1 and am.eq(first[0], f"result = {p}.copy()") and len(loops) == 1 and am.eq(loops[0].iter, "self.models") and am.eq(loops[0].target, "model")
    RES, mv = am.actual("result") or "result", am.actual("model") or "model"
    calls = []
    stores = []
    if loops:
        for s in ast.walk(loops[0]):
            if isinstance(s, ast.Assign) and norm(s.targets[0]) == RES:
                stores.append(s)
                if isinstance(s.value, ast.Call) and norm(s.value.func) == mv:
                    calls.append(norm(s.value.args[0]) if s.value.args else "")
    rets = [norm(r.value) for r in ast.walk(f.node) if isinstance(r, ast.Return)]
    ctx.ob(R, f.qname, "result = img.copy(); for model in self.models: result = model(result, ...); return result", ok and calls and len(calls) == len(stores) and all(c == RES for c in calls) and rets == [RES],
           f"calls on {calls} returns {rets}", f.node)
    ctx.floor(R, 1)


def _fold_het_linear(het):
    """Fold HeterogeneousLinearModel.__call__ for two labels and an image of the labels' resolution: True when the stores into the
    zero-initialised result are exactly result[labels == L_k] = (S_k * img + O_k)[labels == L_k]; None otherwise (not decided here)."""
    from ..fold import Folder, Obj, Opaque, Raised, Refuse, Sym
    from ..terms import nf

    fo = Folder(symbolic=True)
    fo.func_stack.append(het.node)
    fo.fold_all_methods = True
    so = Obj("self", {"__class__": "HeterogeneousLinearModel", "unique_labels": [Opaque("l", "L0"), Opaque("l", "L1")], "_scaling": [Opaque("s", "S0"), Opaque("s", "S1")],
                      "_offset": [Opaque("o", "O0"), Opaque("o", "O1")], "cached_labels": Opaque("arr", "LABELS", {"shape": (4, 5)})})
    img = Opaque("arr", "IMG", {"shape": (4, 5, 3), "dtype": Opaque("dtype", "IMG.dtype")})
    try:
        r = fo.call(het.node, [so, img])
    except (Refuse, Raised):
        return None
    sets = [t for t in fo.trace if isinstance(t, Sym) and t.fn in ("setitem", "augitem")]
    from ..fold import escapes

    if escapes(fo.trace, r):
        return None
    if any(t.fn == "augitem" or t.args[0] is not r for t in sets) or nf(r) not in ("np.zeros_like(IMG, dtype=IMG.dtype)", "np.zeros(IMG.shape, dtype=IMG.dtype)", "np.zeros((4, 5, 3), dtype=IMG.dtype)"):
        return None
    got = sorted((nf(t.args[1]), nf(t.args[2])) for t in sets)
    wants = []
    for k in (0, 1):
        mk = f"(LABELS == L{k})"
        wants.append({(mk, f"((IMG * S{k}) + O{k})[{mk}]"), (mk, f"((IMG[{mk}] * S{k}) + O{k})")})
    if len(got) == 2 and all(any(g in w for g in got) for w in wants) and got[0] != got[1]:
        return True
    # evidence: the stores have the documented form but select with another relation / another mask on one side
    import re

    for mk, val in got:
        mm = re.fullmatch(r"\(LABELS (\S+) L(\d)\)", mk)
        rm = re.fullmatch(r"\(L(\d) (\S+) LABELS\)", mk)
        if mm and mm.group(1) != "==":
            return ("violated", f"label {mm.group(2)} is selected with `cached_labels {mm.group(1)} label`, not with equality")
        if rm and rm.group(2) != "==":
            return ("violated", f"label {rm.group(1)} is selected with `label {rm.group(2)} cached_labels`, not with equality")
        vm = re.fullmatch(r"(.*)\[(\(LABELS \S+ L\d\))\]", val)
        if mm and vm and vm.group(2) != mk:
            return ("violated", f"the assignment selects the destination with {mk} and the source with {vm.group(2)}")
    return None


def _fold_het_threshold(g):
    """Fold StaticThresholdModel._call_heterogeneous for two labels, without and with upper thresholds: True when the stores into the
    all-False result are result[(img > lower_k) [& (img < upper_k)] & (labels == L_k)] = True; None otherwise."""
    from ..fold import Arr, Folder, Obj, Opaque, Raised, Refuse, Sym
    from ..terms import nf

    for upper in (None, [Opaque("u", "U0"), Opaque("u", "U1")]):
        fo = Folder(symbolic=True)
        fo.func_stack.append(g.node)
        fo.fold_all_methods = True
        fo.overrides = {"np.unique": lambda a, k: [Opaque("l", "L0"), Opaque("l", "L1")] if a and nf(a[0]) == "LABELS" else Sym("np.unique", a, k)}
        so = Obj("self", {"__class__": "StaticThresholdModel", "_labels": Opaque("arr", "LABELS", {"shape": (4, 5)}),
                          "_threshold_lower": [Opaque("t", "T0"), Opaque("t", "T1")], "_threshold_upper": upper})
        try:
            r = fo.call(g.node, [so, Opaque("arr", "IMG", {"shape": (4, 5)})])
        except (Refuse, Raised):
            return None
        sets = [t for t in fo.trace if isinstance(t, Sym) and t.fn in ("setitem", "augitem")]
        from ..fold import escapes

        if escapes(fo.trace, r):
            return None
        if not isinstance(r, Arr) or tuple(r.shape) != (4, 5) or any(x not in (False, 0) for row in r.data for x in row):
            return None
        if len(sets) != 2 or any(t.fn != "setitem" or t.args[0] is not r or t.args[2] is not True for t in sets):
            return None
        got = sorted(nf(t.args[1]) for t in sets)
        want = sorted("and(" + ", ".join(sorted([f"(T{k} < IMG)", f"(LABELS == L{k})"] + ([f"(IMG < U{k})"] if upper else []))) + ")" for k in (0, 1))
        if got != want:
            return None
    return True


def rule_c(ctx):
    R = "C14.c"
    ctx.rule(R, "label-wise models use the homogeneous formula per label: the per-label expression of HeterogeneousLinearModel normalises to "
             "LinearModel's with _scaling[l], _offset[l]; mask = cached_labels == label over unique_labels in storage order; a `.shape` "
             "may only be compared with a shape; static thresholding uses the same strict operators in both variants and restricts "
             "each label's mask to labels == label; an optional mask is conjoined")
    from ..flow import expand

    m = ctx.model
    lin = m.func(LIN, "LinearModel.__call__")
    het = m.func(LIN, "HeterogeneousLinearModel.__call__")
    ctx.instance(R)
    x = Poly.atom("x")
    rets = [r.value for r in ast.walk(lin.node) if isinstance(r, ast.Return)]
    conv = ToPoly(atomize=lambda n: "x" if norm(n) == lin.params[1] else None)
    hom = conv(rets[0])
    ctx.ob(R, lin.qname, "LinearModel is scaling * x + offset", hom == Poly.atom("self._scaling") * x + Poly.atom("self._offset"), repr(hom), lin.node)
    sem_het = _fold_het_linear(het)
    if isinstance(sem_het, tuple):
        ctx.ob(R, het.qname, "mask is cached_labels == label, applied to both sides of the assignment", False, sem_het[1], het.node, evidence=True)
        sem_het = None
    if sem_het:
        # decided on the folded method (two labels): result[labels == L_k] = (scaling_k * img + offset_k)[labels == L_k], k in storage order
        ctx.ob(R, het.qname, "labels are visited as enumerate(self.unique_labels)", True, "", het.node)
        ctx.ob(R, het.qname, "mask is cached_labels == label, applied to both sides of the assignment", True, "", het.node)
        ctx.ob(R, het.qname, "per-label expression equals the homogeneous formula with _scaling[l], _offset[l]", True, "", het.node)
    else:
        loops = [l for l in ast.walk(het.node) if isinstance(l, ast.For)]
        ok_iter = len(loops) == 1 and norm(loops[0].iter) == "enumerate(self.unique_labels)"
        ctx.ob(R, het.qname, "labels are visited as enumerate(self.unique_labels)", ok_iter, norm(loops[0].iter) if loops else "", het.node)
        if loops and ok_iter and isinstance(loops[0].target, ast.Tuple) and len(loops[0].target.elts) == 2:
            cnt, lab = (norm(e) for e in loops[0].target.elts)
            env = {norm(s.targets[0]): s.value for s in loops[0].body if isinstance(s, ast.Assign) and isinstance(s.targets[0], ast.Name)}
            stores = [s for s in loops[0].body if isinstance(s, ast.Assign) and isinstance(s.targets[0], ast.Subscript)]
            val = None
            if len(stores) == 1:
                v = stores[0].value
                mk = norm(stores[0].targets[0].slice)
                mask_def = norm(env[mk]) if mk in env else ""
                if isinstance(v, ast.Subscript) and isinstance(v.value, ast.Name) and v.value.id in env:
                    val = env[v.value.id]
                    both = norm(v.slice) == mk
                elif isinstance(v, ast.Subscript) and norm(v.slice) == mk and not isinstance(v.value, ast.Name):
                    val = v.value  # (expression)[mask]
                    both = True
                else:
                    # masked right-hand side: every occurrence of the input must be restricted by the same mask
                    val = v
                    occ = [x for x in ast.walk(v) if isinstance(x, ast.Name) and x.id == het.params[1]]
                    both = bool(occ) and all(isinstance(getattr(x, "_parent", None), ast.Subscript) and x._parent.value is x and norm(x._parent.slice) == mk for x in occ)
                    masked_input = f"{het.params[1]}[{mk}]"
                mk_x = norm(expand(het.node, env[mk])) if mk in env else ""
                if mk_x not in (f"self.cached_labels == {lab}", f"{lab} == self.cached_labels") and "self.cached_labels" not in mk_x and lab in mk_x:
                    mask_def = f"label array `{mk_x}` not found to be self.cached_labels"
                else:
                    mask_def = mk_x
                ctx.ob(R, het.qname, "mask is cached_labels == label, applied to both sides of the assignment", mk_x in (f"self.cached_labels == {lab}", f"{lab} == self.cached_labels") and both, mask_def, stores[0])
            if val is not None:
                def atom(n):
                    t = norm(n)
                    if t == het.params[1] or t == f"{het.params[1]}[{mk}]":
                        return "x"
                    if t == f"self._scaling[{cnt}]":
                        return "self._scaling"
                    if t == f"self._offset[{cnt}]":
                        return "self._offset"
                    return None
                try:
                    from ..flow import expand

                    hp = ToPoly(atomize=atom)(expand(het.node, val))
                    ctx.ob(R, het.qname, "per-label expression equals the homogeneous formula with _scaling[l], _offset[l]", hp == hom, repr(hp), loops[0])
                except NotPolynomial as e:
                    raise AnalysisError(f"{het.qname}: per-label expression outside the polynomial language: {e}")
            else:
                ctx.ob(R, het.qname, "per-label expression found", False, "", het.node)
    # typed comparison: .shape only against shapes
    for f in [het]:
        for c in ast.walk(f.node):
            if isinstance(c, ast.Compare) and len(c.comparators) == 1:
                sides = [c.left, c.comparators[0]]
                kinds = ["shape" if (".shape" in norm(s) or isinstance(s, ast.Tuple)) else "other" for s in sides]
                if "shape" in kinds:
                    ctx.ob(R, f.qname, f"comparison `{norm(c)}` compares a shape with a shape", kinds == ["shape", "shape"],
                           "a shape tuple is compared with a non-shape (numpy broadcasts the comparison or raises): the guard cannot mean 'same resolution'", c, evidence=True)
    # static threshold
    ctx.consult(STM)
    h = m.func(STM, "StaticThresholdModel._call_homogeneous")
    g = m.func(STM, "StaticThresholdModel._call_heterogeneous")
    ctx.instance(R)

    def ops(fn0, p0):
        from ..amatch import helper_closure

        out = []
        for fn in helper_closure(fn0):
          pnames = set(fn.params) - {"self"} if fn is not fn0 else {p0}
          for c in ast.walk(fn.node):
            p = next((x for x in (norm(c.left), norm(c.comparators[0])) if x in pnames), None) if isinstance(c, ast.Compare) and len(c.ops) == 1 else None
            if p is not None and "threshold" in norm(c):
                # relation as seen from the signal (comparisons are stored in canonical `<` orientation)
                if norm(c.left) == p:
                    rel, bound = type(c.ops[0]).__name__, norm(c.comparators[0])
                else:
                    rel, bound = {"Lt": "Gt", "LtE": "GtE", "Gt": "Lt", "GtE": "LtE"}.get(type(c.ops[0]).__name__, type(c.ops[0]).__name__), norm(c.left)
                out.append((rel, "lower" if "lower" in bound else "upper"))
        return sorted(set(out))
    # presence of a bound is decided by `is None`, never by truth value: 0.0 is a bound
    def truth_tests(fn):
        out = []
        for x in ast.walk(fn.node):
            tests = []
            if isinstance(x, (ast.If, ast.IfExp, ast.While)):
                tests.append(x.test)
            elif isinstance(x, ast.BoolOp):
                tests.extend(x.values)
            elif isinstance(x, ast.UnaryOp) and isinstance(x.op, ast.Not):
                tests.append(x.operand)
            for t in tests:
                while isinstance(t, ast.UnaryOp) and isinstance(t.op, ast.Not):
                    t = t.operand
                if isinstance(t, ast.Attribute) and norm(t) in ("self._threshold_upper", "self._threshold_lower"):
                    out.append(t)
        return out
    for fn in m.cls(STM, "StaticThresholdModel").methods.values():
        tt = truth_tests(fn)
        if tt or fn in (h, g):
            ctx.ob(R, fn.qname, "an optional threshold is tested with `is None`, not by its truth value", not tt,
                   f"`{norm(tt[0])}` is used as a truth value: a bound of 0 (or an array of bounds) is treated as 'no bound' / raises" if tt else "", tt[0] if tt else fn.node, evidence=True)
    oh, og = ops(h, h.params[1]), ops(g, g.params[1])
    ctx.ob(R, g.qname, "both variants use strict > lower and < upper", oh == og == [("Gt", "lower"), ("Lt", "upper")], f"homogeneous {oh}, heterogeneous {og}", g.node)
    loops = [l for l in ast.walk(g.node) if isinstance(l, ast.For)]
    ok = False
    am = AM(g)
    gi = g.params[1]
    if len(loops) == 1:
        ok = am.eq(loops[0], "for i, label in enumerate(np.unique(self._labels)):\n"
                             f"    mask_i = {gi} > self._threshold_lower[i]\n"
                             "    if self._threshold_upper is not None:\n"
                             f"        mask_i = np.logical_and(mask_i, {gi} < self._threshold_upper[i])\n"
                             "    total[np.logical_and(mask_i, self._labels == label)] = True") \
            and am.has(g.node, "total = np.zeros(self._labels.shape[:2], dtype=bool)") is not None and am.has(g.node, "return total") is not None
    if not ok and _fold_het_threshold(g):
        ok = True  # decided on the folded method (two labels, with and without upper thresholds)
    ctx.ob(R, g.qname, "label i uses thresholds i and is restricted to labels == label", ok, str(am.show()), g.node)
    call = m.func(STM, "StaticThresholdModel.__call__")
    am = AM(call)
    ok = am.has(call.node, f"if self._is_homogeneous:\n    tm = self._call_homogeneous({call.params[1]})\nelse:\n    tm = self._call_heterogeneous({call.params[1]})") is not None \
        and am.has(call.node, f"return np.logical_and(tm, {call.params[2]})") is not None
    ctx.ob(R, call.qname, "an optional mask is conjoined with the threshold mask", ok, str(am.show()), call.node)
    ctx.floor(R, 2)


def rule_d(ctx):
    R = "C14.d"
    ctx.rule(R, "clipping: arrays and Images call np.clip(x, self._min_value, self._max_value) with the same bounds; the Image branch works on a copy")
    m = ctx.model
    f = m.func(CLIP, "ClipModel.__call__")
    ctx.instance(R)
    clips = [c for c in ast.walk(f.node) if isinstance(c, ast.Call) and norm(c.func) == "np.clip"]
    ok = len(clips) == 2 and all([norm(a) for a in c.args[1:]] == ["self._min_value", "self._max_value"] for c in clips)
    ctx.ob(R, f.qname, "both input kinds clip with (self._min_value, self._max_value)", ok, str([norm(c) for c in clips]), f.node)
    am = AM(f)
    br = [n for n in ast.walk(f.node) if isinstance(n, ast.If) and norm(n.test) == f"isinstance({f.params[1]}, darsia.Image)"]
    ok = len(br) == 1 and am.eq_block(br[0].body, [f"result = {f.params[1]}.copy()", "result.img = np.clip(result.img, self._min_value, self._max_value)", "return result"])
    ctx.ob(R, f.qname, "Image input: a copy is clipped and returned", ok, str(am.show()), f.node)
    ctx.floor(R, 1)


def rule_e(ctx):
    R = "C14.e"
    ctx.rule(R, "accelerated kernel sums equal the plain sums: after substituting x -> signal, y -> supports[n], self.p -> p and inlining "
             "locals, the summand of the numba loop, the n = 0 term before the loop and the kernel's __call__ have the same normal form; "
             "weights are indexed by the same n; the loop covers 1..num_supports-1; numba signatures cover signal ranks 1-3 in float32 "
             "and KernelInterpolation casts signal and weights to float32")
    m = ctx.model
    ctx.consult(KER)
    for cname, pmap in (("LinearKernel", {"self.a": "a"}), ("GaussianKernel", {"self.gamma": "gamma"})):
        k = m.cls(KER, cname)
        call = m.method(k, "__call__")
        lc = m.method(k, "linear_combination")
        ctx.instance(R)
        inner = [n for n in ast.walk(lc.node) if isinstance(n, ast.FunctionDef) and n is not lc.node]
        if not inner:
            # the compiled kernel may live at module level: the function of this module that linear_combination returns the value of
            for r_ in ast.walk(lc.node):
                if isinstance(r_, ast.Return) and isinstance(r_.value, ast.Call):
                    g_ = m.resolve_call(r_.value, lc)
                    if g_ is not None and hasattr(g_, "node") and getattr(g_, "cls", None) is None and g_.module is lc.module:
                        inner.append(g_.node)
        ctx.need(len(inner) == 1, f"{lc.qname}: numba kernel not found")
        inner = inner[0]
        sig, sup, wts = (a.arg for a in inner.args.args[:3])
        xn, yn = call.params[1], call.params[2]

        def kernel_form():
            rets = [r.value for r in ast.walk(call.node) if isinstance(r, ast.Return)]
            def atom(n):
                t = norm(n)
                if t == xn:
                    return "X"
                if t == yn:
                    return "Y"
                if t in pmap:
                    return pmap[t]
                return None
            from ..flow import expand as _ex

            return ToPoly(atomize=atom)(_ex(call.node, rets[0]))

        def loop_form(expr, env, idx):
            def atom(n):
                t = norm(n)
                if t == sig:
                    return "X"
                if t == f"{sup}[{idx}]":
                    return "Y"
                if isinstance(n, ast.Name) and n.id in env:
                    return ToPoly(atomize=atom)(env[n.id])
                return None
            return ToPoly(atomize=atom)(expr)

        try:
            kf = kernel_form()
            irets = [r.value for r in ast.walk(inner) if isinstance(r, ast.Return) and r.value is not None]
            accs = {s.target.id for s in ast.walk(inner) if isinstance(s, ast.AugAssign) and isinstance(s.target, ast.Name) and isinstance(s.op, ast.Add)}
            ctx.need(len(irets) == 1 and len(accs) == 1, f"{lc.qname}: the numba kernel has no single accumulator / return")
            OUT = next(iter(accs))

            def ret_atom(n):
                t = norm(n)
                if t == OUT:
                    return "ACC"
                if t == f"np.sum({wts})":
                    return "SUMW"
                return None
            ret_poly = ToPoly(atomize=ret_atom)(irets[0])
            tail = ret_poly - Poly.atom("ACC")
            # n = 0 term
            env0 = {}
            first = None
            for s in inner.body:
                if isinstance(s, ast.Assign) and isinstance(s.targets[0], ast.Name):
                    if s.targets[0].id == OUT:
                        first = s.value
                        break
                    env0[s.targets[0].id] = s.value
            loops = [l for l in inner.body if isinstance(l, ast.For)]
            ctx.need(first is not None and len(loops) == 1, f"{lc.qname}: output initialisation / loop not found")
            W0 = Poly.atom(f"{wts}[0]")
            f0 = loop_form(first, env0, "0")
            # a kernel-parameter constant c may be factored out of every term iff c * sum(weights) is added to the result
            c = (W0 * kf - f0) / W0
            c_ok = c.atoms() <= set(pmap.values())
            ctx.ob(R, lc.qname, f"{cname}: n = 0 term is weights[0] * kernel(signal, supports[0])", c_ok and f0 + W0 * c == W0 * kf, f"{f0!r} vs {W0 * kf!r}", inner)
            ctx.ob(R, lc.qname, f"{cname}: the value returned is the accumulated sum (plus c * sum(weights) for a constant c factored out of every term)",
                   "ACC" not in tail.atoms() and c_ok and tail == c * Poly.atom("SUMW"), f"returns {norm(irets[0])}; constant factored out of the terms: {c!r}", inner)
            lp = loops[0]
            nvar = norm(lp.target)
            envn = {}
            aug = None
            for s in lp.body:
                if isinstance(s, ast.Assign) and isinstance(s.targets[0], ast.Name):
                    envn[s.targets[0].id] = s.value
                elif isinstance(s, ast.AugAssign) and norm(s.target) == OUT and isinstance(s.op, ast.Add):
                    aug = s.value
            ctx.need(aug is not None, f"{lc.qname}: accumulation not found")
            fn = loop_form(aug, envn, nvar)
            Wn = Poly.atom(f"{wts}[{nvar}]")
            ctx.ob(R, lc.qname, f"{cname}: loop summand is weights[n] * kernel(signal, supports[n])", fn + Wn * c == Wn * kf, f"{fn!r} vs {Wn * kf!r}", lp)
            from ..flow import expand as _ex2

            it_x = norm(_ex2(inner, lp.iter))
            rng_ok = it_x in (f"range(1, len({sup}))", f"range(1, {sup}.shape[0])", f"range(1, len({wts}))", f"range(1, {wts}.shape[0])")
            starts_late = it_x.startswith("range(2") or it_x.startswith("range(0") or (it_x.startswith("range(") and "," not in it_x)
            ctx.ob(R, lc.qname, f"{cname}: loop covers n = 1 .. num_supports - 1", rng_ok, it_x if starts_late else "", lp, evidence=starts_late)
        except NotPolynomial as e:
            raise AnalysisError(f"{lc.qname}: kernel expression outside the polynomial language: {e}")
        deco = [d for d in inner.decorator_list if isinstance(d, ast.Call) and norm(d.func) in ("numba.jit", "numba.njit")]
        sigs = [e.value for d in deco for e in (d.args[0].elts if d.args and isinstance(d.args[0], ast.List) else [])]
        import re
        ranks = sorted(mm.group(1).count(":") for s in sigs for mm in [re.search(r"\((?:float32|float64)\[([:,]*)\]", s)] if mm)
        ctx.ob(R, lc.qname, f"{cname}: numba signatures cover signal ranks 1, 2, 3 in float32", ranks == [1, 2, 3] and all("float64" not in s for s in sigs), str(sigs), inner)
        rets = [r.value for r in lc.node.body if isinstance(r, ast.Return)]
        ok = len(rets) == 1 and isinstance(rets[0], ast.Call) and norm(rets[0].func) == inner.name and [norm(a) for a in rets[0].args[:3]] == lc.params[1:4] and norm(rets[0].args[3]) in pmap
        ctx.ob(R, lc.qname, f"{cname}: the numba kernel receives (signal, supports, weights, kernel parameter)", ok, norm(rets[0]) if rets else "", lc.node)
    base = m.method(m.cls(KER, "BaseKernel"), "linear_combination")
    from ..fold import Folder as _F, Obj as _O, Opaque as _Op, Raised as _Ra, Refuse as _Re

    fo = _F(symbolic=True)
    fo.func_stack.append(base.node)
    try:
        r_ = fo.call(base.node, [_O("self", {}), _Op("arr", "X"), [_Op("s", f"S{i}") for i in range(3)], [_Op("w", f"W{i}") for i in range(3)]])
        term = lambda i: f"*(<opaque w W{i}>, self.__call__(<opaque arr X>, <opaque s S{i}>))"
        want = f"+(+({term(0)}, {term(1)}), {term(2)})"
        ctx.ob(R, base.qname, "plain kernel sum: weights[0]*k(signal, supports[0]) + sum_n weights[n]*k(signal, supports[n])", repr(r_) == want,
               f"for three supports the plain sum evaluates to {r_!r}", base.node, evidence=True)
    except (_Re, _Ra) as e:
        ctx.ob(R, base.qname, "plain kernel sum: weights[0]*k(signal, supports[0]) + sum_n weights[n]*k(signal, supports[n])", False, f"plain sum not found to be foldable: {e}", base.node)
    ki = m.func(KINT, "KernelInterpolation.__call__")
    calls = [c for c in ast.walk(ki.node) if isinstance(c, ast.Call) and norm(c.func) == "self.kernel.linear_combination"]
    ok = len(calls) == 1 and [norm(a) for a in calls[0].args] == [f"{ki.params[1]}.astype(np.float32)", "self.supports", "self.interpolation_weights.astype(np.float32)"]
    ctx.ob(R, ki.qname, "KernelInterpolation casts signal and weights to float32 (supports are cast in update)", ok, str([norm(c) for c in calls]), ki.node)
    up = m.func(KINT, "KernelInterpolation.update")
    casts = [norm(s.value) for s in ast.walk(up.node) if isinstance(s, ast.Assign) and self_attr(s.targets[0]) == "supports"]
    ctx.ob(R, up.qname, "supports are stored as float32", casts and all(c.endswith(".astype(np.float32)") for c in casts), str(casts), up.node)
    ctx.floor(R, 2)


def rule_f(ctx):
    R = "C14.f"
    ctx.rule(R, "the polynomial space enumerates total degree <= d: `size` and the exponent decoding of `basis` are folded for d = 0..4 and "
             "k in range(size); the exponent set must equal {(i, j): i + j <= d} without repetition")
    m = ctx.model
    ctx.consult(APX)
    k = m.cls(APX, "PolynomialApproximationSpace")
    size = m.method(k, "size")
    basis = m.method(k, "basis")
    for d in range(5):
        ctx.instance(R)
        me = Obj("self", {"degree": d})
        try:
            sz = Folder().call(size.node, [me])
        except (Refuse, Raised) as e:
            raise AnalysisError(f"{size.qname} outside the folding language: {e}")
        want = {(i, j) for i in range(d + 1) for j in range(d + 1 - i)}
        ctx.ob(R, size.qname, f"degree {d}: size is the number of monomials of total degree <= {d}", sz == len(want), f"size {sz}, expected {len(want)}", size.node)
        got = []
        # fold the decoding statements (everything before the return) and read the exponents of x[...,0] and x[...,1]
        ret = [s for s in basis.node.body if isinstance(s, ast.Return)]
        ctx.need(len(ret) == 1, f"{basis.qname}: single return expected")
        pre = [s for s in basis.node.body if not isinstance(s, ast.Return) and not (isinstance(s, ast.Expr) and isinstance(s.value, ast.Constant))]
        exps = {}
        for nde in ast.walk(ret[0].value):
            if isinstance(nde, ast.BinOp) and isinstance(nde.op, ast.Pow) and isinstance(nde.left, ast.Subscript):
                comp = norm(nde.left.slice).split(",")[-1].strip().rstrip(")")
                exps[comp] = nde.right
        ctx.need(set(exps) == {"0", "1"}, f"{basis.qname}: expected x[..., 0] ** i * x[..., 1] ** j")
        for kk in range(sz if isinstance(sz, int) else 0):
            env = {"self": me, basis.params[2]: kk, basis.params[1]: Opaque("np.ndarray", "x")}
            fo = Folder()
            fo.func_stack.append(basis.node)
            try:
                fo.block(pre, env)
                got.append((fo.ev(exps["0"], env), fo.ev(exps["1"], env)))
            except Raised as e:
                got.append(("raise", e.name))
            except Refuse as e:
                raise AnalysisError(f"{basis.qname}: index decoding outside the folding language: {e}")
        ctx.ob(R, basis.qname, f"degree {d}: basis enumerates exactly the exponents (i, j) with i + j <= {d}, each once", set(got) == want and len(got) == len(set(got)),
               f"exponents {got}", basis.node)
    ctx.floor(R, 5)


ARGCOUNT_IDIOMS = {
    # expression (with M the model variable) -> number of its counted parameters that are NOT extra positional arguments
    "M.__call__.__code__.co_argcount": 2,            # self and the signal
    "len(signature(M).parameters)": 1,                 # bound: the signal only
    "len(inspect.signature(M).parameters)": 1,
    "len(signature(M.__call__).parameters)": 1,        # bound method
    "len(inspect.signature(M.__call__).parameters)": 1,
}


def rule_g(ctx):
    R = "C14.g"
    ctx.rule(R, "a combined model forwards to each part exactly the extra positional arguments that part accepts: the argument count is read "
             "with a recognised idiom (code object: counts self and the signal; inspect.signature of the bound model: counts the signal only) "
             "and the slice args[:count - k] uses the k that belongs to the idiom; the no-extra-argument test compares with the same k")
    m = ctx.model
    f = m.func(COMB, "CombinedModel.__call__")
    ctx.instance(R)
    loops = [l for l in f.node.body if isinstance(l, ast.For) and norm(l.iter) == "self.models" and isinstance(l.target, ast.Name)]
    ctx.need(len(loops) == 1, f"{f.qname}: loop over self.models not found")
    lp = loops[0]
    M = lp.target.id
    va = f.node.args.vararg.arg if f.node.args.vararg else None
    ctx.need(va is not None, f"{f.qname}: no *args to forward")
    cnt = [s_ for s_ in lp.body if isinstance(s_, ast.Assign) and isinstance(s_.targets[0], ast.Name)]
    slices = [x for x in ast.walk(lp) if isinstance(x, ast.Subscript) and norm(x.value) == va and isinstance(x.slice, ast.Slice)]
    ctx.need(len(slices) == 1, f"{f.qname}: slice of *{va} forwarded to the parts not found")
    up = slices[0].slice.upper
    # resolve the count expression through the loop-local assignment
    local = {s_.targets[0].id: s_.value for s_ in cnt}
    k_used, cexpr = None, None
    if isinstance(up, ast.BinOp) and isinstance(up.op, ast.Sub) and isinstance(up.right, ast.Constant):
        k_used = up.right.value
        cexpr = local.get(up.left.id, up.left) if isinstance(up.left, ast.Name) else up.left
    elif up is not None:
        k_used = 0
        cexpr = local.get(up.id, up) if isinstance(up, ast.Name) else up
    idiom = norm(cexpr).replace(M, "M") if cexpr is not None else None
    if idiom not in ARGCOUNT_IDIOMS:
        raise AnalysisError(f"{f.qname}: unrecognised way of counting the arguments of a part: `{idiom}`")
    k_want = ARGCOUNT_IDIOMS[idiom]
    ctx.ob(R, f.qname, f"extra arguments forwarded = count - {k_want} for the idiom `{idiom}`", slices[0].slice.lower is None and k_used == k_want,
           f"`{norm(slices[0])}` with `{idiom}`: a part accepting n extra arguments receives n{k_want - k_used:+d}", slices[0])
    tests = [t for t in ast.walk(lp) if isinstance(t, ast.If) and isinstance(t.test, ast.Compare) and len(t.test.ops) == 1 and isinstance(t.test.ops[0], ast.Eq)
             and isinstance(t.test.comparators[0], ast.Constant) and isinstance(t.test.left, ast.Name) and t.test.left.id in local]
    for t in tests:
        ctx.ob(R, f.qname, "the 'no extra argument' test uses the same offset", t.test.comparators[0].value == k_want, norm(t.test), t)
    # CombinedModel decides from co_argcount how many extra arguments a part receives: co_argcount counts named positional parameters only, so a model
    # whose __call__ takes its extras as *args is handed none of them (a mask is silently dropped)
    for mn_ in sorted(mm for mm in m.modules if mm.startswith("darsia.signals.models.")):
        for k_ in m.mod(mn_).classes.values():
            cf = k_.methods.get("__call__")
            if cf is None or k_.name == "CombinedModel":
                continue
            ctx.instance(R)
            va = cf.node.args.vararg
            forwards = va is not None and any(isinstance(x, ast.Starred) and isinstance(x.value, ast.Name) and x.value.id == va.arg for x in ast.walk(cf.node))
            ctx.ob(R, cf.qname, f"{k_.name}.__call__ names the extra arguments it uses (CombinedModel counts co_argcount)", not forwards,
                   f"`*{va.arg}` is forwarded inside {k_.name}.__call__: co_argcount is {len(cf.node.args.args)}, so inside a CombinedModel this part receives no extra argument although it uses them" if forwards else "",
                   cf.node, evidence=True)
    ctx.floor(R, 1)


def rule_h(ctx):
    R = "C14.h"
    ctx.rule(R, "the interpolation matrix is the full kernel matrix: X[i, j] = kernel(supports[i], supports[j]) is stored for every index pair "
             "(full square, or a triangle that includes the diagonal together with the mirrored store); the weights are X^-1 . values")
    m = ctx.model
    # the cached inverse belongs to the supports it was built from: whenever update() re-binds self.supports, the inverse is dropped -- the
    # only admissible guard is its existence (a guard on sizes / counts keeps a stale inverse for equally many different supports)
    up = m.func(KINT, "KernelInterpolation.update")
    dels = [d for d in ast.walk(up.node) if isinstance(d, ast.Delete) and any(norm(t) == "self.Xinv" for t in d.targets)]
    binds = [s_ for s_ in ast.walk(up.node) if isinstance(s_, ast.Assign) and any(norm(t) == "self.supports" for t in s_.targets)]
    if dels and binds:
        for d in dels:
            conds = []
            cur = d
            while cur is not None and cur is not up.node:
                par = getattr(cur, "_parent", None)
                if isinstance(par, ast.If) and cur in par.body:
                    conds.append(par.test)
                cur = par
            data_dep = [norm(t) for t in conds if "Xinv" in norm(t) and norm(t) not in ("hasattr(self, 'Xinv')",)]
            ctx.ob(R, up.qname, "update(): the cached inverse is dropped whenever the supports are replaced (guarded by its existence only)", not data_dep,
                   f"dropped only if `{data_dep[0][:90]}`: equally many new supports are interpolated with the inverse of the old kernel matrix" if data_dep else "", d, evidence=True)
    else:
        ctx.ob(R, up.qname, "update(): the cached inverse is dropped whenever the supports are replaced (guarded by its existence only)", False, "", up.node)
    f = m.func(KINT, "KernelInterpolation.setup_kernel_problem")
    ctx.instance(R)
    # the set-up is folded symbolically for two symbolic supports (helpers of the class are followed, statements outside the folding
    # language are skipped): it must leave X = [[k(S0,S0), k(S0,S1)], [k(S1,S0), k(S1,S1)]]
    from ..fold import Arr
    from ..fold import Sym as _Sym

    me = Obj("self", {"num_supports": 2, "supports": [Opaque("s", "S0"), Opaque("s", "S1")], "kernel": Opaque("callable", "K"), "values": Opaque("v", "V")})
    fo = Folder(symbolic=True)
    fo.fold_all_methods = True
    fo.func_stack.append(f.node)
    # the two supports are distinct: removing duplicates leaves them (and their number) as they are
    sup0 = me.fields["supports"]
    fo.overrides = {"np.unique": lambda a, k: (sup0, Opaque("idx", "IDX"), Opaque("cnt", "CNT")) if k.get("return_index") and k.get("return_counts") else sup0,
                    "np.allclose": lambda a, k: True}
    env = {f.params[0]: me}
    for st in f.node.body:
        try:
            fo.stmt(st, env)
        except (Refuse, Raised):
            pass
        if not isinstance(me.fields.get("num_supports"), int):
            me.fields["num_supports"] = 2
        if me.fields.get("supports") is not sup0 and not isinstance(me.fields.get("supports"), list):
            me.fields["supports"] = sup0
    X = me.fields.get("X")
    want = [[f"K(<opaque s S{i}>, <opaque s S{j}>)" for j in range(2)] for i in range(2)]
    if not isinstance(X, Arr):
        ctx.ob(R, f.qname, "every entry X[i, j], diagonal included, is kernel(supports[i], supports[j])", False, "assembly of self.X not found by the symbolic fold", f.node)
    else:
        got = [[repr(v) for v in row] for row in X.data]
        ctx.ob(R, f.qname, "every entry X[i, j], diagonal included, is kernel(supports[i], supports[j])", got == want,
               f"for two supports the set-up leaves X = {got}: entries that are not kernel evaluations keep the initial value of the matrix", f.node, evidence=True)
    from ..amatch import has_in_helpers

    hit, _, _ = has_in_helpers(f, "self.Xinv = np.linalg.inv(self.X)")
    ctx.ob(R, f.qname, "the inverse is taken of that matrix", hit is not None, "", f.node)
    ctx.floor(R, 1)


def rule_i(ctx):
    R = "C14.i"
    ctx.rule(R, "a model evaluation depends on the signal and the parameters only: hidden-state analysis of every model class with entry "
             "__call__ -- each read of an attribute that __call__ itself writes (the resized label cache) must be preceded by a write in the "
             "same call, be guarded by a comparison of the current key with the cache (J2), or not depend on the call (J1); in particular "
             "a cache that is refreshed from its own previous content makes the label-wise result depend on the shapes seen before")
    from ..state import StateAnalysis

    m = ctx.model
    mods = ["darsia.signals.models.clipmodel", "darsia.signals.models.linearmodel", "darsia.signals.models.combinedmodel",
            "darsia.signals.models.staticthresholdmodel", "darsia.signals.models.kernelinterpolation"]
    seen = set()
    n_cls = 0
    for mn in mods:
        ctx.consult(mn)
        for k in m.mod(mn).classes.values():
            if m.method(k, "__call__") is None:
                continue
            n_cls += 1
            sa = StateAnalysis(m, k, ["__call__"])
            ctx.stat("cfg_nodes", sa.stats["cfg_nodes"])
            for f, n, a, kind, an, chain in sa.cross_call_reads():
                key = (f.qname, a, n.text())
                if key in seen:
                    continue
                seen.add(key)
                ctx.instance(R)
                ok, why = sa.justify(f, n, a, kind)
                path = [f"L{x.line}: {x.text()[:80]}" for x in sa.witness if x.stmt is not None][:14]
                ctx.ob(R, f.qname, f"{k.name}: read of self.{a} in `{n.text()[:70]}` does not depend on earlier calls", ok,
                       f"{why}. A write-free path from the entry reaches the read, so the value returned by {' -> '.join(chain)} depends on the signals evaluated before", an, path=path, evidence=True)
    ctx.need(n_cls >= 5, "fewer than 5 model classes with __call__ found")
    ctx.floor(R, 2)


def rule_j(ctx):
    R = "C14.j"
    ctx.rule(R, "supports keep the order in which they were given: setup_kernel_problem removes duplicate supports but stores the remaining ones "
             "(and their values) in the caller's order -- np.unique returns its rows sorted, and values that arrive later without supports "
             "(update(values=...), update_model_parameters(dofs=['values']), the calibration of variable values) are in the caller's order; "
             "an inverse kernel matrix built for sorted supports would prescribe them at the wrong points")
    m = ctx.model
    f = m.func(KINT, "KernelInterpolation.setup_kernel_problem")
    ctx.instance(R)
    # folded on symbolic supports S and values V (helpers of the class followed): what is stored must be X[np.sort(first-occurrence indices of
    # np.unique(X))] for supports and values alike, X the (rounded) supports
    import re as _re

    from ..fold import Folder, Obj, Opaque, Raised, Refuse, Sym
    from ..terms import nf
    fo = Folder(symbolic=True)
    fo.func_stack.append(f.node)
    fo.fold_all_methods = True
    me = Obj("self", {"__class__": "KernelInterpolation", "supports": Opaque("arr", "S"), "values": Opaque("arr", "V"), "kernel": lambda a, k: Sym("K", a, k), "num_supports": 2})
    env = {f.params[0]: me}
    from ..fold import fold_stmts
    fold_stmts(fo, f.node.body, env)
    ts, tv = nf(me.fields.get("supports")), nf(me.fields.get("values"))
    def _last_subscript(t):
        """(base, index) of a term that ends in a subscript, bracket-matched from the right; None otherwise."""
        if not t.endswith("]"):
            return None
        depth = 0
        for k in range(len(t) - 1, -1, -1):
            depth += t[k] in ")]"
            depth -= t[k] in "(["
            if depth == 0:
                return {"x": t[:k], "i": t[k + 1:-1]} if t[k] == "[" and k > 0 else None
        return None

    class _M(dict):
        group = dict.__getitem__
    ms_ = _last_subscript(ts) if "np.unique(" in ts else None
    ms_ = _M(ms_) if ms_ else None
    if ms_ and ms_.group("i").startswith(("np.sort(np.unique(", "sorted(np.unique(")) and ms_.group("i").endswith(")[1])") and "return_index=True" in ms_.group("i") \
            and f"np.unique({ms_.group('x')}," in ms_.group("i"):
        idx = ms_.group("i")
        ctx.ob(R, f.qname, "the stored supports are in the caller's order", True, "", f.node)
        from ..fold import mentions_unknown
        ctx.ob(R, f.qname, "the values are selected with the same first-occurrence indices as the supports", tv == f"V[{idx}]",
               f"supports: {ts[:120]}; values: {tv[:120]} -- values and supports are no longer paired", f.node,
               evidence=tv.startswith("V[") and tv.endswith("]") and "unknown" not in tv and not mentions_unknown(me.fields.get("values")))  # selected, with other indices
        ctx.floor(R, 1)
        return
    if ms_ and _re.fullmatch(r"np\.unique\(.*\)\[1\]", ms_.group("i")):
        ctx.ob(R, f.qname, "the stored supports are in the caller's order", False,
               f"stored supports are {ts[:140]}: selected by np.unique's index vector as it comes, i.e. in the order of the sorted rows -- values given later "
               "without supports are multiplied with the inverse kernel matrix of the sorted supports and end up at other points", f.node, evidence=True)
        ctx.floor(R, 1)
        return
    if _re.fullmatch(r"np\.unique\(.*\)(\[0\])?", ts):
        ctx.ob(R, f.qname, "the stored supports are in the caller's order", False,
               f"stored supports are {ts[:140]}: the first result of np.unique -- the rows in sorted order; values given later without supports are "
               "multiplied with the inverse kernel matrix of the sorted supports and end up at other points", f.node, evidence=True)
        ctx.floor(R, 1)
        return
    uniq = [st for st in ast.walk(f.node) if isinstance(st, ast.Assign) and isinstance(st.value, ast.Call) and norm(st.value.func) == "np.unique"]
    if not uniq:
        ctx.ob(R, f.qname, "the stored supports are in the caller's order", False, "duplicate removal through np.unique not found", f.node)
        ctx.floor(R, 1)
        return
    st = uniq[0]
    t0 = st.targets[0].elts[0] if isinstance(st.targets[0], (ast.Tuple, ast.List)) and st.targets[0].elts else st.targets[0]
    idx_name = None
    if isinstance(st.targets[0], (ast.Tuple, ast.List)) and len(st.targets[0].elts) >= 2 and any(k.arg == "return_index" for k in st.value.keywords):
        idx_name = norm(st.targets[0].elts[1])
    sorted_to_attr = norm(t0) == "self.supports"
    # or through a local that is then stored
    if not sorted_to_attr and isinstance(t0, ast.Name) and t0.id != "_":
        sorted_to_attr = any(isinstance(a, ast.Assign) and norm(a.targets[0]) == "self.supports" and norm(a.value) == t0.id for a in ast.walk(f.node))
    if sorted_to_attr:
        ctx.ob(R, f.qname, "the stored supports are in the caller's order", False,
               f"`{norm(st)[:100]}`: the first result of np.unique -- the rows in sorted order -- becomes self.supports; values given later without supports are "
               "multiplied with the inverse kernel matrix of the sorted supports and end up at other points", st, evidence=True)
    else:
        # the index vector must be brought back to increasing order before it selects supports and values
        resorted = idx_name is not None and any(isinstance(a, ast.Assign) and norm(a.targets[0]) == idx_name and norm(a.value) in (f"np.sort({idx_name})", f"sorted({idx_name})", f"np.array(sorted({idx_name}))") for a in ast.walk(f.node))
        sel = [a for a in ast.walk(f.node) if isinstance(a, ast.Assign) and norm(a.targets[0]) in ("self.supports", "self.values") and isinstance(a.value, ast.Subscript) and norm(a.value.slice) == (idx_name or "")]
        ctx.ob(R, f.qname, "the stored supports are in the caller's order", resorted and len(sel) == 2,
               f"index vector of the first occurrences re-sorted: {resorted}; supports and values selected with it: {[norm(a)[:50] for a in sel]}", st)
    ctx.floor(R, 1)


def rule_k(ctx):
    R = "C14.k"
    ctx.rule(R, "prescribed values are replaced, never patched: in the kernel interpolation classes no element / slice store goes into the arrays "
             "of prescribed data (self.values, self.fixed_values, self.variable_values, self.supports ...) -- such an array keeps the dtype "
             "it was first given (integers `[0, 1]`), so float values stored into it later are truncated and the interpolant no longer "
             "reproduces what was prescribed")
    m = ctx.model
    n = 0
    DATA = ("values", "fixed_values", "variable_values", "supports", "fixed_supports", "variable_supports")
    for k in m.mod(KINT).classes.values():
        n += 1
        bad = []
        for f in k.methods.values():
            if not f.params:
                continue
            me = f.params[0]
            for st in ast.walk(f.node):
                tgts = st.targets if isinstance(st, ast.Assign) else ([st.target] if isinstance(st, ast.AugAssign) else [])
                for t in tgts:
                    if isinstance(t, ast.Subscript) and isinstance(t.value, ast.Attribute) and isinstance(t.value.value, ast.Name) and t.value.value.id == me and t.value.attr in DATA:
                        bad.append((f, st))
        ctx.instance(R)
        ctx.ob(R, k.qname, f"{k.name}: no element / slice store into the arrays of prescribed supports and values", not bad,
               "; ".join(f"{f.short}: `{norm(st)[:70]}`" for f, st in bad[:2]) + " -- the stored array keeps its original dtype", bad[0][1] if bad else k.node, evidence=True)
    ctx.floor(R, 2)


def rule_l(ctx):
    R = "C14.l"
    ctx.rule(R, "label-wise models pair the i-th mask with the i-th unique label: Masks.__getitem__(k) folded path-wise on a symbolic label image "
             "returns the mask labels == unique_labels[k] on every path (HeterogeneousModel iterates the masks by counter and applies the "
             "model of unique_labels[i]); a path that selects by the counter itself mismatches masks and models for label maps that are not 0..n-1")
    from ..fold import Folder, Obj, Opaque, Raised, Refuse, Sym, fold_paths
    from ..terms import nf

    m = ctx.model
    ctx.consult("darsia.utils.masks")
    k = m.cls("darsia.utils.masks", "Masks")
    f = m.method(k, "__getitem__")
    ctx.instance(R)

    def run(decide):
        so = Obj("self", {"__class__": "Masks", "labels": Obj("labels", {"img": Opaque("ndarray", "LABELS"), "metadata": lambda a, k_: {}}), "unique_labels": Opaque("ndarray", "UNIQUE"),
                          "num_labels": Opaque("int", "NUM"), "return_label": False})
        got = {}
        fo = Folder(symbolic=True)
        fo.decider = decide
        fo.func_stack.append(f.node)
        fo.fold_all_methods = True
        fo.overrides = {"darsia.Image": lambda a, k_: (got.update(k_), got.setdefault("img", a[0] if a else None), Obj("image", {}))[2],
                        "darsia.ScalarImage": lambda a, k_: (got.update(k_), got.setdefault("img", a[0] if a else None), Obj("image", {}))[2]}
        fo.call(f.node, [so, Opaque("int", "K")])
        return got.get("img")
    try:
        paths = fold_paths(run, max_paths=8)
    except Refuse as e:
        ctx.ob(R, f.qname, "Masks[k] is labels == unique_labels[k]", False, f"fold of Masks.__getitem__ not found to be possible: {e}", f.node)
        ctx.floor(R, 1)
        return
    want = ("(LABELS == UNIQUE[K])", "(UNIQUE[K] == LABELS)", "np.equal(LABELS, UNIQUE[K])")
    bad, und = [], []
    for log, r, err in paths:
        if err is not None:
            if not isinstance(err, Raised):
                und.append(repr(err))
            continue
        t = nf(r)
        if t in want:
            continue
        where = " and ".join(("" if b else "not ") + nf(c)[:40] for c, b in log) or "every path"
        if "LABELS" in t and "UNIQUE" not in t and "K" in t:
            bad.append(f"on the path {where} the mask is {t[:60]}: selected by the counter itself, not by the k-th unique label")
        else:
            und.append(f"mask {t[:60]}")
    if bad:
        ctx.ob(R, f.qname, "Masks[k] is labels == unique_labels[k]", False, "; ".join(bad[:2]), f.node, evidence=True)
    elif und:
        ctx.ob(R, f.qname, "Masks[k] is labels == unique_labels[k]", False, "mask term not found in a comparable form: " + "; ".join(und[:2]), f.node)
    else:
        ctx.ob(R, f.qname, "Masks[k] is labels == unique_labels[k]", True, "", f.node)
    ctx.floor(R, 1)


def rule_m(ctx):
    R = "C14.m"
    ctx.rule(R, "result arrays of the models hold what the models compute: an array that receives element / masked stores of model values is not "
             "allocated with the data type of the input signal (np.zeros(..., dtype=signal.dtype), np.zeros_like(signal)) -- for an integer "
             "image the float values of the sub-models would be truncated on assignment, label by label")
    m = ctx.model
    n = 0
    for mn in sorted(mm for mm in m.modules if mm.startswith("darsia.signals.models.")):
        mod = m.mod(mn)
        for f in list(mod.funcs.values()) + [g for k in mod.classes.values() for g in k.methods.values()]:
            params = set(f.params[1:] if f.cls is not None else f.params)
            allocs = {}
            for s_ in ast.walk(f.node):
                if isinstance(s_, ast.Assign) and len(s_.targets) == 1 and isinstance(s_.targets[0], ast.Name) and isinstance(s_.value, ast.Call):
                    fn = norm(s_.value.func)
                    dt = next((kw.value for kw in s_.value.keywords if kw.arg == "dtype"), None)
                    if fn in ("np.zeros", "np.empty", "np.ones", "np.full") and dt is not None and isinstance(dt, ast.Attribute) and dt.attr == "dtype" and isinstance(dt.value, ast.Name) and dt.value.id in params:
                        allocs[s_.targets[0].id] = (s_, f"dtype={norm(dt)}")
                    elif fn in ("np.zeros_like", "np.empty_like", "np.ones_like", "np.full_like") and dt is None and s_.value.args and isinstance(s_.value.args[0], ast.Name) and s_.value.args[0].id in params:
                        allocs[s_.targets[0].id] = (s_, f"{fn}({s_.value.args[0].id}) without dtype")
            for name, (st_, how) in allocs.items():
                stores = [x for x in ast.walk(f.node) if isinstance(x, ast.Assign) and isinstance(x.targets[0], ast.Subscript) and isinstance(x.targets[0].value, ast.Name) and x.targets[0].value.id == name
                          and not isinstance(x.value, ast.Constant)]
                if not stores:
                    continue
                n += 1
                ctx.instance(R)
                ctx.ob(R, f.qname, f"`{name}` receives model values and is a floating-point array", False,
                       f"`{norm(st_)[:80]}` ({how}) and `{norm(stores[0])[:70]}`: for an integer-typed signal the computed values are cast to that integer type when they are stored", st_, evidence=True)
    ctx.instance(R, 0)
    ctx.ob(R, "darsia.signals.models", "result arrays that receive masked stores scanned for allocation with the signal's dtype", True, "", None)


def run(ctx):
    ctx.guard(rule_m, ctx)
    ctx.guard(rule_l, ctx)
    ctx.guard(rule_k, ctx)
    ctx.guard(rule_j, ctx)
    ctx.guard(rule_i, ctx)
    ctx.guard(rule_a, ctx)
    ctx.guard(rule_b, ctx)
    ctx.guard(rule_c, ctx)
    ctx.guard(rule_d, ctx)
    ctx.guard(rule_e, ctx)
    ctx.guard(rule_f, ctx)
    ctx.guard(rule_g, ctx)
    ctx.guard(rule_h, ctx)
