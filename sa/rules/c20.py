"""C20 -- matrix / Cartesian axis conventions are coherent in every dimension.

Decided completely over the finite tables (DESIGN.md section 3, C20).
"""
from __future__ import annotations

import ast

from ..fold import Folder, Obj, Raised, Refuse, table
from ..report import AnalysisError
from ..srcmodel import norm

LEVEL = "proof"
MOD = "darsia.image.indexing"
CART = "xyz"
MAT = "ijk"


class Perm:
    """Signed permutation of array axes: result axis r reads source axis src[r], flipped iff flip[r]."""

    def __init__(self, n, src=None, flip=None):
        self.n = n
        self.src = list(range(n)) if src is None else list(src)
        self.flip = [False] * n if flip is None else list(flip)

    def swap(self, a, b):
        p = Perm(self.n, self.src, self.flip)
        p.src[a], p.src[b] = p.src[b], p.src[a]
        p.flip[a], p.flip[b] = p.flip[b], p.flip[a]
        return p

    def flipax(self, a):
        p = Perm(self.n, self.src, self.flip)
        p.flip[a] = not p.flip[a]
        return p

    def key(self):
        return tuple(zip(self.src, self.flip))

    def __repr__(self):
        return "[" + ", ".join(("-" if f else "+") + (MAT + "tuvw")[s] for s, f in zip(self.src, self.flip)) + "]"


class LayoutFolder(Folder):
    """Folder with the signed-permutation model of np.swapaxes / np.flip / np.transpose."""

    def _ax(self, p, a):
        if not isinstance(a, int) or not (-p.n <= a < p.n):
            raise Raised("AxisError")
        return a % p.n

    def e_Attribute(self, n, env):
        if n.attr == "ndim":
            v = self.ev(n.value, env)
            if isinstance(v, Perm):
                return v.n
        return super().e_Attribute(n, env)

    def c_np_swapaxes(self, a, kw):
        p = a[0]
        if not isinstance(p, Perm):
            raise Refuse("swapaxes of non-layout")
        return p.swap(self._ax(p, a[1]), self._ax(p, a[2]))

    def c_np_flip(self, a, kw):
        p = a[0]
        ax = a[1] if len(a) > 1 else kw.get("axis")
        if not isinstance(p, Perm) or ax is None:
            raise Refuse("flip form")
        if isinstance(ax, (tuple, list)):
            seen = set()
            for x in ax:
                k = self._ax(p, x)
                if k in seen:
                    raise Raised("ValueError", None)  # numpy: repeated axis
                seen.add(k)
                p = p.flipax(k)
            return p
        return p.flipax(self._ax(p, ax))

    def c_np_transpose(self, a, kw):
        p = a[0]
        if not isinstance(p, Perm):
            raise Refuse("transpose of non-layout")
        axes = a[1] if len(a) > 1 else kw.get("axes")
        if axes is None:
            axes = list(range(p.n))[::-1]
        axes = [self._ax(p, x) for x in axes]
        if sorted(axes) != list(range(p.n)):
            raise Raised("ValueError", None)  # numpy: axes don't match array
        return Perm(p.n, [p.src[i] for i in axes], [p.flip[i] for i in axes])

    def c_np_moveaxis(self, a, kw):
        p, s, d = a[0], a[1], a[2]
        if not isinstance(p, Perm):
            raise Refuse("moveaxis of non-layout")
        # numpy's own definition, for ints and for sequences of axes
        src_ = [self._ax(p, x) for x in (s if isinstance(s, (list, tuple)) else [s])]
        dst_ = [self._ax(p, x) for x in (d if isinstance(d, (list, tuple)) else [d])]
        if len(src_) != len(dst_) or len(set(src_)) != len(src_) or len(set(dst_)) != len(dst_):
            raise Raised("ValueError", None)
        order = [i for i in range(p.n) if i not in src_]
        for dd, ss in sorted(zip(dst_, src_)):
            order.insert(dd, ss)
        return Perm(p.n, [p.src[i] for i in order], [p.flip[i] for i in order])


def compose(outer: Perm, inner: Perm) -> Perm:
    """Layout obtained by applying `inner` first and then `outer` (outer reads inner's axes)."""
    src, flip = [], []
    for r in range(outer.n):
        s = outer.src[r]
        src.append(inner.src[s])
        flip.append(outer.flip[r] ^ inner.flip[s])
    return Perm(outer.n, src, flip)


def extract_tables(ctx):
    m = ctx.model
    ctx.consult(MOD)
    fi = m.func(MOD, "interpret_indexing").node
    fm = m.func(MOD, "to_matrix_indexing").node
    fc = m.func(MOD, "to_cartesian_indexing").node
    idxs = [CART[:d] for d in (1, 2, 3)] + [MAT[:d] for d in (1, 2, 3)]
    try:
        T_i = table(fi, [list("xyzijk"), idxs])
        T_m = table(fm, [list("xyz") + [0, 1, 2], [CART[:d] for d in (1, 2, 3)]])
        T_c = table(fc, [list("ijk") + [0, 1, 2], [MAT[:d] for d in (1, 2, 3)]])
    except Refuse as e:
        raise AnalysisError(f"indexing tables outside the folding language: {e}")
    return T_i, T_m, T_c


def rule_a(ctx, T_i, T_m, T_c):
    R = "C20.a"
    ctx.rule(R, "the three hand-written axis tables (interpret_indexing, to_matrix_indexing, "
             "to_cartesian_indexing) are extracted by folding their if/elif forests over the full "
             "finite domain and must agree: bijection per dimension, inverse permutation with equal "
             "reversal flags, letter helpers = positions of interpret_indexing, round trips")
    ctx.floor(R, 6)
    fi = ctx.model.func(MOD, "interpret_indexing")
    qi, qm, qc = (f"{MOD}.interpret_indexing", f"{MOD}.to_matrix_indexing", f"{MOD}.to_cartesian_indexing")
    blocks = {idx for (ax, idx), v in T_i.items() if v[0] == "ret"}
    ctx.instance(R, len(blocks))
    for d in (1, 2, 3):
        c, mt = CART[:d], MAT[:d]
        # identity rows
        for k in range(d):
            ctx.ob(R, qi, f"T_i({mt[k]!r},{mt!r})==({k},False)", T_i[(mt[k], mt)] == ("ret", (k, False)),
                   f"got {T_i[(mt[k], mt)]}", fi.node)
            ctx.ob(R, qi, f"T_i({c[k]!r},{c!r})==({k},False)", T_i[(c[k], c)] == ("ret", (k, False)),
                   f"got {T_i[(c[k], c)]}", fi.node)
        # bijection cartesian axis -> matrix position
        rows = [T_i[(a, mt)] for a in c]
        defined = all(r[0] == "ret" and isinstance(r[1], tuple) and len(r[1]) == 2 for r in rows)
        ctx.ob(R, qi, f"dim{d}: rows (axis in {c!r}, {mt!r}) defined", defined, str(rows), fi.node)
        if not defined:
            continue
        pos = [r[1][0] for r in rows]
        ctx.ob(R, qi, f"dim{d}: positions of {c!r} in {mt!r} form a permutation", sorted(pos) == list(range(d)),
               f"positions {pos}", fi.node)
        for k, a in enumerate(c):
            p, rev = rows[k][1]
            if not (isinstance(p, int) and 0 <= p < d):
                continue
            inv = T_i[(mt[p], c)]
            ctx.ob(R, qi, f"dim{d}: T_i({mt[p]!r},{c!r}) is the inverse of T_i({a!r},{mt!r})",
                   inv == ("ret", (k, rev)), f"forward {(p, rev)} inverse row {inv}, expected {(k, rev)}", fi.node)
            # letter helpers
            fm = ctx.model.func(MOD, "to_matrix_indexing")
            fc = ctx.model.func(MOD, "to_cartesian_indexing")
            for axis_in in (a, k):
                got = T_m[(axis_in, c)]
                ctx.ob(R, qm, f"to_matrix_indexing({axis_in!r},{c!r})=={mt[p]!r}", got == ("ret", mt[p]),
                       f"got {got}; interpret_indexing({a!r},{mt!r}) = {(p, rev)}", fm.node)
            for axis_in in (mt[p], p):
                got = T_c[(axis_in, mt)]
                ctx.ob(R, qc, f"to_cartesian_indexing({axis_in!r},{mt!r})=={a!r}", got == ("ret", a),
                       f"got {got}; interpret_indexing({mt[p]!r},{c!r}) = {T_i[(mt[p], c)]}", fc.node)
            # round trips through the helpers themselves
            tm = T_m[(a, c)]
            if tm[0] == "ret" and isinstance(tm[1], str):
                back = T_c.get((tm[1], mt), ("raise", "outside domain"))
                ctx.ob(R, qc, f"dim{d}: to_cartesian(to_matrix({a!r}))=={a!r}", back == ("ret", a), f"got {back}", fc.node)
            tc = T_c[(mt[k], mt)]
            if tc[0] == "ret" and isinstance(tc[1], str):
                back = T_m.get((tc[1], c), ("raise", "outside domain"))
                ctx.ob(R, qm, f"dim{d}: to_matrix(to_cartesian({mt[k]!r}))=={mt[k]!r}", back == ("ret", mt[k]), f"got {back}", fm.node)
    # every (axis, indexing) pair the package passes must be a defined row
    n_sites = 0
    for f in ctx.model.all_funcs():
        for call in ast.walk(f.node):
            if not isinstance(call, ast.Call):
                continue
            tgt = ctx.model.resolve_call(call, f)
            if tgt is not fi or len(call.args) != 2:
                continue
            n_sites += 1
            ctx.consult(f.module.name)
            for d in (1, 2, 3):
                vals = []
                for arg in call.args:
                    vals.append(_fold_axis_arg(arg, d))
                if None in vals:
                    continue
                axes, idx = vals
                for ax in axes:
                    for ix in idx:
                        row = T_i.get((ax, ix))
                        ctx.ob(R, f.qname, f"call {norm(call)} with dim={d}: row ({ax!r},{ix!r}) defined",
                               row is not None and row[0] == "ret", f"row {row}", call)
    ctx.instance(R + ".sites", n_sites)
    ctx.floor(R + ".sites", 20)
    ctx.stat("interpret_indexing_call_sites", n_sites)


def _fold_axis_arg(arg, d):
    """Literal / literal-slice argument of interpret_indexing for dimension d -> list of values, or None."""
    if isinstance(arg, ast.Constant) and isinstance(arg.value, str):
        return [arg.value] if len(arg.value) <= d or arg.value in ("xyz", "ijk")[:0] else [arg.value]
    # "xyz"[:dim-ish] -> the d-dimensional prefix
    if (isinstance(arg, ast.Subscript) and isinstance(arg.value, ast.Constant) and isinstance(arg.value.value, str)
            and isinstance(arg.slice, ast.Slice) and arg.slice.lower is None and arg.slice.upper is not None
            and not isinstance(arg.slice.upper, ast.Constant)):
        return [arg.value.value[:d]]
    # "ijk"[i] with a non-literal index -> any letter of the prefix
    if (isinstance(arg, ast.Subscript) and isinstance(arg.value, ast.Constant) and isinstance(arg.value.value, str)
            and not isinstance(arg.slice, (ast.Slice, ast.Constant))):
        return list(arg.value.value[:d])
    return None


def rule_b(ctx, T_i):
    R = "C20.b"
    ctx.rule(R, "matrixToCartesianIndexing folded as a signed axis permutation (model of swapaxes/flip) "
             "must equal the permutation interpret_indexing prescribes for dim 1,2,3, and "
             "cartesianToMatrixIndexing composed with it must be the identity in every dimension")
    # call sites: the helpers default to dim=2 -- a call that leaves the dimension out re-indexes a 3-d array by the 2-d rule
    n_calls = 0
    for f_ in ctx.model.all_funcs():
        for c_ in ast.walk(f_.node):
            if isinstance(c_, ast.Call) and norm(c_.func).split(".")[-1] in ("matrixToCartesianIndexing", "cartesianToMatrixIndexing") and f_.name not in ("matrixToCartesianIndexing", "cartesianToMatrixIndexing"):
                n_calls += 1
                ctx.instance(R + ".calls")
                ctx.consult(f_.module.name)
                has_dim = len(c_.args) >= 2 or any(kw.arg == "dim" for kw in c_.keywords)
                ctx.ob(R, f_.qname, f"`{norm(c_)[:60]}` passes the dimension of the array it re-indexes", has_dim,
                       "the dimension is left to its default (2): for a 3-d image the axes are swapped and flipped by the 2-d rule, cells land in the wrong voxels", c_, evidence=True)
    ctx.floor(R + ".calls", 1)
    ctx.floor(R, 3)
    fwd = ctx.model.func(MOD, "matrixToCartesianIndexing")
    bwd = ctx.model.func(MOD, "cartesianToMatrixIndexing")
    F = LayoutFolder()
    for d in (1, 2, 3):
        ctx.instance(R)
        try:
            p = F.call(fwd.node, [Perm(d), d])
        except Raised as e:
            ctx.ob(R, fwd.qname, f"dim{d}: defined", False, f"raises {e.name}", fwd.node)
            continue
        except Refuse as e:
            raise AnalysisError(f"matrixToCartesianIndexing outside the layout language: {e}")
        want_src, want_flip = [], []
        for a in CART[:d]:
            row = T_i[(a, MAT[:d])]
            if row[0] != "ret":
                break
            want_src.append(row[1][0])
            want_flip.append(row[1][1])
        else:
            want = Perm(d, want_src, want_flip)
            ctx.ob(R, fwd.qname, f"dim{d}: layout equals interpret_indexing's signed permutation",
                   isinstance(p, Perm) and p.key() == want.key(), f"helper gives {p}, table prescribes {want}", fwd.node)
            # arrays with trailing payload axes (time, components): the spatial axes are permuted as above, the payload axis stays last
            try:
                p4 = F.call(fwd.node, [Perm(d + 1), d])
                want4 = Perm(d + 1, want_src + [d], want_flip + [False])
                if isinstance(p4, Perm):
                    ctx.ob(R, fwd.qname, f"dim{d}, one trailing payload axis: the spatial axes follow the table, the payload axis stays in place", p4.key() == want4.key(),
                           f"helper gives {p4}, expected {want4}", fwd.node, evidence=True)
                q4 = F.call(bwd.node, [Perm(d + 1)] + ([d] if len(bwd.node.args.args) >= 2 else []))
                if isinstance(p4, Perm) and isinstance(q4, Perm):
                    ctx.ob(R, bwd.qname, f"dim{d}, one trailing payload axis: the two helpers are mutual inverses", compose(q4, p4).key() == Perm(d + 1).key() and compose(p4, q4).key() == Perm(d + 1).key(),
                           f"compositions are {compose(q4, p4)} and {compose(p4, q4)}", bwd.node, evidence=True)
            except (Raised, Refuse):
                pass
        # inverse
        nparams = len(bwd.node.args.args)
        try:
            q = F.call(bwd.node, [Perm(d)] + ([d] if nparams >= 2 else []))
        except Raised as e:
            ctx.ob(R, bwd.qname, f"dim{d}: inverse defined", False, f"raises {e.name}", bwd.node)
            continue
        except Refuse as e:
            raise AnalysisError(f"cartesianToMatrixIndexing outside the layout language: {e}")
        if isinstance(p, Perm) and isinstance(q, Perm):
            comp = compose(q, p)
            ctx.ob(R, bwd.qname, f"dim{d}: cartesianToMatrixIndexing o matrixToCartesianIndexing == identity",
                   comp.key() == Perm(d).key(), f"composition is {comp}", bwd.node)
            comp2 = compose(p, q)
            ctx.ob(R, bwd.qname, f"dim{d}: matrixToCartesianIndexing o cartesianToMatrixIndexing == identity",
                   comp2.key() == Perm(d).key(), f"composition is {comp2}", bwd.node)
    # every call of the inverse helper on data of dimension != 2 must pass the dimension
    for f in ctx.model.all_funcs():
        for call in ast.walk(f.node):
            if isinstance(call, ast.Call) and ctx.model.resolve_call(call, f) in (fwd, bwd):
                ctx.stat("layout_helper_call_sites")
                ctx.consult(f.module.name)


# ---- C20.c: kinds of axis values flowing from the helpers to their consumers -------------

LETTER_M, LETTER_C, INDEX, FLAG, UNKNOWN = "matrix-letter", "cartesian-letter", "matrix-or-cartesian-index", "flag", "?"


class KindFlow:
    """Forward may-analysis: which kind of axis value can a local name hold."""

    def __init__(self, ctx, func, rule):
        self.ctx, self.func, self.rule = ctx, func, rule
        self.m = ctx.model
        self.helpers = {
            self.m.func(MOD, "to_matrix_indexing"): LETTER_M,
            self.m.func(MOD, "to_cartesian_indexing"): LETTER_C,
        }
        self.interp = self.m.func(MOD, "interpret_indexing")
        self.red = [self.m.resolve_dotted("darsia.signals.reduction.dimensionreduction.reduce_axis"),
                    self.m.resolve_dotted("darsia.signals.reduction.dimensionreduction.AxisReduction")]

    def kind_of(self, e, env):
        if isinstance(e, ast.Name):
            return env.get(e.id, {UNKNOWN})
        if isinstance(e, ast.Call):
            t = self.m.resolve_call(e, self.func)
            if t in self.helpers:
                return {self.helpers[t]}
        if isinstance(e, ast.Subscript) and isinstance(e.value, ast.Call) and self.m.resolve_call(e.value, self.func) is self.interp:
            if isinstance(e.slice, ast.Constant):
                return {INDEX if e.slice.value == 0 else FLAG}
        return {UNKNOWN}

    def uses(self, e, env):
        """Check every sink inside expression e."""
        for n in ast.walk(e):
            if isinstance(n, ast.Subscript):
                idx = n.slice.elts if isinstance(n.slice, ast.Tuple) else [n.slice]
                for i in idx:
                    ks = self.kind_of(i, env)
                    for k in ks & {LETTER_M, LETTER_C}:
                        self.ctx.ob(self.rule, self.func.qname, f"subscript {norm(n)} indexed by a {k}", False,
                                    f"`{norm(i)}` may hold the letter returned by an axis-name helper and is used as an integer subscript", n)
            elif isinstance(n, ast.Compare):
                sides = [n.left] + n.comparators
                lits = [s for s in sides if isinstance(s, ast.Constant) and isinstance(s.value, int)]
                for s in sides:
                    ks = self.kind_of(s, env)
                    if lits and ks & {LETTER_M, LETTER_C}:
                        self.ctx.ob(self.rule, self.func.qname, f"comparison {norm(n)} of an axis letter with an integer", False,
                                    f"`{norm(s)}` may hold an axis letter; the comparison is silently False", n)
            elif isinstance(n, ast.Call):
                t = self.m.resolve_call(n, self.func)
                if t in self.red and t is not None:
                    # reduce_axis(image, axis, ...) / AxisReduction(axis, ...): str means Cartesian letter
                    pos = 1 if getattr(t, "name", "") == "reduce_axis" else 0
                    arg = n.args[pos] if len(n.args) > pos else next((k.value for k in n.keywords if k.arg == "axis"), None)
                    if arg is not None:
                        ks = self.kind_of(arg, env)
                        self.ctx.ob(self.rule, self.func.qname, f"{norm(n)}: axis argument is a Cartesian letter or a matrix index",
                                    LETTER_M not in ks, f"`{norm(arg)}` may hold kinds {sorted(ks)}; a str axis is interpreted as a Cartesian name", n)

    def block(self, body, env):
        for st in body:
            env = self.stmt(st, env)
        return env

    def stmt(self, st, env):
        if isinstance(st, ast.Assign):
            self.uses(st.value, env)
            for t in st.targets:
                if isinstance(t, ast.Name):
                    env = dict(env)
                    env[t.id] = self.kind_of(st.value, env)
                elif isinstance(t, ast.Tuple) and isinstance(st.value, ast.Call) and self.m.resolve_call(st.value, self.func) is self.interp:
                    env = dict(env)
                    for k, el in zip((INDEX, FLAG), t.elts):
                        if isinstance(el, ast.Name):
                            env[el.id] = {k}
                else:
                    self.uses(t, env)
            return env
        if isinstance(st, ast.If):
            self.uses(st.test, env)
            a = self.block(st.body, env)
            b = self.block(st.orelse, env)
            out = {}
            for k in set(a) | set(b):
                out[k] = a.get(k, {UNKNOWN}) | b.get(k, {UNKNOWN})
            return out
        if isinstance(st, (ast.For, ast.While)):
            e1 = self.block(st.body, env)
            merged = {k: env.get(k, {UNKNOWN}) | e1.get(k, {UNKNOWN}) for k in set(env) | set(e1)}
            e2 = self.block(st.body, merged)
            return {k: merged.get(k, {UNKNOWN}) | e2.get(k, {UNKNOWN}) for k in set(merged) | set(e2)}
        for ch in ast.iter_child_nodes(st):
            if isinstance(ch, ast.expr):
                self.uses(ch, env)
        for fld in ("body", "orelse", "finalbody"):
            sub = getattr(st, fld, None)
            if isinstance(sub, list) and sub and isinstance(sub[0], ast.stmt):
                env = self.block(sub, env)
        return env


def _fold_slice(ctx, R, slice_f, T_i):
    from ..fold import Opaque
    from ..terms import nf

    m = ctx.model
    init = m.func("darsia.image.coordinatesystem", "CoordinateSystem.__init__")
    cutp, axp = slice_f.params[1], slice_f.params[2]
    order = [p_ for p_ in slice_f.params[1:3]]
    for d in (1, 2, 3):
        for c, a in enumerate(CART[:d]):
            row = T_i[(a, MAT[:d])]
            if row[0] != "ret":
                continue
            pos = row[1][0]
            ctx.instance(R + ".slice")
            log = {}

            def voxel(a2, k2, log=log, d=d):
                log["pt"] = a2[0] if a2 else None
                return [Opaque("int", f"VOX{k}") for k in range(d)]

            def reduce(a2, k2, log=log):
                log["axis"] = a2[1] if len(a2) > 1 else k2.get("axis")
                return Obj("reduced", {})
            # the coordinate system as its constructor leaves it (statements outside the folding language are skipped)
            cs = Obj("cs")
            img0 = Obj("img", {"indexing": MAT[:d], "space_dim": d, "voxel_size": [Opaque("float", f"h{k}") for k in range(d)], "origin": Opaque("ndarray", "ORIGIN"),
                               "dimensions": [Opaque("float", f"D{k}") for k in range(d)], "img": Opaque("ndarray", "IMG", {"shape": tuple(Opaque("int", f"N{k}") for k in range(d))})})
            f0 = Folder(symbolic=True)
            f0.func_stack.append(init.node)
            env0 = {init.params[0]: cs, (init.params[1] if len(init.params) > 1 else "img"): img0}
            for st in init.node.body:
                try:
                    f0.stmt(st, env0)
                except (Refuse, Raised):
                    pass
                except Exception:
                    pass
            cs.fields.update({"voxel": voxel, "axes": CART[:d], "dim": d, "indexing": MAT[:d]})
            so = Obj("self", {"__class__": "Image", "space_dim": d, "indexing": MAT[:d], "coordinatesystem": cs, "img": Opaque("ndarray", "IMG"),
                              "origin": Opaque("ndarray", "ORIGIN")})
            fo = Folder(symbolic=True)
            fo.func_stack.append(slice_f.node)
            fo.overrides = {"darsia.reduce_axis": reduce}
            args = {cutp: Opaque("float", "CUT"), axp: a}
            try:
                r = fo.call(slice_f.node, [so] + [args[p_] for p_ in order])
            except (Refuse, Raised) as e:
                ctx.ob(R, slice_f.qname, f"dim{d} axis {a!r}: slicing by Cartesian name addresses matrix axis {pos}", False, f"fold of Image.slice not found to be possible: {e}", slice_f.node)
                continue
            got_axis = log.get("axis")
            got_img = nf(r.fields.get("img")) if isinstance(r, Obj) and "img" in r.fields else None
            want_img = "IMG[" + ":, " * pos + f"VOX{pos}]"
            if got_img is None or not isinstance(got_axis, int):
                ctx.ob(R, slice_f.qname, f"dim{d} axis {a!r}: slicing by Cartesian name addresses matrix axis {pos}", False, f"reduction axis / data subscript not found in the fold ({got_axis!r}, {got_img!r})", slice_f.node)
                continue
            ctx.ob(R, slice_f.qname, f"dim{d} axis {a!r}: slicing by Cartesian name reduces matrix axis {pos} (the one the table assigns to {a!r})", got_axis == pos,
                   f"reduce_axis is called with matrix axis {got_axis}; interpret_indexing({a!r}, {MAT[:d]!r}) gives {pos}", slice_f.node, evidence=True)
            ctx.ob(R, slice_f.qname, f"dim{d} axis {a!r}: the data is cut on matrix axis {pos} at the voxel index of that axis", got_img == want_img,
                   f"the slice is {got_img}; the table prescribes {want_img}" if got_img and got_img.startswith("IMG[") else f"data subscript not found in a comparable form: {got_img}", slice_f.node, evidence=bool(got_img and got_img.startswith("IMG[")))
    ctx.floor(R + ".slice", 6)


def rule_c(ctx, T_i):
    R = "C20.c"
    ctx.rule(R, "type-flow of axis values: a letter returned by to_matrix_indexing / to_cartesian_indexing "
             "may not be used as an integer subscript, compared with an integer, or passed as a Cartesian "
             "name when it is a matrix letter; AxisReduction.__init__ folded for str and int axis must give "
             "the same (matrix index, Cartesian axis) pair; Image.slice must exist with a str branch")
    m = ctx.model
    # (1) kind flow over every function that calls one of the helpers
    helpers = {m.func(MOD, "to_matrix_indexing"), m.func(MOD, "to_cartesian_indexing")}
    users = []
    for f in m.all_funcs():
        if f.module.name == MOD:
            continue
        if any(isinstance(c, ast.Call) and m.resolve_call(c, f) in helpers for c in ast.walk(f.node)):
            users.append(f)
    slice_f = m.func("darsia.image.image", "Image.slice")
    if slice_f not in users:
        users.append(slice_f)
    for f in users:
        ctx.consult(f.module.name)
        ctx.instance(R)
        n0 = len(ctx.obs)
        KindFlow(ctx, f, R).block(f.node.body, {})
        ctx.ob(R, f.qname, "kind-flow analysed", True, f"{len(ctx.obs) - n0} sink(s) checked", f.node)
    ctx.floor(R, 2)
    # the str branch of Image.slice must derive the matrix axis through the tables
    has_str_branch = any(
        isinstance(n, ast.Call) and isinstance(n.func, ast.Name) and n.func.id == "isinstance"
        and len(n.args) == 2 and norm(n.args[0]) == "axis" and norm(n.args[1]) == "str"
        for n in ast.walk(slice_f.node))
    ctx.need(has_str_branch, "Image.slice no longer has an isinstance(axis, str) branch")
    # the physical cut is a float: the auxiliary point it is written into must be a float array of its own (np.zeros / np.empty / np.full
    # with no or a float dtype, or an explicit float conversion) -- an array that takes its dtype from image data (the origin may be
    # integer-typed) truncates the cut on the store and the neighbouring plane is selected
    cutp = slice_f.params[1]
    for st in ast.walk(slice_f.node):
        if isinstance(st, ast.Assign) and isinstance(st.targets[0], ast.Subscript) and isinstance(st.targets[0].value, ast.Name) and norm(st.value) == cutp:
            holder = st.targets[0].value.id
            defs = [s_.value for s_ in ast.walk(slice_f.node) if isinstance(s_, ast.Assign) and any(isinstance(t, ast.Name) and t.id == holder for t in s_.targets)]
            for dv in defs:
                dt = next((norm(k.value) for k in dv.keywords if k.arg == "dtype"), None) if isinstance(dv, ast.Call) else None
                alloc = isinstance(dv, ast.Call) and norm(dv.func) in ("np.zeros", "np.empty", "np.ones", "np.full") and dt in (None, "float", "np.float64", "np.float32", "'float'")
                conv = isinstance(dv, ast.Call) and ((isinstance(dv.func, ast.Attribute) and dv.func.attr == "astype" and dv.args and norm(dv.args[0]) in ("float", "np.float64"))
                                                     or (norm(dv.func) in ("np.array", "np.asarray") and dt in ("float", "np.float64")))
                from_data = any(isinstance(x, ast.Attribute) and isinstance(x.value, ast.Name) and x.value.id == slice_f.params[0] for x in ast.walk(dv))
                ctx.ob(R, slice_f.qname, f"the point `{holder}` that receives the physical cut is a float array of its own", alloc or conv,
                       f"`{holder} = {norm(dv)[:70]}` takes its dtype from image data: with an integer-typed origin the cut coordinate is truncated on the store" if from_data and not conv else "",
                       st, evidence=from_data and not conv)
    # the whole method, folded per dimension and Cartesian axis on a symbolic image: the reduction and the data subscript must address the
    # matrix axis the table assigns to the letter, at the voxel index the coordinate system returns for that matrix axis
    _fold_slice(ctx, R, slice_f, T_i)
    # (2) AxisReduction.__init__: str and int branches agree
    ar = m.func("darsia.signals.reduction.dimensionreduction", "AxisReduction.__init__")
    ctx.consult(ar.module.name)
    fi = m.func(MOD, "interpret_indexing")

    def resolver(call):
        t = m.resolve_call(call, ar)
        return t.node if t is fi else None

    n_pairs = 0
    for d in (1, 2, 3):
        for k, a in enumerate(CART[:d]):
            res = {}
            for label, axis_in in (("str", a), ("int", None)):
                if label == "int":
                    row = T_i[(a, MAT[:d])]
                    if row[0] != "ret":
                        continue
                    axis_in = row[1][0]
                obj = Obj("self")
                try:
                    Folder(resolver).call(ar.node, [obj, axis_in, d])
                    res[label] = (obj.fields.get("index"), obj.fields.get("axis"))
                except Raised as e:
                    res[label] = ("raise", e.name)
                except Refuse as e:
                    raise AnalysisError(f"AxisReduction.__init__ outside the folding language: {e}")
            n_pairs += 1
            want = (T_i[(a, MAT[:d])][1][0], k) if T_i[(a, MAT[:d])][0] == "ret" else None
            ctx.ob(R, ar.qname, f"dim{d} axis {a!r}: str branch gives (index, axis) of the table", res.get("str") == want,
                   f"str branch {res.get('str')}, table {want}", ar.node)
            ctx.ob(R, ar.qname, f"dim{d} axis {a!r}: int and str branches agree", res.get("str") == res.get("int"),
                   f"str {res.get('str')} int {res.get('int')}", ar.node)
    ctx.instance(R + ".axisreduction", n_pairs)
    ctx.floor(R + ".axisreduction", 6)


M_ORDERED = {"num_voxels", "dimensions", "shape"}          # one entry per matrix axis (rows, columns, pages)
C_ORDERED = {"origin", "opposite_corner", "_coordinate_of_origin_voxel", "min_coordinate", "max_coordinate"}  # one entry per Cartesian axis (x, y, z)


def _letters_kind(fnode, e):
    """Kind of an indexing string expression: 'M' for matrix letters (ijk / .indexing), 'C' for Cartesian letters (xyz)."""
    from ..flow import expand

    t = norm(expand(fnode, e))
    if t.endswith(".indexing") or t.startswith(("'ijk'", "'ij'", "'i'")):
        return "M"
    if t.startswith(("'xyz'", "'xy'", "'x'")) or t.endswith(".axes"):
        return "C"
    return None


def index_kinds(f):
    """{local name: 'M' | 'C'} for locals that provably hold a matrix-axis position resp. a Cartesian-axis position."""
    kinds, clash = {}, set()

    def put(name, k):
        if k is None:
            return
        if name in kinds and kinds[name] != k:
            clash.add(name)
        kinds[name] = k

    for st in ast.walk(f.node):
        if isinstance(st, ast.Assign) and len(st.targets) == 1:
            t, v = st.targets[0], st.value
            if isinstance(v, ast.Call) and norm(v.func).endswith("interpret_indexing") and len(v.args) == 2 and isinstance(t, ast.Tuple) and t.elts and isinstance(t.elts[0], ast.Name):
                put(t.elts[0].id, _letters_kind(f.node, v.args[1]))
            elif isinstance(v, ast.Subscript) and isinstance(v.value, ast.Call) and norm(v.value.func).endswith("interpret_indexing") and len(v.value.args) == 2 \
                    and norm(v.slice) == "0" and isinstance(t, ast.Name):
                put(t.id, _letters_kind(f.node, v.value.args[1]))
            elif isinstance(v, ast.Call) and isinstance(v.func, ast.Attribute) and v.func.attr in ("find", "index") and isinstance(t, ast.Name):
                put(t.id, _letters_kind(f.node, v.func.value))
            elif isinstance(t, ast.Name) and isinstance(v, (ast.Name, ast.Attribute, ast.Subscript, ast.Call, ast.BinOp, ast.Constant, ast.IfExp)) and t.id in kinds:
                clash.add(t.id)  # re-bound to something else
        elif isinstance(st, ast.For):
            if isinstance(st.iter, ast.Call) and norm(st.iter.func) == "enumerate" and len(st.iter.args) == 1 and isinstance(st.target, ast.Tuple) and isinstance(st.target.elts[0], ast.Name):
                put(st.target.elts[0].id, _letters_kind(f.node, st.iter.args[0]))
            elif isinstance(st.target, ast.Name) and isinstance(st.iter, ast.Call) and norm(st.iter.func) == "range":
                k = st.target.id
                used = set()
                for x in ast.walk(st):
                    if isinstance(x, ast.Subscript) and isinstance(x.slice, ast.Name) and x.slice.id == k and isinstance(x.value, ast.Constant) and isinstance(x.value.value, str):
                        used.add("M" if x.value.value.startswith("i") else ("C" if x.value.value.startswith("x") else None))
                if len(used) == 1 and None not in used:
                    put(k, used.pop())
    # a name bound in several ways keeps its kind only if all agree
    stores = {}
    for n in ast.walk(f.node):
        if isinstance(n, ast.Name) and isinstance(n.ctx, ast.Store):
            stores[n.id] = stores.get(n.id, 0) + 1
    return {k: v for k, v in kinds.items() if k not in clash}


def rule_d(ctx):
    R = "C20.d"
    ctx.rule(R, "index kinds are not mixed: a local that holds a matrix-axis position (first result of interpret_indexing(letter, matrix "
             "indexing), counter of enumerate(matrix indexing), subscript of 'ijk') indexes matrix-ordered tables only (num_voxels, "
             "dimensions, shape), one that holds a Cartesian position (interpret_indexing(letter, 'xyz'...), 'xyz'.find, subscript of "
             "'xyz') indexes Cartesian-ordered vectors only (origin, opposite_corner, ...); checked where both kinds are known")
    m = ctx.model
    mods = ["darsia.image.image", "darsia.image.coordinatesystem", "darsia.image.arithmetics", "darsia.signals.reduction.dimensionreduction", "darsia.image.patches",
            "darsia.image.coordinatetransformation"]
    n = 0
    for mn in mods:
        if mn not in m.modules:
            continue
        ctx.consult(mn)
        mod = m.mod(mn)
        for f in list(mod.funcs.values()) + [g for c in mod.classes.values() for g in c.methods.values()]:
            kinds = index_kinds(f)
            if not kinds:
                continue
            for x in ast.walk(f.node):
                if isinstance(x, ast.Subscript) and isinstance(x.slice, ast.Name) and x.slice.id in kinds and isinstance(x.value, ast.Attribute):
                    cont = x.value.attr
                    if cont == "shape" and not norm(x.value.value).endswith((".img", "self", "image", "img")):
                        continue
                    order = "M" if cont in M_ORDERED else ("C" if cont in C_ORDERED else None)
                    if order is None:
                        continue
                    n += 1
                    ctx.instance(R)
                    k = kinds[x.slice.id]
                    ctx.ob(R, f.qname, f"`{norm(x)}`: a {'matrix' if order == 'M' else 'Cartesian'}-ordered table is indexed with a {'matrix' if order == 'M' else 'Cartesian'} position", k == order,
                           f"`{x.slice.id}` is a {'matrix-axis' if k == 'M' else 'Cartesian-axis'} position; `{norm(x.value)}` has one entry per {'matrix' if order == 'M' else 'Cartesian'} axis: right only where the two orders coincide", x)
    ctx.floor(R, 4)


def run(ctx):
    T_i, T_m, T_c = extract_tables(ctx)
    ctx.stat("table_rows", len(T_i) + len(T_m) + len(T_c))
    ctx.guard(rule_a, ctx, T_i, T_m, T_c)
    ctx.guard(rule_b, ctx, T_i)
    ctx.guard(rule_c, ctx, T_i)
    ctx.guard(rule_d, ctx)
    # "the coordinate system agrees with the tables": the maps of CoordinateSystem evaluated column-wise against the table (C01.b)
    from . import c01
    from .common import shared

    from . import c19 as _c19

    def _patch_axes(ctx_):
        _c19.rule_d(ctx_, ctx_.model.func(_c19.MOD, "Patches.__init__"))
    shared(ctx, "C20.c", _patch_axes, why="Patches is the in-tree consumer of to_cartesian_indexing: a length along matrix axis i must be converted with the voxel size of the Cartesian axis the helper names for i")
    from . import c11 as _c11
    shared(ctx, "C20.c", _c11.rule_axis_reduction, why="addressing an axis by Cartesian name or matrix index in a reduction (and in Image.slice, which reduces first) must drop that axis from the data, the dimensions and the origin alike")
    shared(ctx, "C20.c", c01.rule_b, why="CoordinateSystem.coordinate / voxel are the consumers of the axis table; they must place every axis where the table says")
