"""C07 -- grid numbering and connectivity (structural clauses)."""
from __future__ import annotations

import ast

from ..algebra import NotPolynomial, Poly
from ..fold import Arr, Folder, Refuse
from ..report import AnalysisError
from ..srcmodel import norm

LEVEL = "other"
MOD = "darsia.utils.grid"


def axis_slices(sub):
    """Subscript -> ({axis: (lower, upper)} for the leading explicit slices, has_ellipsis)."""
    sl = sub.slice
    elts = sl.elts if isinstance(sl, ast.Tuple) else [sl]
    out, ell = {}, False
    for i, e in enumerate(elts):
        if isinstance(e, ast.Constant) and e.value is Ellipsis:
            ell = True
            break
        if isinstance(e, ast.Slice):
            lo = norm(e.lower) if e.lower is not None else None
            hi = norm(e.upper) if e.upper is not None else None
            out[i] = (lo, hi)
        else:
            out[i] = ("idx", norm(e))
    return out, ell


def dim_guard(node, fnode):
    """The `self.dim <op> k` test of the innermost enclosing if, as text."""
    cur = node
    while cur is not None and cur is not fnode:
        par = getattr(cur, "_parent", None)
        if isinstance(par, ast.If) and ".dim" in norm(par.test) and cur in par.body:
            return norm(par.test)
        cur = par
    return None


def shifted(sub, d, kind):
    """True if the subscript is `lower part` ([:-1]) or `upper part` ([1:]) on axis d and full on the axes before."""
    m, ell = axis_slices(sub)
    want = (None, "-1") if kind == "low" else ("1", None)
    if m.get(d) != want:
        return False
    return all(m.get(k) == (None, None) for k in range(d)) and set(m) == set(range(d + 1))


def rule_a(ctx, f, gm=None):
    R = "C07.a"
    ctx.rule(R, "connectivity and its inverse are built from mirrored shifts: per axis d, column 0 is cell_index[:-1] and column 1 "
             "cell_index[1:] on axis d (full slices before, ellipsis after); reverse_connectivity[d, cells[1:], 0] and [d, "
             "cells[:-1], 1] are faces[d] (exactly the other column); default fill -1; all ravel/reshape orders are 'F'; each block "
             "is guarded by self.dim >= d+1")
    attrs = {norm(s.targets[0]): norm(s.value) for s in ast.walk(f.node) if isinstance(s, ast.Assign) and norm(s.targets[0]).startswith("self.")}
    if gm is not None:
        # decided on the folded method: the stores into both tables are, for dim 1, 2, 3 and a symbolic shape, exactly the documented ones
        sc, sr = gm.same_stores("connectivity"), gm.same_stores("reverse_connectivity")
        ic, ir, ci = gm.same_field("connectivity", "connect"), gm.same_field("reverse_connectivity", "connect"), gm.same_field("cell_index")
        if sc[0] and sr[0] and ic[0] and ir[0] and ci[0]:
            for d in range(3):
                ctx.instance(R)
                ctx.ob(R, f.qname, f"axis {d}: connectivity columns 0 / 1 are the lower / higher neighbour along axis {d} (Fortran order) and reverse_connectivity[{d}, cells, 0 / 1] "
                       "inverts columns 1 / 0 (folded for dim 1, 2, 3; terms equal the documented construction)", True, "", f.node)
            ctx.floor(R, 3)
            ctx.ob(R, f.qname, "cells are numbered in Fortran order", True, "", f.node)
            ctx.ob(R, f.qname, "'no face' is -1", True, "", f.node)
            ctx.ob(R, f.qname, "connectivity has two columns per face", True, "", f.node)
            return attrs
    conn, rev = {}, {}
    for st in ast.walk(f.node):
        if not isinstance(st, ast.Assign) or not isinstance(st.targets[0], ast.Subscript):
            continue
        t = st.targets[0]
        base = norm(t.value)
        if base == "self.connectivity" and isinstance(t.slice, ast.Tuple) and len(t.slice.elts) == 2:
            fd, col = norm(t.slice.elts[0]), norm(t.slice.elts[1])
            conn[(fd, col)] = st
        elif base == "self.reverse_connectivity" and isinstance(t.slice, ast.Tuple) and len(t.slice.elts) == 3:
            d, cells, s = t.slice.elts
            rev[(norm(d), norm(s))] = st
    for d in range(3):
        ctx.instance(R)
        for col, kind in (("0", "low"), ("1", "high")):
            st = conn.get((f"self.faces[{d}]", col))
            if st is None:
                ctx.ob(R, f.qname, f"axis {d}: connectivity column {col} is assigned", False, "store not found", f.node)
                continue
            v = st.value
            ok = (isinstance(v, ast.Call) and norm(v.func) == "np.ravel" and len(v.args) == 2 and norm(v.args[1]) == "'F'"
                  and isinstance(v.args[0], ast.Subscript) and norm(v.args[0].value) == "self.cell_index" and shifted(v.args[0], d, kind))
            ctx.ob(R, f.qname, f"axis {d}: connectivity column {col} is the {'lower' if kind == 'low' else 'higher'} neighbour along axis {d} (Fortran order)", ok, norm(v), st)
            ctx.ob(R, f.qname, f"axis {d}: connectivity block guarded by self.dim >= {d + 1}", dim_guard(st, f.node) in (f"{d + 1} <= self.dim", f"{d} < self.dim"), str(dim_guard(st, f.node)), st)
        for s, kind in (("0", "high"), ("1", "low")):
            st = rev.get((str(d), s))
            if st is None:
                ctx.ob(R, f.qname, f"axis {d}: reverse connectivity side {s} is assigned", False, "store not found", f.node)
                continue
            cells = st.targets[0].slice.elts[1]
            ok = (isinstance(cells, ast.Call) and norm(cells.func) == "np.ravel" and len(cells.args) == 2 and norm(cells.args[1]) == "'F'"
                  and isinstance(cells.args[0], ast.Subscript) and norm(cells.args[0].value) == "self.cell_index" and shifted(cells.args[0], d, kind)
                  and norm(st.value) == f"self.faces[{d}]")
            ctx.ob(R, f.qname, f"axis {d}: reverse_connectivity[{d}, cells, {s}] inverts connectivity column {1 - int(s)}", ok, norm(st)[:140], st)
            ctx.ob(R, f.qname, f"axis {d}: reverse block guarded by self.dim >= {d + 1}", dim_guard(st, f.node) in (f"{d + 1} <= self.dim", f"{d} < self.dim"), str(dim_guard(st, f.node)), st)
    ctx.floor(R, 3)
    ctx.ob(R, f.qname, "cells are numbered in Fortran order", attrs.get("self.cell_index") == "np.arange(self.num_cells, dtype=int).reshape(self.shape, order='F')", attrs.get("self.cell_index", ""), f.node)
    ctx.ob(R, f.qname, "'no face' is -1", attrs.get("self.reverse_connectivity") == "-np.ones((self.dim, self.num_cells, 2), dtype=int)", attrs.get("self.reverse_connectivity", ""), f.node)
    ctx.ob(R, f.qname, "connectivity has two columns per face", attrs.get("self.connectivity") == "np.zeros((self.num_faces, 2), dtype=int)", attrs.get("self.connectivity", ""), f.node)
    return attrs


def rule_b(ctx, f, attrs, gm=None):
    R = "C07.b"
    ctx.rule(R, "face numbering is a partition: faces[d] = sum(num_faces_per_axis[:d]) + arange(num_faces_per_axis[d]); faces_shape[d] = "
             "shape - e_d; counts are products; face_index reshapes in Fortran order; interior_faces[d] slices face_index[d] with 1:-1 "
             "on every axis but d for dim 1,2,3; exterior faces are the set difference")
    ctx.instance(R)
    if gm is not None:
        names = ("faces_shape", "num_faces_per_axis", "num_faces", "faces", "face_index", "interior_faces", "exterior_faces")
        res = {n_: gm.same_field(n_) for n_ in names}
        if all(r[0] for r in res.values()):
            for n_, what in zip(names, ("faces_shape[d] = shape - e_d", "faces per axis = prod(faces_shape)", "num_faces is their total",
                                        "faces[d] is the contiguous block after the faces of the axes before", "face_index[d] reshapes faces[d] to faces_shape[d] in Fortran order",
                                        "interior faces exclude the outer layer of every other axis (dim 1, 2, 3)", "exterior faces = faces minus interior faces, per axis")):
                ctx.ob(R, f.qname, what + " (folded for dim 1, 2, 3; term equals the documented construction)", True, "", f.node)
            ctx.instance(R, 2)
            ctx.floor(R, 3)
            return
    ctx.ob(R, f.qname, "faces_shape[d] = shape - e_d", attrs.get("self.faces_shape") == "[np.array(self.shape) - np.eye(self.dim, dtype=int)[d] for d in range(self.dim)]", attrs.get("self.faces_shape", ""), f.node)
    ctx.ob(R, f.qname, "faces per axis = prod(faces_shape)", attrs.get("self.num_faces_per_axis") == "[np.prod(s) for s in self.faces_shape]", attrs.get("self.num_faces_per_axis", ""), f.node)
    ctx.ob(R, f.qname, "num_faces is their total", attrs.get("self.num_faces") == "np.sum(self.num_faces_per_axis)", attrs.get("self.num_faces", ""), f.node)
    ctx.ob(R, f.qname, "faces[d] is the contiguous block after the faces of the axes before",
           attrs.get("self.faces") == "[sum(self.num_faces_per_axis[:d]) + np.arange(self.num_faces_per_axis[d], dtype=int) for d in range(self.dim)]", attrs.get("self.faces", ""), f.node)
    ctx.ob(R, f.qname, "face_index[d] reshapes faces[d] to faces_shape[d] in Fortran order",
           attrs.get("self.face_index") == "[self.faces[d].reshape(self.faces_shape[d], order='F') for d in range(self.dim)]", attrs.get("self.face_index", ""), f.node)
    ctx.ob(R, f.qname, "exterior faces = faces minus interior faces, per axis",
           attrs.get("self.exterior_faces") == "[np.sort(np.array(list(set(self.faces[d]) - set(self.interior_faces[d])))) for d in range(self.dim)]", attrs.get("self.exterior_faces", ""), f.node)
    n = 0
    for st in ast.walk(f.node):
        if isinstance(st, ast.Assign) and norm(st.targets[0]) == "self.interior_faces" and isinstance(st.value, ast.List) and st.value.elts:
            g = dim_guard(st, f.node)
            dim = len(st.value.elts)
            n += 1
            ctx.instance(R)
            ctx.ob(R, f.qname, f"dim {dim}: interior faces listed under self.dim == {dim}", g == f"self.dim == {dim}", str(g), st)
            for d, e in enumerate(st.value.elts):
                ok = False
                if isinstance(e, ast.Call) and norm(e.func) == "np.ravel" and len(e.args) == 2 and norm(e.args[1]) == "'F'" and isinstance(e.args[0], ast.Subscript):
                    sub = e.args[0]
                    m, ell = axis_slices(sub)
                    # necessary for "all tangential neighbours exist": the outer layer of every axis other than the
                    # normal axis is excluded; the slice on the normal axis itself is a convention the property leaves open
                    others = all(m.get(k) == ("1", "-1") for k in range(dim) if k != d)
                    ok = norm(sub.value) == f"self.face_index[{d}]" and others and set(m) <= set(range(dim)) and not ell \
                        and m.get(d, (None, None)) in ((None, None), ("1", "-1"))
                ctx.ob(R, f.qname, f"dim {dim}, axis {d}: interior faces exclude the outer layer of every other axis", ok, norm(e), st)
    ctx.floor(R, 3)


def rule_c(ctx, f, gm=None):
    R = "C07.c"
    ctx.rule(R, "corner indices lie on the face: the literal cell_corners tables (dim 1,2,3) and every literal store "
             "cell_corner_indices[faces[d], side, n] = c are extracted; corner c has coordinate 1 on axis d for side 0 (lower cell) and 0 "
             "for side 1; the 2^(dim-1) corners per (d, side) are distinct and complete; quadrature.reference_cell_corners lists the "
             "same corners in the same order")
    corners = {}
    stores = {}
    sem_tables = gm.corner_tables() if gm is not None else None
    if sem_tables is not None:
        # read off the folded object: however the tables are written (literal stores, broadcast rows, helper methods)
        corners = sem_tables[0]
        for k_, ent_ in sem_tables[1].items():
            stores[k_] = {n_: (c_, f.node) for n_, c_ in ent_.items()}
    for st in (ast.walk(f.node) if sem_tables is None else ()):
        if not isinstance(st, ast.Assign):
            continue
        t = norm(st.targets[0])
        g = dim_guard(st, f.node)
        if t == "self.cell_corners" and g and g.startswith("self.dim == "):
            dim = int(g.split("== ")[1])
            try:
                v = Folder().ev(st.value, {})
            except Refuse as e:
                raise AnalysisError(f"cell_corners literal outside the folding language: {e}")
            corners[dim] = [[int(x) for x in row] for row in v.data]
        elif t.startswith("self.cell_corner_indices[") and isinstance(st.targets[0].slice, ast.Tuple) and g and g.startswith("self.dim == "):
            dim = int(g.split("== ")[1])
            fd, side, n = st.targets[0].slice.elts
            if not (isinstance(side, ast.Constant) and isinstance(n, ast.Constant) and isinstance(st.value, ast.Constant) and norm(fd).startswith("self.faces[")):
                raise AnalysisError(f"non-literal cell_corner_indices store: {norm(st)}")
            d = int(norm(fd)[len("self.faces["):-1])
            stores.setdefault((dim, d, side.value), {})[n.value] = (st.value.value, st)
    ctx.need(set(corners) == {1, 2, 3}, f"cell_corners tables found for dims {sorted(corners)}")
    n_st = sum(len(v) for v in stores.values())
    ctx.instance(R, n_st)
    ctx.floor(R, 34)
    for dim in (1, 2, 3):
        cs = corners[dim]
        ctx.ob(R, f.qname, f"dim {dim}: cell_corners are the 2^{dim} distinct vertices", len(cs) == 2 ** dim and len({tuple(c) for c in cs}) == 2 ** dim and all(x in (0, 1) for c in cs for x in c), str(cs), f.node)
        for d in range(dim):
            for side in (0, 1):
                ent = stores.get((dim, d, side), {})
                want_coord = 1 if side == 0 else 0
                idxs = [ent[k][0] for k in sorted(ent)]
                for k in sorted(ent):
                    c, st = ent[k]
                    ok = 0 <= c < len(cs) and cs[c][d] == want_coord
                    ctx.ob(R, f.qname, f"dim {dim} axis {d} side {side} entry {k}: corner {c} lies on the face", ok, f"corner {c} = {cs[c] if 0 <= c < len(cs) else '?'}; needs coordinate {want_coord} on axis {d}", st)
                full = sorted(i for i, c in enumerate(cs) if c[d] == want_coord)
                ctx.ob(R, f.qname, f"dim {dim} axis {d} side {side}: the {2 ** (dim - 1)} corners of the face, each once", sorted(idxs) == full and sorted(ent) == list(range(2 ** (dim - 1))),
                       f"listed {idxs}, face corners {full}", f.node)
    # sibling: quadrature.reference_cell_corners
    q = ctx.model.func("darsia.utils.quadrature", "reference_cell_corners")
    ctx.consult("darsia.utils.quadrature")
    for dim in (1, 2, 3):
        try:
            v = Folder().call(q.node, [dim])
            qc = [[int(x) for x in row] for row in v[0].data]
        except Exception as e:
            raise AnalysisError(f"reference_cell_corners({dim}) outside the folding language: {e}")
        ctx.ob(R, q.qname, f"dim {dim}: same corners in the same order as Grid.cell_corners", qc == corners[dim], f"{qc} vs {corners[dim]}", q.node)
    alloc = [norm(s.value) for s in ast.walk(f.node) if isinstance(s, ast.Assign) and norm(s.targets[0]) == "self.cell_corner_indices"]
    if gm is not None and gm.same_field("cell_corner_indices", "connect")[0]:
        ctx.ob(R, f.qname, "table has 2^(dim-1) corners per face and side", True, "", f.node)
        return
    ctx.ob(R, f.qname, "table has 2^(dim-1) corners per face and side", alloc == ["np.zeros((self.num_faces, 2, 2 ** (self.dim - 1)), dtype=int)"], str(alloc), f.node)


def _factors(t):
    """Factors of a product term: np.prod over a literal array / list, nested `*`; ones dropped.  None if t is no such product."""
    from ..fold import Arr, Opaque, Sym, is_num

    if isinstance(t, Opaque):
        return [t]
    if is_num(t):
        return [] if t == 1 else None
    if isinstance(t, Sym) and t.fn in ("np.prod", "math.prod") and len(t.args) == 1 and not t.kw:
        x = t.args[0]
        xs = x.flat() if isinstance(x, Arr) else (list(x) if isinstance(x, (list, tuple)) else None)
        if xs is None:
            return None
        out = []
        for v in xs:
            f = _factors(v)
            if f is None:
                return None
            out += f
        return out
    if isinstance(t, Sym) and t.fn == "*" and t.recv is None:
        out = []
        for v in t.args:
            f = _factors(v)
            if f is None:
                return None
            out += f
        return out
    return None


def _poly_of(t):
    from ..fold import Arr, Opaque, Sym, is_num

    if isinstance(t, Opaque):
        return Poly.atom(t.label)
    if is_num(t) and int(t) == t:
        return Poly.const(int(t))
    if isinstance(t, Sym) and t.fn in ("np.prod", "math.prod") and len(t.args) == 1 and not t.kw:
        x = t.args[0]
        xs = x.flat() if isinstance(x, Arr) else (list(x) if isinstance(x, (list, tuple)) else [x])
        out = Poly.const(1)
        for v in xs:
            out = out * _poly_of(v)
        return out
    if isinstance(t, Sym) and t.fn in ("+", "-", "*", "/") and len(t.args) == 2 and t.recv is None:
        a, b = _poly_of(t.args[0]), _poly_of(t.args[1])
        return {"+": lambda: a + b, "-": lambda: a - b, "*": lambda: a * b, "/": lambda: a / b}[t.fn]()
    raise NotPolynomial(repr(t))


def _grid_init(ctx, R, m, init):
    """Grid.__init__ folded on a symbolic shape (1-3 axes) and voxel sizes given as a list resp. as one scalar, with _setup replaced by a stub
    that hands out one token per table it assigns: dim, voxel sizes and face areas are compared with the documented values, and no table
    may be touched after set-up."""
    from ..fold import Arr, Folder, Obj, Opaque, Raised, Refuse, Sym
    from ..terms import nf

    setup = m.func(MOD, "Grid._setup")
    tables = sorted({t.attr for s_ in ast.walk(setup.node) if isinstance(s_, (ast.Assign, ast.AnnAssign, ast.AugAssign))
                     for t in (s_.targets if isinstance(s_, ast.Assign) else [s_.target])
                     if isinstance(t, ast.Attribute) and isinstance(t.value, ast.Name) and t.value.id == setup.params[0]})
    ctx.need(len(tables) >= 8, "Grid._setup: fewer than 8 tables assigned")
    for d in (1, 2, 3):
        for mode in ("list", "scalar"):
            ctx.instance(R)
            so = Obj("self", {"__class__": "Grid"})
            state = {}

            def stub(a, k, so=so, state=state):
                state["before"] = dict(so.fields)
                for tname in tables:
                    so.fields[tname] = Opaque("table", tname)
                state["tokens"] = {tname: so.fields[tname] for tname in tables}
                return None
            so.fields["_setup"] = stub
            fo = Folder(symbolic=True)
            fo.func_stack.append(init.node)
            fo.fold_all_methods = True
            shape = [Opaque("int", f"N{k}") for k in range(d)]
            hs = [Opaque("float", f"h{k}") for k in range(d)]
            vs = list(hs) if mode == "list" else Opaque("float", "H")
            what = f"dim {d}, voxel sizes given as a {mode}"
            try:
                fo.call(init.node, [so, shape, vs])
            except (Refuse, Raised) as e:
                ctx.ob(R, init.qname, f"{what}: constructor folds", False, f"fold of Grid.__init__ not found to be possible: {e}", init.node)
                continue
            if "before" not in state:
                ctx.ob(R, init.qname, f"{what}: the constructor calls _setup", False, "call of self._setup not found in the fold", init.node)
                continue
            F = so.fields
            ctx.ob(R, init.qname, f"{what}: dim = number of axes of the shape", F.get("dim") == d, f"dim = {nf(F.get('dim'))}" if isinstance(F.get("dim"), int) else f"dim not found as a number: {nf(F.get('dim'))[:60]}", init.node, evidence=isinstance(F.get("dim"), int))
            want_h = hs if mode == "list" else [vs] * d
            got_h = F.get("voxel_size")
            got_l = got_h.flat() if isinstance(got_h, Arr) else (list(got_h) if isinstance(got_h, (list, tuple)) else None)
            shape_dep = lambda t: any(f"N{k}" in nf(t) for k in range(d))  # noqa: E731
            if got_l is not None and len(got_l) == d and all(x is y for x, y in zip(got_l, want_h)):
                ctx.ob(R, init.qname, f"{what}: voxel_size holds one size per axis, as passed", True, "", init.node)
            else:
                ctx.ob(R, init.qname, f"{what}: voxel_size holds one size per axis, as passed", False,
                       f"voxel_size = {nf(got_h)[:120]}" + ("; it depends on the number of cells" if shape_dep(got_h) else " -- per-axis sizes not found in this form"), init.node, evidence=shape_dep(got_h))
            fv = F.get("face_vol")
            fv_l = fv.data if isinstance(fv, Arr) else (list(fv) if isinstance(fv, (list, tuple)) else None)
            for ax in range(d):
                want = [want_h[k] for k in range(d) if k != ax]
                t = fv_l[ax] if fv_l is not None and len(fv_l) == d else None
                fac = _factors(t) if t is not None else None
                ok = fac is not None and sorted(map(id, fac)) == sorted(map(id, want))
                if fac is None and t is not None:
                    # quotient forms: compared as Laurent polynomials
                    try:
                        pw = Poly.const(1)
                        for x in want:
                            pw = pw * Poly.atom(x.label)
                        ok = _poly_of(t) == pw
                        fac = []
                    except NotPolynomial:
                        pass
                dep = t is not None and shape_dep(t)
                ctx.ob(R, init.qname, f"{what}: face_vol[{ax}] is the product of the voxel sizes of the other axes", ok,
                       (f"face_vol[{ax}] = {nf(t)[:140]}" + ("; a face area that depends on the number of cells (single-cell axes lose their extent)" if dep else
                                                            (f"; the other axes have sizes {[nf(x) for x in want]}" if fac is not None else " -- product of the other sizes not found in this form"))) if t is not None else "face_vol not found", init.node,
                       evidence=dep or fac is not None)
            # nothing is touched after set-up
            changed = [tname for tname in tables if F.get(tname) is not state["tokens"][tname]]
            changed += [kk for kk, vv in state["before"].items() if kk in ("dim", "shape", "voxel_size", "face_vol") and F.get(kk) is not vv]
            ctx.ob(R, init.qname, f"{what}: the constructor leaves the tables of _setup (and what it computed before) as they are", not changed,
                   "; ".join(f"self.{tname} is re-stored as {nf(F.get(tname))[:90]}" for tname in changed[:3]) + " -- a conversion after set-up (narrower dtype, copy with other values) changes the 'no face' marker -1 and large indices", init.node, evidence=True)

def _generate_grid(ctx, R, m, g, init):
    """generate_grid folded on a symbolic image of 1-3 dimensions (num_voxels and voxel_size per matrix axis, the coordinate system's
    per-Cartesian-axis dictionary consistent with the axis table), the Grid constructor folded on the arguments it is handed: the grid
    must get the image's voxel counts as its shape and, per matrix axis, the image's voxel size."""
    from ..fold import Arr, Folder, Obj, Opaque, Raised, Refuse
    from ..terms import nf
    from . import c20

    T_i, _, _ = c20.extract_tables(ctx)
    setup = m.func(MOD, "Grid._setup")
    for d in (1, 2, 3):
        ctx.instance(R)
        N = [Opaque("int", f"N{k}") for k in range(d)]
        h = [Opaque("float", f"h{k}") for k in range(d)]
        cs_vs = {}
        for a in "xyz"[:d]:
            row = T_i[(a, "ijk"[:d])]
            if row[0] == "ret":
                cs_vs[a] = h[row[1][0]]
        image = Obj("image", {"__class__": "Image", "num_voxels": N, "voxel_size": h, "space_dim": d, "indexing": "ijk"[:d], "shape": tuple(N),
                              "dimensions": [Opaque("float", f"D{k}") for k in range(d)],
                              "img": Opaque("ndarray", "IMG", {"shape": tuple(N)}),
                              "coordinatesystem": Obj("cs", {"voxel_size": cs_vs, "axes": "xyz"[:d], "dim": d, "indexing": "ijk"[:d], "shape": tuple(N)})})
        got = {}

        def grid(a, k, got=got):
            params = init.params[1:]
            bound = dict(zip(params, a))
            bound.update(k)
            got.update(bound)
            return Obj("grid", {"__class__": "Grid"})
        title = f"dim {d}: generate_grid hands the image's voxel counts and, per matrix axis, its voxel sizes to the grid"
        from ..fold import fold_paths

        def run(decide, got=got, grid=grid, image=image):
            got.clear()
            fo = Folder(symbolic=True)
            fo.decider = decide
            fo.func_stack.append(g.node)
            fo.overrides = {"Grid": grid, "darsia.Grid": grid}
            fo.call(g.node, [image])
            return dict(got)
        try:
            paths = fold_paths(run, max_paths=16)
        except Refuse as e:
            ctx.ob(R, g.qname, title, False, f"fold of generate_grid not found to be possible: {e}", g.node)
            continue
        errs = [e for _, r, e in paths if e is not None and not isinstance(e, Raised)]
        outs = [(log, r) for log, r, e in paths if e is None and r and init.params[1] in r]
        if errs or not outs:
            ctx.ob(R, g.qname, title, False, f"fold of generate_grid not found to be possible: {errs[0] if errs else 'call of Grid(...) not found in the fold'}", g.node)
            continue
        # a path on which the grid does not get one axis per image axis is a finding by itself
        short = [(log, r) for log, r in outs if isinstance(r.get(init.params[1]), (list, tuple)) and len(r.get(init.params[1])) != d]
        if short:
            log, r = short[0]
            ctx.ob(R, g.qname, title, False, f"on the path {' and '.join(('' if b else 'not ') + nf(c)[:40] for c, b in log)} the grid shape is {nf(r.get(init.params[1]))[:60]}: "
                   f"{len(r.get(init.params[1]))} axes for a {d}-dimensional image -- face counts, connectivity and corner tables no longer follow the image's voxel shape", g.node, evidence=True)
            continue
        got = outs[0][1]
        shape_arg = got.get(init.params[1])
        vs_arg = got.get(init.params[2]) if len(init.params) > 2 else None
        sh = list(shape_arg) if isinstance(shape_arg, (list, tuple)) else (shape_arg.flat() if isinstance(shape_arg, Arr) else None)
        if sh is None or len(sh) != d or not all(x is y for x, y in zip(sh, N)):
            ok_shape = False
            tsh = nf(shape_arg)
            if (any(f"D{k}" in tsh for k in range(d)) or "dimensions" in tsh) and not (any(f"N{k}" in tsh for k in range(d)) or "num_voxels" in tsh or "shape" in tsh):
                ctx.ob(R, g.qname, title, False, f"the grid shape is {tsh[:110]}: voxel counts re-derived from dimensions and voxel sizes by a truncating conversion instead of the image's "
                       "own num_voxels -- round-off in the quotient (1.0 / 35 * 5) loses a cell, and a voxel size that is not the image's gives another grid than the data", g.node, evidence=True)
                continue
        else:
            ok_shape = True
        # the constructor's own view of the voxel sizes it was given
        so = Obj("self", {"__class__": "Grid", "_setup": lambda a, k: None})
        f2 = Folder(symbolic=True)
        f2.func_stack.append(init.node)
        f2.fold_all_methods = True
        try:
            f2.call(init.node, [so, shape_arg if shape_arg is not None else N] + ([vs_arg] if vs_arg is not None else []))
            vs = so.fields.get("voxel_size")
            vl = vs.flat() if isinstance(vs, Arr) else (list(vs) if isinstance(vs, (list, tuple)) else None)
        except (Refuse, Raised) as e:
            ctx.ob(R, g.qname, title, False, f"fold of Grid.__init__ on the arguments of generate_grid not found to be possible: {e}", g.node)
            continue
        if vl is None or len(vl) != d:
            ctx.ob(R, g.qname, title, False, f"voxel sizes of the grid not found per axis: {nf(vs)[:100]}", g.node)
            continue
        # compared as Laurent polynomials, with the image's voxel size written out as dimensions / num_voxels (Image.voxel_size, C01.b)
        def canon(t):
            p_ = _poly_of(t)
            for k in range(d):
                p_ = p_.subst(f"h{k}", Poly.atom(f"D{k}") / Poly.atom(f"N{k}"))
            return p_
        try:
            got_p = [canon(x) for x in vl]
            want_p = [canon(x) for x in h]
        except NotPolynomial as e:
            ctx.ob(R, g.qname, title, False, f"voxel sizes of the grid not found in polynomial form: {e}", g.node)
            continue
        wrong = [k for k in range(d) if got_p[k] != want_p[k]]
        known = all(any(x == y for y in want_p) for x in got_p)   # a permutation of the image's sizes
        if wrong and not known and ok_shape:
            ctx.ob(R, g.qname, title, False, f"grid voxel sizes {[nf(x)[:40] for x in vl]} not found to be the image's {[nf(x) for x in h]}", g.node)
            continue
        ctx.ob(R, g.qname, title, ok_shape and not wrong,
               (f"grid shape is {nf(shape_arg)[:60]}; " if not ok_shape else "") + f"grid voxel sizes per matrix axis are {[nf(x) for x in vl]}, the image has {[nf(x) for x in h]}"
               + (" -- axes are permuted: lengths, face areas and costs along those axes are wrong" if known and wrong else ""), g.node, evidence=(known and ok_shape) or (not ok_shape and sh is not None))



def rule_d(ctx):
    R = "C07.d"
    ctx.rule(R, "image-derived grids: generate_grid passes image.num_voxels and image.voxel_size (both in matrix order) to Grid; a list of "
             "voxel sizes becomes an array; face_vol[d] is the product of the other axes' sizes; dim = len(shape)")
    m = ctx.model
    g = m.func(MOD, "generate_grid")
    ctx.instance(R)
    init = m.func(MOD, "Grid.__init__")
    _generate_grid(ctx, R, m, g, init)
    _grid_init(ctx, R, m, init)
    # the grid is built from image.num_voxels / image.voxel_size at the time of the call: these accessors must not hand out values kept
    # from construction time (the array may have been replaced since)
    from . import c01 as _c01

    _c01.rule_f(ctx)
    from .common import rule_extent_keywords

    rule_extent_keywords(ctx, "C01.g")
    ctx.rule("C01.b", "Image.num_voxels is read off the array at the time of the call (see C01.b)")
    _c01.rule_num_voxels(ctx, "C01.b")
    # the front end: wasserstein_distance builds the grid once, from its first mass image, and hands exactly that grid to the solver -- the masses, the
    # weight and the grid must describe one geometry (a grid taken from the weight image, or replaced for thin images, changes face areas and cell volumes)
    wd = m.func("darsia.measure.wasserstein", "wasserstein_distance")
    if wd is not None:
        ctx.consult("darsia.measure.wasserstein")
        ctx.instance(R)
        binds = [s_ for s_ in ast.walk(wd.node) if isinstance(s_, (ast.Assign, ast.AnnAssign)) and isinstance((s_.targets[0] if isinstance(s_, ast.Assign) else s_.target), ast.Name)
                 and isinstance(s_.value, ast.Call) and norm(s_.value.func).endswith("generate_grid")]
        gname = norm(binds[0].targets[0] if isinstance(binds[0], ast.Assign) else binds[0].target) if binds else None
        if len(binds) != 1:
            ctx.ob(R, wd.qname, "wasserstein_distance builds one grid, from its first mass image", False, f"{len(binds)} generate_grid bindings -- construction of the grid not found in a single statement", wd.node)
        else:
            arg = binds[0].value.args[0] if binds[0].value.args else None
            other = [s_ for s_ in ast.walk(wd.node) if isinstance(s_, (ast.Assign, ast.AnnAssign, ast.AugAssign)) and s_ is not binds[0]
                     and norm(s_.targets[0] if isinstance(s_, ast.Assign) else s_.target) == gname]
            from_first = isinstance(arg, ast.Name) and arg.id == wd.params[0]
            ctx.ob(R, wd.qname, "wasserstein_distance builds one grid, from its first mass image", from_first and not other,
                   (f"`{norm(other[0])[:80]}` replaces the grid generated from {wd.params[0]}" if other else f"the grid is generated from `{norm(arg) if arg is not None else None}`, not from {wd.params[0]}")
                   + ": the solver then discretises another geometry than the masses live on (face areas, cell volumes, dimension of the reported grid)", other[0] if other else binds[0],
                   evidence=bool(other) or (arg is not None and not from_first))
    ctx.floor(R, 1)


def run(ctx):
    ctx.consult(MOD)
    f = ctx.model.func(MOD, "Grid._setup")
    from .c07sem import GridModel

    gm = GridModel(f)
    if not gm.ok:
        gm = None
    ctx.stat("grid_setup_folded", gm is not None)
    attrs = rule_a(ctx, f, gm)
    ctx.guard(rule_b, ctx, f, attrs, gm)
    ctx.guard(rule_c, ctx, f, gm)
    ctx.guard(rule_d, ctx)
