"""C01 -- voxel <-> coordinate conversion (structural clauses, DESIGN.md section 3, C01)."""
from __future__ import annotations

import ast

from ..algebra import NotPolynomial, Poly, ToPoly
from ..flow import single_assign_env, axis_loops, rename, expand
from ..fold import Arr, Folder, Obj, Opaque, Raised, Refuse, Sym, TypeTag
from ..report import AnalysisError
from ..srcmodel import norm
from . import c20

LEVEL = "other"
CS = "darsia.image.coordinatesystem"
IDX = "darsia.image.indexing"
PT = "darsia.utils.point"
IMG = "darsia.image.image"
ROUNDERS = {"np.floor", "np.ceil", "np.round", "np.rint", "np.around", "numpy.floor", "math.floor", "math.ceil", "round"}
INTEGRAL_SOURCES = {"np.indices", "np.arange", "np.ravel_multi_index", "np.argmax", "np.argmin", "np.nonzero", "np.where", "len", "range"}


def rule_a(ctx):
    R = "C01.a"
    ctx.rule(R, "interpret_indexing folded to a table over its full finite domain: per dimension the Cartesian axes hit "
             "each matrix position once, the xyz-block is the inverse permutation with equal reversal flags")
    T_i, _, _ = c20.extract_tables(ctx)
    fi = ctx.model.func(IDX, "interpret_indexing")
    q = fi.qname
    ctx.floor(R, 6)
    ctx.instance(R, len({idx for (ax, idx), v in T_i.items() if v[0] == "ret"}))
    for d in (1, 2, 3):
        c, mt = "xyz"[:d], "ijk"[:d]
        rows = [T_i[(a, mt)] for a in c]
        ok = all(r[0] == "ret" for r in rows)
        ctx.ob(R, q, f"dim{d}: rows (axis in {c!r}, {mt!r}) defined", ok, str(rows), fi.node)
        if not ok:
            continue
        pos = [r[1][0] for r in rows]
        ctx.ob(R, q, f"dim{d}: positions form a permutation", sorted(pos) == list(range(d)), str(pos), fi.node)
        for k, a in enumerate(c):
            p, rev = rows[k][1]
            if isinstance(p, int) and 0 <= p < d:
                inv = T_i[(mt[p], c)]
                ctx.ob(R, q, f"dim{d}: T_i({mt[p]!r},{c!r}) inverts T_i({a!r},{mt!r})", inv == ("ret", (k, rev)),
                       f"forward {(p, rev)}, inverse row {inv}", fi.node)
    return T_i


# ---- C01.b --------------------------------------------------------------------------------

class MapExtract:
    """Extract the per-axis affine map of one CoordinateSystem method in role-normal form."""

    def __init__(self, ctx, func, R):
        self.ctx, self.func, self.R = ctx, func, R
        m = ctx.model
        self.interp = m.func(IDX, "interpret_indexing")
        loops = axis_loops(m, func, self.interp)
        ctx.need(len(loops) >= 1, f"{func.qname}: no loop that looks axes up through interpret_indexing")
        self.al = loops[0]
        self.roles = dict(self.al.roles)
        # the loop must run over self.axes and look (axis, self.indexing) up
        args = self.al.call.args
        self.lookup_ok = (len(args) == 2 and isinstance(args[0], ast.Name) and self.roles.get(args[0].id) == "$e"
                          and norm(args[1]) == "self.indexing")
        self.iter_ok = norm(self.al.iterable) == "self.axes"
        self.has_counter = self.al.counter is not None
        # locals assigned in the loop before the store (e.g. scaling)
        self.env = {}
        self.store = None
        for st in self.al.loop.body:
            if st is self.al.assign:
                continue
            if isinstance(st, ast.Assign) and len(st.targets) == 1:
                t = st.targets[0]
                if isinstance(t, ast.Name):
                    self.env[t.id] = st.value
                elif isinstance(t, ast.Subscript):
                    ctx.need(self.store is None, f"{func.qname}: more than one store in the axis loop")
                    self.store = st
        ctx.need(self.store is not None, f"{func.qname}: no subscript store in the axis loop")
        self.out_name = norm(self.store.targets[0].value)

    def _atomize(self, n):
        # reversal sign: `-1 if revert else 1`
        if isinstance(n, ast.IfExp):
            t = n.test
            neg = False
            if isinstance(t, ast.UnaryOp) and isinstance(t.op, ast.Not):
                t, neg = t.operand, True
            if isinstance(t, ast.Name) and self.roles.get(t.id) == "$r":
                try:
                    b, o = ast.literal_eval(n.body), ast.literal_eval(n.orelse)
                except Exception:
                    return None
                if neg:
                    b, o = o, b
                if (b, o) == (-1, 1):
                    return Poly.atom("s")
                if (b, o) == (1, -1):
                    return -Poly.atom("s")
            return None
        if isinstance(n, ast.Name) and n.id in self.env:
            return self.conv(self.env[n.id])
        if isinstance(n, ast.Subscript):
            base = norm(n.value)
            sl = n.slice
            if isinstance(sl, ast.Tuple) and len(sl.elts) == 2 and isinstance(sl.elts[0], ast.Slice) and isinstance(sl.elts[1], ast.Name):
                role = self.roles.get(sl.elts[1].id)
                if role in ("$k", "$p"):
                    return ("OUT" if base == self.out_name else "IN") + f"[:,{role}]"
            if isinstance(sl, ast.Name) and sl.id in self.roles:
                return f"{base}[{self.roles[sl.id]}]"
        return None

    def conv(self, e):
        return ToPoly(atomize=self._atomize)(e)

    def target_role(self):
        a = self._atomize(self.store.targets[0])
        return a if isinstance(a, str) else None

    def rhs(self):
        """(rounding wrapper or None, polynomial of the stored value)."""
        v = self.store.value
        wrapper = None
        while True:
            if isinstance(v, ast.Call) and isinstance(v.func, ast.Attribute) and v.func.attr == "astype":
                v = v.func.value
                continue
            break
        if isinstance(v, ast.Call):
            d = ctx_dotted(v.func)
            if d in ROUNDERS or d in ("np.trunc", "np.fix", "int"):
                wrapper = d
                v = v.args[0]
        try:
            return wrapper, self.conv(v)
        except NotPolynomial as e:
            raise AnalysisError(f"{self.func.qname}: stored expression outside the polynomial language: {e}")


# ---- column-wise symbolic evaluation of the coordinate maps (per dimension, table folded in) ---------

class Floor:
    """np.floor(inner) of a polynomial."""

    def __init__(self, inner, fn="np.floor"):
        self.inner, self.fn = inner, fn

    def __repr__(self):
        return f"{self.fn}({self.inner!r})"


class Choice:
    """A value selected elementwise between alternatives by a condition the folder does not decide (np.where on a tolerance test)."""

    def __init__(self, alts, why):
        self.alts, self.why = list(alts), why

    def __repr__(self):
        return f"where[{self.why}](" + " | ".join(repr(a) for a in self.alts) + ")"


class Undecided:
    """Boolean array the folder cannot decide (np.isclose and friends)."""

    def __init__(self, why):
        self.why = why


class Cols:
    """Array with one symbolic entry per column (single point or one-point-per-row batch)."""

    def __init__(self, cols):
        self.cols = list(cols)

    def __repr__(self):
        return "Cols" + repr(self.cols)


def _ew(op, a, b):
    """Elementwise arithmetic on Poly / Cols / int lists."""
    def bin_(x, y):
        if isinstance(x, (Floor, Choice)) or isinstance(y, (Floor, Choice)) or x is None or y is None:
            raise Refuse("arithmetic on an unset or rounded column")
        x = x if isinstance(x, Poly) else Poly.const(x)
        y = y if isinstance(y, Poly) else Poly.const(y)
        if isinstance(op, ast.Add):
            return x + y
        if isinstance(op, ast.Sub):
            return x - y
        if isinstance(op, ast.Mult):
            return x * y
        if isinstance(op, ast.Div):
            return x / y
        raise Refuse("operator")
    la = a.cols if isinstance(a, Cols) else (list(a) if isinstance(a, (list, tuple)) else None)
    lb = b.cols if isinstance(b, Cols) else (list(b) if isinstance(b, (list, tuple)) else None)
    if la is not None and lb is not None:
        if len(la) != len(lb):
            raise Refuse("column count mismatch")
        return Cols([bin_(x, y) for x, y in zip(la, lb)])
    if la is not None:
        return Cols([bin_(x, b) for x in la])
    if lb is not None:
        return Cols([bin_(a, y) for y in lb])
    return bin_(a, b)


class ColFolder(Folder):
    """Folder with a column model of 2-d point arrays: A[:, k] / A[:, [k...]] / A[k], elementwise arithmetic, np.floor."""

    def __init__(self, resolver, d):
        super().__init__(resolver)
        self.d = d

    def e_BinOp(self, n, env):
        a, b = self.ev(n.left, env), self.ev(n.right, env)
        if isinstance(a, (Cols, Poly)) or isinstance(b, (Cols, Poly)):
            try:
                return _ew(n.op, a, b)
            except NotPolynomial as e:
                raise Refuse(str(e))
        return super().e_BinOp(n, env)

    def e_UnaryOp(self, n, env):
        v = self.ev(n.operand, env)
        if isinstance(n.op, ast.USub) and isinstance(v, (Cols, Poly)):
            return _ew(ast.Mult(), v, -1)
        return super().e_UnaryOp(n, env)

    def _col_index(self, sl, env, ncols=None):
        """Index expression of A[:, k] / A[k] -> int or list of ints."""
        if isinstance(sl, ast.Tuple) and len(sl.elts) == 2 and isinstance(sl.elts[0], ast.Slice) and sl.elts[0].lower is None and sl.elts[0].upper is None:
            sl = sl.elts[1]
            if isinstance(sl, ast.Slice) and ncols is not None and sl.step is None:
                # A[:, a:b]: a contiguous block of columns
                lo = self.ev(sl.lower, env) if sl.lower is not None else None
                hi = self.ev(sl.upper, env) if sl.upper is not None else None
                if all(x is None or (isinstance(x, int) and not isinstance(x, bool)) for x in (lo, hi)):
                    return list(range(ncols))[slice(lo, hi)]
                raise Refuse("non-constant column slice")
        elif isinstance(sl, ast.Tuple):
            raise Refuse("subscript form")
        k = self.ev(sl, env)
        if isinstance(k, Arr) and len(k.shape) == 1:
            k = list(k.data)
        if isinstance(k, int) and not isinstance(k, bool):
            return k
        if isinstance(k, (list, tuple)) and all(isinstance(x, int) for x in k):
            return list(k)
        raise Refuse("non-constant column index")

    def e_Subscript(self, n, env):
        v = self.ev(n.value, env)
        if isinstance(v, Cols):
            k = self._col_index(n.slice, env, len(v.cols))
            try:
                if isinstance(k, int):
                    return v.cols[k]
                return Cols([v.cols[i] for i in k])
            except IndexError:
                raise Raised("IndexError", n)
        if isinstance(v, dict) and not isinstance(n.slice, ast.Slice):
            k = self.ev(n.slice, env)
            if k in v:
                return v[k]
        return super().e_Subscript(n, env)

    def assign(self, t, v, env):
        if isinstance(t, ast.Subscript):
            c = self.ev(t.value, env)
            if isinstance(c, Cols):
                k = self._col_index(t.slice, env, len(c.cols))
                if isinstance(k, int):
                    if not (0 <= k < len(c.cols)):
                        raise Raised("IndexError", t)
                    c.cols[k] = v
                else:
                    vs = v.cols if isinstance(v, Cols) else None
                    if vs is None or len(vs) != len(k):
                        raise Refuse("column scatter form")
                    for i, x in zip(k, vs):
                        c.cols[i] = x
                return
        return super().assign(t, v, env)

    def e_Attribute(self, n, env):
        if n.attr == "shape":
            v = self.ev(n.value, env)
            if isinstance(v, Cols):
                return ("N", len(v.cols))
        return super().e_Attribute(n, env)

    def method_call(self, n, env):
        f = n.func
        recv = self.ev(f.value, env)
        if isinstance(recv, (Cols, Floor, Poly)) and f.attr in ("reshape", "astype", "copy", "view"):
            return recv
        return super().method_call(n, env)

    # numpy models ---------------------------------------------------------------
    def _passthrough(self, a, kw):
        return a[0]

    c_np_atleast_2d = c_np_asarray = _passthrough

    def c_np_array(self, a, kw):
        v = a[0]
        if isinstance(v, (list, tuple)) and any(isinstance(x, (Poly, Floor)) for x in v):
            return Cols(v)
        if isinstance(v, (list, tuple)) and all(isinstance(x, int) for x in v):
            return list(v)
        if isinstance(v, Cols):
            return v
        return super().c_np_array(a, kw)

    def c_np_arange(self, a, kw):
        if all(isinstance(x, int) and not isinstance(x, bool) for x in a) and 1 <= len(a) <= 3:
            return list(range(*a))
        raise Refuse("np.arange of non-constants")

    def c_np_empty_like(self, a, kw):
        if isinstance(a[0], Cols):
            return Cols([None] * len(a[0].cols))
        raise Refuse("empty_like")

    c_np_zeros_like = c_np_empty_like

    def c_np_empty(self, a, kw):
        # np.empty(points.shape, ...): a fresh point array of the same layout
        if a and isinstance(a[0], tuple) and len(a[0]) == 2 and a[0][0] == "N" and isinstance(a[0][1], int):
            return Cols([None] * a[0][1])
        raise Refuse("np.empty")

    c_np_zeros = c_np_empty

    def c_np_isclose(self, a, kw):
        return Undecided("np.isclose")

    c_np_allclose = c_np_isclose

    def c_np_where(self, a, kw):
        if len(a) == 3 and isinstance(a[0], Undecided):
            _, x, y = a
            pick = lambda u, v: u if u is v else Choice([u, v], a[0].why)
            if isinstance(x, Cols) and isinstance(y, Cols) and len(x.cols) == len(y.cols):
                return Cols([pick(u, v) for u, v in zip(x.cols, y.cols)])
            if not isinstance(x, Cols) and not isinstance(y, Cols):
                return pick(x, y)
            raise Refuse("np.where operands")
        return super().c_np_where(a, kw)

    def _round(self, fn, v):
        if isinstance(v, Cols):
            return Cols([self._round(fn, x) for x in v.cols])
        if isinstance(v, Choice):
            return Floor(v, fn)
        if isinstance(v, Floor):
            return v  # rounding an already rounded (integral) value
        if isinstance(v, Poly):
            return Floor(v, fn)
        raise Refuse("rounding of unknown value")

    def c_np_floor(self, a, kw):
        return self._round("np.floor", a[0])

    def c_np_round(self, a, kw):
        return self._round("np.round", a[0])

    def c_np_ceil(self, a, kw):
        return self._round("np.ceil", a[0])

    def c_np_rint(self, a, kw):
        return self._round("np.rint", a[0])

    def c_isinstance(self, a, kw):
        v, t = a
        if isinstance(v, Cols):
            tags = t if isinstance(t, tuple) else (t,)
            names = {getattr(x, "name", None) or getattr(x, "fn", None) or str(x) for x in tags}
            return any("ndarray" in str(x) for x in names)
        return super().c_isinstance(a, kw)

    def e_Name(self, n, env):
        if n.id not in env and n.id in ("np",):
            raise Refuse("bare module")
        return super().e_Name(n, env)


class InputTruncated(Exception):
    """The map converts its not yet rounded input to an integer-typed point."""


def eval_map(ctx, func, d, T_i):
    """Symbolically evaluate CoordinateSystem.<func> for dimension d on a batch whose columns are IN0..IN{d-1}."""
    m = ctx.model
    interp = m.func(IDX, "interpret_indexing")
    makers = {m.func(PT, "make_voxel"), m.func(PT, "make_coordinate")}

    class F(ColFolder):
        def e_Call(self, n, env):
            t = m.resolve_call(n, func)
            if t in makers and n.args:
                v_ = self.ev(n.args[0], env)
                if t.name == "make_voxel" and isinstance(v_, Cols) and any(isinstance(c_, Poly) and any(str(a_).startswith("IN") for a_ in c_.atoms()) for c_ in v_.cols):
                    # the typed voxel classes hold integers: a position that has not been floored / rounded yet is truncated by the conversion
                    raise InputTruncated(norm(n))
                return v_
            if isinstance(n.func, ast.Attribute) and n.func.attr in ("ndarray",):
                raise Refuse("ndarray call")
            if isinstance(n.func, ast.Attribute) and n.func.attr in ("ndarray",):
                raise Refuse("ndarray call")
            return super().e_Call(n, env)

        def e_Attribute(self, n, env):
            if isinstance(n.value, ast.Name) and n.value.id == "np" and n.attr == "ndarray":
                return TypeTag("np.ndarray")
            if isinstance(n.value, ast.Name) and n.value.id == "darsia" and "darsia" not in env and n.attr[:1].isupper():
                return TypeTag(f"darsia.{n.attr}")   # a point class used in an isinstance test: the symbolic batch is a plain array, no typed point
            return super().e_Attribute(n, env)

    def resolver(call):
        t = m.resolve_call(call, func)
        return t.node if t is interp else None

    axes = "xyz"[:d]
    std = {
        "axes": axes, "indexing": "ijk"[:d], "dim": d,
        "voxel_size": {a: Poly.atom(f"h_{a}") for a in axes},
        "_coordinate_of_origin_voxel": Cols([Poly.atom(f"o{c}") for c in range(d)]),
    }
    # further attributes the constructor derives (lookup tables built once, ...): its statements are folded, as far as they fold, on an
    # image whose voxel sizes are named after the Cartesian axis the table assigns to each matrix position
    me = Obj("self")
    init = m.func(CS, "CoordinateSystem.__init__")
    try:
        hm = [None] * d
        for a in axes:
            row = T_i[(a, "ijk"[:d])]
            if row[0] == "ret":
                hm[row[1][0]] = Poly.atom(f"h_{a}")
        img = Obj("img", {"indexing": "ijk"[:d], "space_dim": d, "voxel_size": hm, "origin": std["_coordinate_of_origin_voxel"],
                          "dimensions": [Poly.atom(f"D{k}") for k in range(d)], "img": Obj("arr", {"shape": tuple(10 + k for k in range(d + 1))})})
        def resolver0(call):
            t = m.resolve_call(call, init)
            return t.node if t is interp else None
        f0 = F(resolver0, d)
        f0.func_stack.append(init.node)
        env0 = {init.params[0]: me, (init.params[1] if len(init.params) > 1 else "img"): img}
        for st in init.node.body:
            try:
                f0.stmt(st, env0)
            except (Refuse, Raised):
                pass
    except Exception:
        me = Obj("self")
    me.fields.update(std)
    inp = Cols([Poly.atom(f"IN{k}") for k in range(d)])
    fo = F(resolver, d)
    try:
        return fo.call(func.node, [me, inp])
    except Raised as e:
        nd = getattr(e, "node", None)
        if e.name == "AttributeError" and isinstance(nd, ast.Attribute) and isinstance(nd.value, ast.Name) and nd.value.id == func.params[0] and nd.attr not in me.fields:
            raise AnalysisError(f"{func.qname} reads self.{nd.attr}, which the constructor fold did not produce: the map is outside what this rule evaluates")
        raise


def ctx_dotted(n):
    from ..algebra import dotted

    return dotted(n)


def rule_b(ctx):
    R = "C01.b"
    ctx.rule(R, "CoordinateSystem.coordinate / voxel / coordinate_vector / voxel_size loop extracted in role-normal form "
             "(Cartesian column = loop index over self.axes, matrix column = pos of interpret_indexing(axis, self.indexing), "
             "s = -1 iff reversed, s*s = 1): coordinate = origin[c] + s*V[p]*h[axis]; voxel = floor of an expression that "
             "composes with it to the identity; coordinate_vector = s*V[p]*h[axis]; Image.voxel_size = dimensions[i]/num_voxels[i]")
    m = ctx.model
    ctx.consult(CS)
    ctx.consult(IMG)
    T_i, _, _ = c20.extract_tables(ctx)
    f_fwd = m.func(CS, "CoordinateSystem.coordinate")
    f_inv = m.func(CS, "CoordinateSystem.voxel")
    f_vec = m.func(CS, "CoordinateSystem.coordinate_vector")
    ctx.floor(R, 4)
    for d in (1, 2, 3):
        ctx.instance(R)
        res = {}
        for key, f in (("fwd", f_fwd), ("inv", f_inv), ("vec", f_vec)):
            try:
                v = eval_map(ctx, f, d, T_i)
            except Raised as e:
                ctx.ob(R, f.qname, f"dim {d}: evaluates", False, f"raises {e.name}", f.node)
                v = None
            except InputTruncated as e:
                ctx.ob(R, f.qname, f"dim {d}: the map acts on the position it is given", False,
                       f"`{e}` converts the incoming position to an integer-typed voxel before the map is applied: fractional positions (voxel centres i + 1/2, points inside a voxel) "
                       "collapse onto the voxel corner, so the centre is no longer half a voxel size from the corner and does not convert back to its voxel", f.node, evidence=True)
                v = None
            except Refuse as e:
                raise AnalysisError(f"{f.qname} (dim {d}) outside the column-folding language: {e}")
            res[key] = v.cols if isinstance(v, Cols) else None
            if v is not None and res[key] is None:
                raise AnalysisError(f"{f.qname} (dim {d}): result is not a point array ({v!r})")
        axes = "xyz"[:d]
        want_f, want_v = [], []
        for c, a in enumerate(axes):
            row = T_i[(a, "ijk"[:d])]
            if row[0] != "ret":
                raise AnalysisError(f"interpret_indexing({a!r}, {'ijk'[:d]!r}) is not defined")
            pos, rev = row[1]
            sgn = -1 if rev else 1
            lin = Poly.atom(f"IN{pos}") * Poly.atom(f"h_{a}") * sgn
            want_f.append(Poly.atom(f"o{c}") + lin)
            want_v.append(lin)
        if res["fwd"] is not None:
            for c, a in enumerate(axes):
                ctx.ob(R, f_fwd.qname, f"dim {d}: coordinate[{a}] = origin[{c}] + s * voxel[pos({a})] * voxel_size[{a}] with pos, s from the axis table",
                       isinstance(res["fwd"][c], Poly) and res["fwd"][c] == want_f[c], f"got {res['fwd'][c]!r}, table prescribes {want_f[c]!r}", f_fwd.node)
        if res["vec"] is not None:
            for c, a in enumerate(axes):
                ctx.ob(R, f_vec.qname, f"dim {d}: coordinate_vector[{a}] = s * pixel[pos({a})] * voxel_size[{a}]",
                       isinstance(res["vec"][c], Poly) and res["vec"][c] == want_v[c], f"got {res['vec'][c]!r}, table prescribes {want_v[c]!r}", f_vec.node)
        if res["inv"] is not None:
            for mi in range(d):
                e = res["inv"][mi]
                is_floor = isinstance(e, Floor) and e.fn in ("np.floor", "math.floor")
                ctx.ob(R, f_inv.qname, f"dim {d}: voxel index {mi} is the np.floor of an affine expression", is_floor,
                       f"matrix component {mi} is {e!r}: a float->int conversion that is not floor truncates toward zero (wrong on the negative halo)", f_inv.node)
                inner = e.inner if isinstance(e, Floor) else (e if isinstance(e, Poly) else None)
                if isinstance(inner, Choice):
                    # named contradiction: floor(snap(x)) with snap(x) != x for some x strictly inside a voxel (within the tolerance of its
                    # upper face) gives the next voxel
                    ctx.ob(R, f_inv.qname, f"dim {d}: the argument of the floor for voxel index {mi} is the affine expression itself", False,
                           f"the argument is {inner!r}: a value snapped to a rounded neighbour under a tolerance test ({inner.why}) before the floor -- a point strictly inside "
                           "the voxel within that tolerance of its upper face converts to the next voxel (the tolerance of np.isclose grows with the index)", f_inv.node, evidence=True)
                    continue
                if not isinstance(inner, Poly):
                    continue
                comp = inner
                # substitute the forward map: Cartesian input column c := coordinate column c of voxel V
                tmp_names = {c: f"__C{c}" for c in range(d)}
                for c in range(d):
                    comp = comp.subst(f"IN{c}", Poly.atom(tmp_names[c]))
                for c in range(d):
                    comp = comp.subst(tmp_names[c], want_f[c].subst(f"IN{T_i[(axes[c], 'ijk'[:d])][1][0]}", Poly.atom(f"V{T_i[(axes[c], 'ijk'[:d])][1][0]}")))
                ctx.ob(R, f_inv.qname, f"dim {d}: voxel(coordinate(V))[{mi}] == floor(V[{mi}])", comp == Poly.atom(f"V{mi}"),
                       f"composition with the table-prescribed forward map gives {comp!r} for matrix component {mi}", f_inv.node)
    # __init__: the constructor is folded statement by statement on a symbolic image (statements outside the folding language are
    # skipped); what it leaves in self.voxel_size / indexing / dim / axes / origin is compared with the table, per dimension
    init = m.func(CS, "CoordinateSystem.__init__")
    p0 = init.params[1] if len(init.params) > 1 else "img"
    for d in (1, 2, 3):
        ctx.instance(R)
        axes = "xyz"[:d]
        origin = Cols([Poly.atom(f"o{c}") for c in range(d)])
        img = Obj("img", {"indexing": "ijk"[:d], "space_dim": d, "voxel_size": [Poly.atom(f"hm{k}") for k in range(d)], "origin": origin,
                          "dimensions": [Poly.atom(f"D{k}") for k in range(d)], "img": Obj("arr", {"shape": tuple(10 + k for k in range(d + 1))})})
        me = Obj("self")
        fo = Folder()
        fo.func_stack.append(init.node)
        env = {init.params[0]: me, p0: img}
        skipped = 0
        for st in init.node.body:
            try:
                fo.stmt(st, env)
            except (Refuse, Raised):
                skipped += 1
        vs_got = me.fields.get("voxel_size")
        want_vs = {a: Poly.atom(f"hm{T_i[(a, 'ijk'[:d])][1][0]}") for a in axes}
        ctx.ob(R, init.qname, f"dim {d}: voxel_size[axis] = img.voxel_size[pos(axis)] for every Cartesian axis (pos from the axis table)", isinstance(vs_got, dict) and vs_got == want_vs,
               f"constructor leaves voxel_size = {vs_got!r}; the table prescribes {want_vs!r}" if isinstance(vs_got, dict) else "", init.node, evidence=isinstance(vs_got, dict))
        ctx.ob(R, init.qname, f"dim {d}: self._coordinate_of_origin_voxel is the image's origin", me.fields.get("_coordinate_of_origin_voxel") is origin, repr(me.fields.get("_coordinate_of_origin_voxel")), init.node)
        ctx.ob(R, init.qname, f"dim {d}: self.indexing / dim / axes are the image's indexing, space_dim and 'xyz'[:dim]",
               (me.fields.get("indexing"), me.fields.get("dim"), me.fields.get("axes")) == ("ijk"[:d], d, axes), repr((me.fields.get("indexing"), me.fields.get("dim"), me.fields.get("axes"))), init.node)
    # Image.voxel_size: dimensions[i] / num_voxels[i]
    vs = m.func(IMG, "Image.voxel_size")
    ret = [n for n in ast.walk(vs.node) if isinstance(n, ast.Return)]
    ctx.need(len(ret) == 1 and isinstance(ret[0].value, ast.ListComp), "Image.voxel_size: not a single list comprehension")
    lc = ret[0].value
    g = lc.generators[0]
    ctx.instance(R)
    ok = False
    if isinstance(g.target, ast.Name):
        roles = {g.target.id: "$i"}
        try:
            pe = ToPoly()(rename(lc.elt, roles))
            ok = pe == Poly.atom("self.dimensions[$i]") / Poly.atom("self.num_voxels[$i]")
        except NotPolynomial:
            ok = False
    ctx.ob(R, vs.qname, "voxel_size[i] == dimensions[i] / num_voxels[i] for i in range(space_dim)",
           ok and norm(g.iter) == "range(self.space_dim)", norm(lc), ret[0])
    rule_num_voxels(ctx, R)
    _opposite_corner(ctx, R, m, T_i)


def rule_num_voxels(ctx, R="C01.b"):
    """Image.num_voxels is read off the array at the time of the call: the spatial prefix of self.shape / self.img.shape.  A value kept in
    another attribute is a named contradiction (the array can be replaced after construction: corrections with overwrite, image.img = ...)."""
    m = ctx.model
    nv = m.func(IMG, "Image.num_voxels")
    ctx.instance(R)
    rets = [n.value for n in ast.walk(nv.node) if isinstance(n, ast.Return) and n.value is not None]
    texts = [norm(expand(nv.node, r)) for r in rets]
    good = ("list(self.shape[:self.space_dim])", "list(self.img.shape[:self.space_dim])", "[*self.shape[:self.space_dim]]", "[*self.img.shape[:self.space_dim]]")
    stored = sorted({x.attr for r in rets for x in ast.walk(expand(nv.node, r)) if isinstance(x, ast.Attribute) and isinstance(x.value, ast.Name) and x.value.id == "self"
                     and x.attr not in ("img", "shape", "space_dim")})
    if texts and all(t in good for t in texts):
        ctx.ob(R, nv.qname, "num_voxels is the spatial prefix of the array shape", True, "", nv.node)
    elif stored:
        ctx.ob(R, nv.qname, "num_voxels is the spatial prefix of the array shape", False,
               f"num_voxels returns {texts}: read from the stored attribute(s) {stored}, not from the array -- stale as soon as the array is replaced by one of another shape "
               "(grid, voxel size and coordinate system then describe the old array)", nv.node, evidence=True)
    else:
        ctx.ob(R, nv.qname, "num_voxels is the spatial prefix of the array shape", False, f"spatial prefix of the shape not found in {texts}", nv.node)


def _opposite_corner(ctx, R, m, T_i):
    """Image.opposite_corner folded per dimension on a symbolic image: either the coordinate system's coordinate() of the voxel behind the
    last one (shape[:space_dim]), or, written out, origin[c] + s * dimensions[pos(c)] per Cartesian axis (s, pos from the axis table; stores
    into the array that is returned are replayed).  A work array that takes its dtype from the origin is a named contradiction: the
    origin may be integer-typed and the extent fractional."""
    from ..fold import Arr, Folder as SFolder, Obj as SObj, Opaque, Raised as SRaised, Refuse as SRefuse, Sym
    from ..terms import nf

    oc = m.func(IMG, "Image.opposite_corner")

    def poly(t):
        if isinstance(t, Opaque):
            return Poly.atom(t.label)
        if isinstance(t, Sym) and t.fn in ("+", "-", "*", "/") and len(t.args) == 2 and t.recv is None:
            a, b = poly(t.args[0]), poly(t.args[1])
            return {"+": lambda: a + b, "-": lambda: a - b, "*": lambda: a * b, "/": lambda: a / b}[t.fn]()
        if isinstance(t, Sym) and t.fn == "neg" and len(t.args) == 1:
            return poly(t.args[0]) * -1
        if isinstance(t, int) and not isinstance(t, bool):
            return Poly.const(t)
        raise NotPolynomial(repr(t))

    for d in (1, 2, 3):
        ctx.instance(R)
        o = [Opaque("float", f"o{c}") for c in range(d)]
        D = [Opaque("float", f"D{k}") for k in range(d)]
        N = [Opaque("int", f"N{k}") for k in range(d)]
        log = {}
        origin = Arr(list(o))

        def coordinate(a, k, log=log):
            log["arg"] = a[0] if a else None
            return Opaque("coord", "COORD")
        cs = SObj("cs", {"__class__": "CoordinateSystem"})
        so = SObj("self", {"__class__": "Image", "space_dim": d, "indexing": "ijk"[:d], "origin": origin, "dimensions": list(D),
                           "img": Opaque("ndarray", "IMG", {"shape": tuple(N) + (Opaque("int", "T"),)}), "coordinatesystem": cs})
        # the coordinate system as its constructor leaves it for this image (statements outside the folding language are skipped)
        csi = m.func(CS, "CoordinateSystem.__init__")
        f0 = SFolder(symbolic=True)
        f0.func_stack.append(csi.node)
        f0.fold_all_methods = True
        env0 = {csi.params[0]: cs, (csi.params[1] if len(csi.params) > 1 else "img"): so}
        so.fields["coordinatesystem"] = SObj("cs0", {"coordinate": coordinate})
        for st in csi.node.body:
            try:
                f0.stmt(st, env0)
            except (SRefuse, SRaised):
                pass
            except Exception:
                pass
        so.fields["coordinatesystem"] = cs
        cs.fields["coordinate"] = coordinate
        fo = SFolder(symbolic=True)
        fo.trace = f0.trace
        fo.func_stack.append(oc.node)
        fo.fold_all_methods = True
        fo.overrides = {"darsia.make_coordinate": lambda a, k: a[0], "darsia.Coordinate": lambda a, k: a[0]}
        title = f"dim {d}: opposite_corner is the coordinate of the voxel behind the last one (origin[c] + s * dimensions[pos(c)])"
        try:
            r = fo.call(oc.node, [so])
        except (SRefuse, SRaised) as e:
            ctx.ob(R, oc.qname, title, False, f"fold of Image.opposite_corner not found to be possible: {e}", oc.node)
            continue
        if isinstance(r, Opaque) and r.label == "COORD":
            arg = log.get("arg")
            al = list(arg) if isinstance(arg, (list, tuple)) else (arg.flat() if isinstance(arg, Arr) else None)
            ok = al is not None and len(al) == d and all(x is y for x, y in zip(al, N))
            ctx.ob(R, oc.qname, title, ok, f"coordinate() is applied to {nf(arg)[:80]}, not to the spatial shape {[nf(x) for x in N]}" if al is not None else f"argument of coordinate() not found as a list: {nf(arg)[:80]}", oc.node, evidence=al is not None)
            continue
        # written out: replay the recorded stores into the returned array
        vals = None
        from_origin = False
        if isinstance(r, Arr) and len(r.shape) == 1 and len(r.data) == d:
            vals = list(r.data)
            from_origin = getattr(r, "copied_from", None) is origin and bool(getattr(r, "updated_in_place", None))
        elif isinstance(r, Sym):
            vals = [None] * d
        if vals is not None:
            for ev in fo.trace:
                if isinstance(ev, Sym) and ev.fn in ("setitem", "augitem") and ev.args and ev.args[0] is r:
                    i = ev.args[1]
                    if not (isinstance(i, int) and not isinstance(i, bool) and 0 <= i < d):
                        vals = None
                        break
                    if ev.fn == "setitem":
                        vals[i] = ev.args[2]
                    else:
                        vals[i] = Sym(ev.args[2], [vals[i], ev.args[3]]) if vals[i] is not None else None
        if vals is None or any(v is None for v in vals):
            ctx.ob(R, oc.qname, title, False, f"per-axis value of the corner not found: {nf(r)[:100]}", oc.node)
            continue
        bad = []
        try:
            for c, a in enumerate("xyz"[:d]):
                row = T_i[(a, "ijk"[:d])]
                pos, rev = row[1]
                want = Poly.atom(f"o{c}") + Poly.atom(f"D{pos}") * (-1 if rev else 1)
                got = poly(vals[c])
                # voxel_size[k] * num_voxels[k] is dimensions[k]
                for k in range(d):
                    got = got  # (terms written with N_k * (D_k / N_k) cancel in the Laurent polynomial)
                if got != want:
                    bad.append(f"{a}: {nf(vals[c])[:70]} (the table prescribes o{c} {'-' if rev else '+'} D{pos})")
        except NotPolynomial as e:
            ctx.ob(R, oc.qname, title, False, f"corner not found in polynomial form: {e}", oc.node)
            continue
        ctx.ob(R, oc.qname, title, not bad, "; ".join(bad[:2]), oc.node, evidence=True)
        if from_origin:
            ctx.ob(R, oc.qname, f"dim {d}: the array that accumulates the corner is a float array of its own", False,
                   "the corner is accumulated in place in a copy of self.origin, which takes the origin's dtype: with an integer-typed origin (origin=[0, 2], "
                   "integer dimensions) a fractional extent is truncated on the store", oc.node, evidence=True)


def rule_f(ctx):
    R = "C01.f"
    ctx.rule(R, "geometric accessors of an image carry no state: hidden-state analysis of Image with every @property as entry -- an accessor "
             "that keeps its result on the object (opposite corner, coordinate system) must validate it against everything it was computed "
             "from, or an origin / dimensions assigned later are ignored")
    from ..state import StateAnalysis

    m = ctx.model
    k = m.cls(IMG, "Image")
    props = [n for n, f in k.methods.items() if any(getattr(d_, "id", None) == "property" for d_ in f.node.decorator_list)]
    ctx.need(len(props) >= 5, "Image: fewer than 5 properties found")
    sa = StateAnalysis(m, k, props)
    ctx.instance(R, len(props))
    seen = set()
    for f, n, a, kind, an, chain in sa.cross_call_reads():
        key = (f.qname, a, n.text())
        if key in seen:
            continue
        seen.add(key)
        ok, why = sa.justify(f, n, a, kind)
        ctx.ob(R, f.qname, f"read of self.{a} in `{n.text()[:70]}` does not depend on earlier accesses", ok,
               f"{why}. The value handed out by {' -> '.join(chain)} is the one computed at the first access", an, evidence=True)
    ctx.ob(R, k.qname, f"{len(props)} accessor(s) of Image analysed for state kept between accesses", True, "", k.node)
    ctx.floor(R, 5)


# ---- C01.c --------------------------------------------------------------------------------

def origin_loops(ctx, func):
    """Loops of the form: for k, letter in enumerate(INDEXING): c, rev = T(letter, 'xyz'[:d]); if rev: O[c] op= D[k]."""
    m = ctx.model
    interp = m.func(IDX, "interpret_indexing")
    out = []
    for al in axis_loops(m, func, interp):
        cond = [st for st in al.loop.body if isinstance(st, ast.If)]
        if len(cond) != 1:
            continue
        out.append((al, cond[0]))
    return out


def rule_c(ctx):
    R = "C01.c"
    ctx.rule(R, "default-origin convention: each loop that derives an origin (Image.__init__, Image.reset_origin, "
             "AxisReduction.__call__ x2) looks matrix letter k up in the Cartesian indexing, and iff reversed moves "
             "Cartesian component pos by the matrix-axis dimension k -- sibling agreement of the extracted loops")
    m = ctx.model
    sites = [m.func(IMG, "Image.__init__"), m.func(IMG, "Image.reset_origin"),
             m.func("darsia.signals.reduction.dimensionreduction", "AxisReduction.__call__")]
    ctx.consult("darsia.signals.reduction.dimensionreduction")
    n = 0
    for f in sites:
        for al, iff in origin_loops(ctx, f):
            n += 1
            ctx.instance(R)
            roles = dict(al.roles)
            args = al.call.args
            letter_expr = args[0] if args else None
            if isinstance(letter_expr, ast.Name) and letter_expr.id not in roles:
                # a loop-local such as `new_matrix_index = new_indexing[new_index]`
                nm = letter_expr.id
                for st in al.loop.body:
                    if isinstance(st, ast.Assign) and norm(st.targets[0]) == nm:
                        letter_expr = st.value
            letter = norm(rename(letter_expr, roles)) if letter_expr is not None else "?"
            # names are resolved through the function's single assignments (by value, not by spelling)
            senv = {k: norm(v) for k, v in single_assign_env(f.node.body).items()}

            def res(txt):
                return senv.get(txt, txt)
            # the letter must be the matrix letter belonging to counter $k
            letter_ok = letter == "$e" or (letter.endswith("[$k]") and (res(letter[:-4]).startswith("'ijk'[:") or res(letter[:-4]).endswith(".indexing")))
            idx_arg = res(norm(args[1])) if len(args) > 1 else "?"
            cart_ok = idx_arg.startswith("'xyz'[:")
            ctx.ob(R, f.qname, f"loop {n}: looks the matrix letter of counter k up in Cartesian indexing", letter_ok and cart_ok and al.counter is not None,
                   norm(al.call), al.call)
            test = norm(rename(iff.test, roles))
            ctx.ob(R, f.qname, f"loop {n}: guarded by the reversal flag", test == "$r" and not iff.orelse, f"if {test}", iff)
            body = [st for st in iff.body if isinstance(st, (ast.Assign, ast.AugAssign))]
            ok = False
            desc = ""
            if len(body) == 1:
                st = body[0]
                tgt = st.targets[0] if isinstance(st, ast.Assign) else st.target
                t, v = norm(rename(tgt, roles)), norm(rename(st.value, roles))
                desc = f"{t} {'=' if isinstance(st, ast.Assign) else type(st.op).__name__ + '='} {v}"
                ok = t.endswith("[$p]") and v.endswith("[$k]") and res(v[:-4]).split(".copy()")[0].endswith(".dimensions") and (isinstance(st, ast.Assign) or isinstance(st.op, (ast.Add, ast.Sub)))
            ctx.ob(R, f.qname, f"loop {n}: moves Cartesian component pos by dimensions[k]", ok, desc, iff)
    # the constructor folded without an origin, per dimension: the default origin is dimensions[pos(c)] on reversed Cartesian axes, 0 otherwise
    from ..fold import Arr as SArr, Folder as SFolder, Obj as SObj, Opaque, Raised as SRaised, Refuse as SRefuse, Sym, fold_paths
    from ..terms import nf as _nf

    T_i, _, _ = c20.extract_tables(ctx)
    init_f = m.func(IMG, "Image.__init__")
    for d in (1, 2, 3):
        def run(decide, d=d):
            shape = tuple(Opaque("int", f"N{i}") for i in range(d))
            img = Opaque("ndarray", "IMG", {"shape": shape, "dtype": Opaque("dtype", "DT")})
            so = SObj("self", {"__class__": "Image"})
            fo = SFolder(symbolic=True)
            fo.decider = decide
            fo.func_stack.append(init_f.node)
            fo.fold_all_methods = True
            fo.overrides = {"warn": lambda a, k_: None, "logger.debug": lambda a, k_: None, "warnings.warn": lambda a, k_: None, "darsia.Coordinate": lambda a, k_: a[0]}
            fo.call(init_f.node, [so, img], {"space_dim": d, "indexing": "ijk"[:d], "scalar": True, "series": False, "dimensions": [Opaque("float", f"D{i}") for i in range(d)]})
            return so.fields.get("origin")
        title = f"dim {d}: without an origin argument the origin is dimensions[pos] on reversed Cartesian axes and 0 on the others"
        try:
            outs = [r for _, r, e in fold_paths(run, max_paths=16) if e is None]
        except SRefuse:
            outs = []
        vals = None
        if outs:
            r = outs[0]
            while isinstance(r, Sym) and r.fn in ("np.array", "np.asarray") and r.args:
                r = r.args[0]
            vals = r.flat() if isinstance(r, SArr) else (list(r) if isinstance(r, (list, tuple)) else None)
        if vals is None or len(vals) != d:
            ctx.ob(R, init_f.qname, title, False, "default origin not found by folding the constructor", init_f.node)
            continue
        n += 1
        ctx.instance(R)
        want = []
        for c, a in enumerate("xyz"[:d]):
            pos, rev = T_i[(a, "ijk"[:d])][1]
            want.append(f"D{pos}" if rev else "0")
        got = [_nf(v) for v in vals]
        ctx.ob(R, init_f.qname, title, got == want, f"default origin is {got}, the table prescribes {want}", init_f.node, evidence=all(g == "0" or g.startswith("D") for g in got))
    # four loops and three folds were confirmed on the pinned tree; loops that are rewritten are judged by the folds (here and in C11.a)
    ctx.floor(R, 5)
    # Image.__init__: origin built from the default when not supplied
    init = m.func(IMG, "Image.__init__")
    hit = [norm(nn) for nn in ast.walk(init.node) if isinstance(nn, ast.Call) and norm(nn.func) in ("kwargs.pop", "kwargs.get")
           and nn.args and isinstance(nn.args[0], ast.Constant) and nn.args[0].value == "origin"]
    ctx.ob(R, init.qname, "origin = kwargs['origin'] or the default origin", len(hit) == 1, str(hit) if hit else "read of the 'origin' keyword not found", init.node)


# ---- C01.d --------------------------------------------------------------------------------

INT_TYPES = {"int", "np.int32", "np.int64", "np.intp", "np.int_", "'int'"}


def _rounder(e):
    """Peel shape-only wrappers; return dotted rounding function or None."""
    while True:
        if isinstance(e, ast.Call):
            d = ctx_dotted(e.func)
            if d in ROUNDERS:
                # rounding an already integral value changes nothing: np.round(np.floor(x)) rounds like np.floor
                if d in ("np.round", "np.rint", "np.around", "round") and e.args:
                    inner = _rounder(e.args[0])
                    if inner is not None:
                        return inner
                return d
            if d in INTEGRAL_SOURCES:
                return "integral:" + d
            if isinstance(e.func, ast.Attribute) and e.func.attr in ("reshape", "ravel", "flatten", "copy", "view", "astype", "T"):
                e = e.func.value
                continue
            if d in ("np.asarray", "np.array", "np.atleast_2d", "np.atleast_1d", "np.fliplr", "np.transpose") and e.args:
                e = e.args[0]
                continue
            return None
        if isinstance(e, ast.Subscript):
            e = e.value
            continue
        if isinstance(e, ast.Constant) and isinstance(e.value, int):
            return "integral:literal"
        return None


def rule_d(ctx):
    R = "C01.d"
    ctx.rule(R, "no truncating float->int conversion on an index path of point.py / coordinatesystem.py: the operand of "
             ".astype(int) / int() and every store into a dtype=int buffer must be a rounding call; on the position "
             "paths (Voxel.__new__, VoxelCenter.__new__, CoordinateSystem.voxel) the rounding must be np.floor "
             "(truncation toward zero differs from floor exactly on the negative halo)")
    m = ctx.model
    ctx.consult(PT)
    position_paths = {f"{PT}.Voxel.__new__", f"{PT}.VoxelCenter.__new__", f"{CS}.CoordinateSystem.voxel"}
    n = 0
    for modname in (PT, CS):
        mod = m.mod(modname)
        funcs = list(mod.funcs.values()) + [f for c in mod.classes.values() for f in c.methods.values()]
        for f in funcs:
            int_buffers = set()
            local_round = {}
            for st in ast.walk(f.node):
                if isinstance(st, ast.Assign) and len(st.targets) == 1 and isinstance(st.targets[0], ast.Name):
                    r = _rounder(st.value)
                    if r:
                        local_round[st.targets[0].id] = r
                    v = st.value
                    if isinstance(v, ast.Call) and any(k.arg == "dtype" and norm(k.value) in INT_TYPES for k in v.keywords):
                        d = ctx_dotted(v.func) or ""
                        if d.split(".")[-1] in ("empty_like", "zeros_like", "empty", "zeros", "full", "ones"):
                            int_buffers.add(st.targets[0].id)
            for call in ast.walk(f.node):
                if not isinstance(call, ast.Call):
                    continue
                operand = None
                if isinstance(call.func, ast.Attribute) and call.func.attr == "astype" and call.args and norm(call.args[0]) in INT_TYPES:
                    operand = call.func.value
                elif isinstance(call.func, ast.Name) and call.func.id == "int" and len(call.args) == 1:
                    operand = call.args[0]
                elif modname == PT and norm(call.func) in ("np.array", "np.asarray", "np.asanyarray", "np.ascontiguousarray") and call.args \
                        and isinstance(call.args[0], ast.Name) and call.args[0].id in f.params \
                        and any(k.arg == "dtype" and norm(k.value) in INT_TYPES for k in call.keywords):
                    # in the point module, applied to a parameter (the positions handed in): elsewhere the operand may be a table of integers
                    operand = call.args[0]   # np.array(x, dtype=int) converts like x.astype(int): truncation toward zero
                if operand is None:
                    continue
                n += 1
                ctx.instance(R)
                r = _rounder(operand)
                if r is None and isinstance(operand, ast.Name):
                    r = local_round.get(operand.id) or ("integral:buffer" if operand.id in int_buffers else None)
                if r is None:
                    # peel to a name
                    e = operand
                    while isinstance(e, (ast.Call, ast.Subscript, ast.Attribute)):
                        e = e.func.value if isinstance(e, ast.Call) and isinstance(e.func, ast.Attribute) else (e.args[0] if isinstance(e, ast.Call) and e.args else getattr(e, "value", None))
                        if e is None:
                            break
                    if isinstance(e, ast.Name):
                        r = local_round.get(e.id) or ("integral:buffer" if e.id in int_buffers else None)
                ctx.ob(R, f.qname, f"cast {norm(call)} has a rounding operand", r is not None,
                       "float -> int conversion truncates toward zero (differs from floor for negative indices)", call)
                if f.qname in position_paths and r is not None and not r.startswith("integral"):
                    ctx.ob(R, f.qname, f"cast {norm(call)} on a position path rounds with floor (or re-rounds floored data)",
                           r in ("np.floor", "numpy.floor", "math.floor") or _floored_buffer(f, operand, int_buffers),
                           f"rounding function is {r}", call)
            # stores into int buffers
            for st in ast.walk(f.node):
                if isinstance(st, ast.Assign) and isinstance(st.targets[0], ast.Subscript) and isinstance(st.targets[0].value, ast.Name) and st.targets[0].value.id in int_buffers:
                    n += 1
                    ctx.instance(R)
                    r = _rounder(st.value)
                    if r is None and isinstance(st.value, ast.Name):
                        # a local that holds an already rounded value
                        r = local_round.get(st.value.id) or ("integral:buffer" if st.value.id in int_buffers else None)
                    ctx.ob(R, f.qname, f"store into integer buffer {norm(st.targets[0])} is rounded", r is not None,
                           f"value {norm(st.value)[:80]} is implicitly truncated by the dtype=int buffer", st)
                    if f.qname in position_paths and r is not None and not r.startswith("integral"):
                        ctx.ob(R, f.qname, f"store into integer buffer {norm(st.targets[0])} rounds with floor", r in ("np.floor", "numpy.floor", "math.floor"),
                               f"rounding function is {r}", st)
    # the point factories hand the values on as they are (floats stay the floats they were): no rounding / clipping of coordinates on the way
    CHANGING = ("np.round", "np.around", "round", "np.clip", "np.trunc", "np.rint", "np.fix")
    for fname in ("make_coordinate", "make_voxel_center"):
        fm = m.mod(PT).funcs.get(fname)
        if fm is None:
            continue
        n += 1
        ctx.instance(R)
        calls_ = [c_ for c_ in ast.walk(fm.node) if isinstance(c_, ast.Call) and (norm(c_.func) in CHANGING or (isinstance(c_.func, ast.Attribute) and c_.func.attr in ("round", "clip")))]
        ctx.ob(R, fm.qname, f"{fname} keeps the values it is given", not calls_,
               f"`{norm(calls_[0])[:70]}` changes the coordinates on the way into the point object: positions (origins, corners, voxel sizes derived from them) move by up to the rounding step -- "
               "for voxels of that size by a sizeable fraction of a voxel" if calls_ else "", calls_[0] if calls_ else fm.node, evidence=True)
    ctx.floor(R, 4)
    ctx.stat("int_casts_checked", n)


def _floored_buffer(f, operand, int_buffers):
    """np.round(...) of data that comes from an int buffer filled by floor stores is harmless."""
    for n in ast.walk(operand):
        if isinstance(n, ast.Name) and n.id in int_buffers:
            return True
    return False


# ---- C01.e --------------------------------------------------------------------------------

class ClassFolder(Folder):
    def __init__(self, model, classes, **kw):
        super().__init__(symbolic=True, **kw)
        self.model, self.classes = model, classes

    def e_Name(self, n, env):
        if n.id not in env and n.id in self.classes:
            return TypeTag(n.id)
        return super().e_Name(n, env)

    def c_isinstance(self, a, kw):
        v, t = a
        tags = t if isinstance(t, tuple) else (t,)
        if isinstance(v, Opaque) and v.tag in self.classes:
            mro = {k.name for k in self.model.mro(self.classes[v.tag])}
            return any(isinstance(tg, TypeTag) and tg.name in mro for tg in tags)
        return super().c_isinstance(a, kw)

    def _cmp(self, op, a, b):
        if isinstance(a, TypeTag) and isinstance(op, (ast.In, ast.NotIn)) and isinstance(b, (list, tuple)):
            r = any(isinstance(x, TypeTag) and x.name == a.name for x in b)
            return r if isinstance(op, ast.In) else not r
        return super()._cmp(op, a, b)


def rule_e(ctx):
    R = "C01.e"
    ctx.rule(R, "typed conversions folded symbolically over the class family: every (source kind, target kind) pair has a "
             "branch; same kind returns a copy; Voxel/VoxelCenter -> Coordinate passes through coordinatesystem.coordinate; "
             "Coordinate -> Voxel(Center) passes through coordinatesystem.voxel; `to` dispatches every class to its method; "
             "the four functions are attached to BasePoint")
    m = ctx.model
    mod = m.mod(PT)
    fam = ["Coordinate", "Voxel", "VoxelCenter", "CoordinateArray", "VoxelArray", "VoxelCenterArray"]
    classes = {n: m.cls(PT, n) for n in fam + ["BasePoint"]}
    kind = {"Coordinate": "C", "CoordinateArray": "C", "Voxel": "V", "VoxelArray": "V", "VoxelCenter": "VC", "VoxelCenterArray": "VC"}
    conv = {"C": "to_coordinate", "V": "to_voxel", "VC": "to_voxel_center"}
    maker = {"C": "make_coordinate", "V": "make_voxel", "VC": "make_voxel_center"}
    base = classes["BasePoint"]
    for name in list(conv.values()) + ["to"]:
        f = m.method(base, name)
        ctx.ob(R, f"{PT}.BasePoint", f"{name} is attached to BasePoint", f is not None and f.module is mod, "", mod.tree)
    n = 0
    for tk, fname in conv.items():
        f = mod.funcs.get(fname)
        ctx.need(f is not None, f"{PT}.{fname} not found")
        for src in fam:
            n += 1
            ctx.instance(R)
            sk = kind[src]
            me = Opaque(src, "self")
            cs = Opaque("CoordinateSystem", "cs")
            label = f"{src} -> {fname}"
            try:
                res = ClassFolder(m, classes).call(f.node, [me, cs])
            except Raised as e:
                from ..fold import raised_by_code
                ctx.ob(R, f.qname, f"{label}: has a branch", False, f"raises {e.name}" + ("" if raised_by_code(e) else " on a stand-in: analysable form not found"), f.node, evidence=raised_by_code(e))
                continue
            except Refuse as e:
                raise AnalysisError(f"{f.qname} outside the folding language: {e}")
            terms = [t.fn for t in res.walk()] if isinstance(res, Sym) else []
            ctx.ob(R, f.qname, f"{label}: has a branch", isinstance(res, Sym), repr(res), f.node)
            if not isinstance(res, Sym):
                continue
            if sk == tk:
                ctx.ob(R, f.qname, f"{label}: same kind returns a copy of the point", res.fn == "self.copy" and not res.args, repr(res), f.node)
            else:
                ctx.ob(R, f.qname, f"{label}: result is built by {maker[tk]}", res.fn == maker[tk], repr(res), f.node)
                inner = res.args[0] if res.args else None
                if tk == "C":
                    ok = isinstance(inner, Sym) and inner.fn == "cs.coordinate" and inner.args and inner.args[0] is me
                    ctx.ob(R, f.qname, f"{label}: passes through coordinatesystem.coordinate(self)", ok, repr(res), f.node)
                elif sk == "C":
                    ok = isinstance(inner, Sym) and inner.fn == "cs.voxel" and inner.args and inner.args[0] is me
                    ctx.ob(R, f.qname, f"{label}: passes through coordinatesystem.voxel(self)", ok, repr(res), f.node)
                else:
                    ctx.ob(R, f.qname, f"{label}: voxel <-> voxel centre converts the point itself", inner is me, repr(res), f.node)
    ctx.floor(R, 18)
    to = mod.funcs.get("to")
    ctx.need(to is not None, f"{PT}.to not found")
    for tgt in fam:
        me = Opaque("BasePoint", "self")
        cs = Opaque("CoordinateSystem", "cs")
        try:
            res = ClassFolder(m, classes).call(to.node, [me, TypeTag(tgt), cs])
            ok = isinstance(res, Sym) and res.fn == "self." + conv[kind[tgt]] and res.args and res.args[0] is cs
            ctx.ob(R, to.qname, f"to({tgt}) dispatches to {conv[kind[tgt]]}(coordinatesystem)", ok, repr(res), to.node)
        except Raised as e:
            from ..fold import raised_by_code
            ctx.ob(R, to.qname, f"to({tgt}) dispatches to {conv[kind[tgt]]}(coordinatesystem)", False, f"raises {e.name}" + ("" if raised_by_code(e) else " on a stand-in: analysable form not found"), to.node, evidence=raised_by_code(e))
        except Refuse as e:
            raise AnalysisError(f"{to.qname} outside the folding language: {e}")
    # Array containers return typed items
    for arr, item in (("CoordinateArray", "Coordinate"), ("VoxelArray", "Voxel"), ("VoxelCenterArray", "VoxelCenter")):
        g = classes[arr].methods.get("__getitem__")
        ctx.need(g is not None, f"{arr}.__getitem__ not found")
        ctors = [norm(c.func) for c in ast.walk(g.node) if isinstance(c, ast.Call) and norm(c.func) in fam]
        ctx.ob(R, g.qname, f"{arr}[int] -> {item}, {arr}[index array] -> {arr}", ctors == [item, arr], str(ctors), g.node)
        ctx.ob(R, f"{PT}.{arr}", f"{arr} derives from {item}", classes[item] in m.mro(classes[arr]), "", classes[arr].node)


def run(ctx):
    ctx.guard(rule_a, ctx)
    ctx.guard(rule_b, ctx)
    ctx.guard(rule_c, ctx)
    ctx.guard(rule_d, ctx)
    ctx.guard(rule_e, ctx)
    ctx.guard(rule_f, ctx)
    from .common import rule_extent_keywords

    ctx.guard(rule_extent_keywords, ctx, "C01.g")
    # the orientation of the axes is written down twice in the repository (interpret_indexing, and the flips / transposes of the
    # array-layout helpers); C01.a shows the table is self-consistent, the shared rule that the two statements of the convention agree
    from . import c20
    from .common import shared

    from . import c11 as _c11
    shared(ctx, "C01.b", _c11.rule_axis_reduction, why="Image.slice and reduce_axis build their result through AxisReduction: the parent's origin must stay untouched and the reduced image must sit where the table says, for either way of addressing the axis")
    T_i, _, _ = c20.extract_tables(ctx)
    shared(ctx, "C01.a", c20.rule_b, T_i, why="the documented orientation is fixed independently by the array-layout helpers; a self-consistent table with another orientation must disagree with them")
