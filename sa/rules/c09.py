"""C09 -- coordinate transformations: inverse pairs, forward/inverse composition, pull-back pipeline."""
from __future__ import annotations

import ast

from ..algebra import NC, NotPolynomial, Poly, ToNC, ToPoly
from ..amatch import AM
from ..flow import expand
from ..fold import table
from ..report import AnalysisError
from ..srcmodel import norm
from ..state import self_attr

LEVEL = "other"
AFF = "darsia.corrections.shape.affine"
ROT = "darsia.corrections.shape.rotation"
TRA = "darsia.corrections.shape.transformation"
CTR = "darsia.image.coordinatetransformation"
GEN = "darsia.corrections.shape.generalizedperspective"
IDX = "darsia.image.indexing"


# ---- C09.a ----------------------------------------------------------------------------------

def blocks_with_pair(fnode, fwd="rotation", inv="rotation_inv"):
    """Statement lists that assign both self.<fwd> and self.<inv> directly."""
    out = []
    for n in ast.walk(fnode):
        for fld in ("body", "orelse"):
            lst = getattr(n, fld, None)
            if not isinstance(lst, list) or not lst or not isinstance(lst[0], ast.stmt):
                continue
            a = [s for s in lst if isinstance(s, ast.Assign) and self_attr(s.targets[0]) == fwd]
            b = [s for s in lst if isinstance(s, ast.Assign) and self_attr(s.targets[0]) == inv]
            if a and b:
                out.append((lst, a, b, n))
    return out


def generator_arg(expr, env):
    """If expr is Rotation.from_rotvec(A).as_matrix()[...] (possibly through locals): (A, slice text) else None."""
    sl = ""
    e = expr
    if isinstance(e, ast.Subscript):
        sl = norm(e.slice)
        e = e.value
    if isinstance(e, ast.Call) and isinstance(e.func, ast.Attribute) and e.func.attr == "as_matrix":
        e = e.func.value
    if isinstance(e, ast.Name) and e.id in env:
        e = env[e.id]
        if isinstance(e, ast.Call) and isinstance(e.func, ast.Attribute) and e.func.attr == "as_matrix":
            e = e.func.value
        if isinstance(e, ast.Name) and e.id in env:
            e = env[e.id]
    if isinstance(e, ast.Call) and norm(e.func) == "Rotation.from_rotvec" and len(e.args) == 1:
        return e.args[0], sl
    return None


def rule_a(ctx):
    R = "C09.a"
    ctx.rule(R, "separately stored inverses are inverses: for every block that assigns self.rotation and self.rotation_inv side by side, "
             "both start at the identity, the generator arguments Rotation.from_rotvec(.) are exact negations (a reversal factor may be "
             "dropped only where the axis table proves it is +1), np.linalg.inv pairs are inverse by definition, and a loop that "
             "right-multiplies the forward matrix must left-multiply the inverse (word(X).word(X_inv) reduces to 1 for any number of factors)")
    m = ctx.model
    ctx.consult(AFF)
    ctx.consult(ROT)
    from . import c20

    T_i, _, _ = c20.extract_tables(ctx)
    sites = [m.func(AFF, "AffineTransformation.__init__"), m.func(AFF, "AffineTransformation.set_parameters"), m.func(ROT, "RotationCorrection.__init__")]
    interp = m.func(IDX, "interpret_indexing")
    n_sites = 0
    for f in sites:
        for lst, fa, ia, owner in blocks_with_pair(f.node):
            n_sites += 1
            ctx.instance(R)
            env = {}
            for s in lst:
                if isinstance(s, ast.Assign) and isinstance(s.targets[0], ast.Name):
                    env[s.targets[0].id] = s.value
            where = f"block at L{lst[0].lineno - f.node.lineno}+" if False else norm(owner.test)[:40] if isinstance(owner, ast.If) else ("loop" if isinstance(owner, ast.For) else "body")
            label = f"[{where}]"
            fv, iv = fa[-1].value, ia[-1].value
            in_loop = isinstance(owner, (ast.For, ast.While))
            if in_loop:
                # accumulation X = matmul(X, M) / X @ M
                def acc(v, attr):
                    if isinstance(v, ast.Call) and norm(v.func) in ("np.matmul", "np.dot") and len(v.args) == 2:
                        l, r = v.args
                    elif isinstance(v, ast.BinOp) and isinstance(v.op, ast.MatMult):
                        l, r = v.left, v.right
                    else:
                        return None
                    if self_attr(l) == attr:
                        return "right", r
                    if self_attr(r) == attr:
                        return "left", l
                    return None
                af, ai = acc(fv, "rotation"), acc(iv, "rotation_inv")
                if af is None or ai is None:
                    raise AnalysisError(f"{f.qname}: rotation accumulation in a loop is not of the form X = X @ M / M @ X")
                ctx.ob(R, f.qname, f"{label} forward accumulates on one side, inverse on the opposite side", af[0] != ai[0],
                       f"forward multiplies on the {af[0]}, inverse on the {ai[0]}: for factors g1..gn the forward matrix is g1 g2 .. gn, so the "
                       "inverse must be gn^-1 .. g1^-1; accumulating on the same side gives g1^-1 .. gn^-1, which is wrong as soon as two "
                       "angles are non-zero", ia[-1])
                gf, gi = generator_arg(af[1], env), generator_arg(ai[1], env)
            else:
                gf, gi = generator_arg(fv, env), generator_arg(iv, env)
            if gf is not None and gi is not None:
                # reversal factor: -1 if reverted else 1, provably 1 when the lookup is (cartesian letter, 'xyz'[:d])
                flip_is_one = False
                for s in lst:
                    if isinstance(s, ast.Assign) and isinstance(s.value, ast.Call) and m.resolve_call(s.value, f) is interp and len(s.value.args) == 2:
                        a1 = s.value.args[1]
                        a1 = env.get(a1.id, a1) if isinstance(a1, ast.Name) else a1
                        if norm(a1).startswith("'xyz'[:"):
                            flip_is_one = all(T_i[(a, "xyz"[:d])] == ("ret", (k, False)) for d in (1, 2, 3) for k, a in enumerate("xyz"[:d]))

                def atom(n):
                    if isinstance(n, ast.IfExp) and flip_is_one:
                        try:
                            b, o = ast.literal_eval(n.body), ast.literal_eval(n.orelse)
                        except Exception:
                            return None
                        if {b, o} == {1, -1}:
                            return Poly.const(o)  # not reverted
                    if isinstance(n, ast.Name) and n.id in env and isinstance(env[n.id], (ast.IfExp, ast.Constant)):
                        return conv(env[n.id])
                    return None

                conv = ToPoly(atomize=atom)
                try:
                    pf, pi = conv(gf[0]), conv(gi[0])
                    ok = (pf + pi) == Poly() and gf[1] == gi[1]
                    desc = f"forward from_rotvec({pf!r}){'[' + gf[1] + ']' if gf[1] else ''}, inverse from_rotvec({pi!r}){'[' + gi[1] + ']' if gi[1] else ''}"
                except NotPolynomial as e:
                    raise AnalysisError(f"{f.qname}: rotation vector outside the polynomial language: {e}")
                ctx.ob(R, f.qname, f"{label} generator arguments are exact negations", ok, desc, ia[-1])
            elif isinstance(iv, ast.Call) and norm(iv.func) == "np.linalg.inv":
                ctx.ob(R, f.qname, f"{label} inverse is np.linalg.inv of the forward matrix", norm(iv.args[0]) == norm(fv), f"{norm(fv)} / {norm(iv)}", ia[-1], evidence=False)
            elif norm(fv).startswith(("np.eye(", "np.diag(np.ones(")) and norm(fv) == norm(iv):
                ctx.ob(R, f.qname, f"{label} both start at the identity", True, norm(fv), ia[-1], evidence=False)
            elif not in_loop:
                raise AnalysisError(f"{f.qname}: unrecognised forward/inverse pair `{norm(fv)[:60]}` / `{norm(iv)[:60]}`")
            # initial values for loops
            if in_loop:
                par = getattr(owner, "_parent", None)
                sib = None
                for fld in ("body", "orelse"):
                    l2 = getattr(par, fld, None)
                    if isinstance(l2, list) and owner in l2:
                        sib = l2[:l2.index(owner)]
                init = {self_attr(s.targets[0]): norm(s.value) for s in (sib or []) if isinstance(s, ast.Assign) and self_attr(s.targets[0])}
                ctx.ob(R, f.qname, f"{label} both accumulators start at the identity", init.get("rotation", "").startswith(("np.eye(", "np.diag(np.ones(")) and init.get("rotation") == init.get("rotation_inv"),
                       str(init), owner, evidence=False)
    ctx.floor(R, 7)


# ---- C09.b ----------------------------------------------------------------------------------

def rule_b(ctx):
    R = "C09.b"
    ctx.rule(R, "inverse_array o call_array is the identity (and vice versa): both return expressions are brought to non-commutative "
             "normal form over the atoms X (points, one per row), T (translation broadcast), R, R_inv, scalar s; substituting one into "
             "the other and cancelling R^T R_inv^T (C09.a) must give X")
    m = ctx.model
    fwd = m.func(AFF, "AffineTransformation.call_array")
    inv = m.func(AFF, "AffineTransformation.inverse_array")
    ctx.instance(R)

    def nf(f):
        x = f.params[1]
        rets = [r.value for r in ast.walk(f.node) if isinstance(r, ast.Return)]
        env = {norm(s.targets[0]): s.value for s in f.node.body if isinstance(s, ast.Assign) and isinstance(s.targets[0], ast.Name)}
        ctx.need(len(rets) == 1, f"{f.qname}: single return expected")

        def symb(n):
            if isinstance(n, ast.Call) and norm(n.func) == "np.outer" and len(n.args) == 2 and norm(n.args[0]).startswith("np.ones("):
                return "T(" + norm(n.args[1]) + ")"
            if isinstance(n, ast.Name) and n.id == x:
                return "X"
            return None

        return ToNC(env=env, symbolize=symb, scalars={"self.scaling"})(rets[0])

    F, G = nf(fwd), nf(inv)
    X, T = NC.sym("X"), NC.sym("T(self.translation)")
    Rm, Ri = NC.sym("self.rotation"), NC.sym("self.rotation_inv")
    s = Poly.atom("self.scaling")
    # a term is judged only if it is written in the rule's vocabulary (X, the translation row T(.), the two rotation matrices, the scaling); a call of
    # a helper or another name in it is something the algebra does not know
    import re as _re
    VOCAB = ("X", "T(", "self.rotation", "self.rotation_inv", "self.scaling", "matrix", "offset")
    def closed(t_):
        return not [a_ for a_ in _re.findall(r"[A-Za-z_][\w.]*\(?", repr(t_)) if not a_.startswith(VOCAB) and a_ not in ("T",)]
    ctx.ob(R, fwd.qname, "call_array(X) = T + s * X . R^T", F == T + (X @ Rm.T()).scale(s), repr(F), fwd.node, evidence=closed(F))
    ctx.ob(R, inv.qname, "inverse_array(Y) = (1/s) * (Y - T) . R_inv^T", G == ((X - T) @ Ri.T()).scale(s.inv()), repr(G), inv.node, evidence=closed(G))
    pairs = [("self.rotation", "self.rotation_inv")]
    c1 = G.subst("X", F).cancel(pairs)
    c2 = F.subst("X", G).cancel(pairs)
    ctx.ob(R, inv.qname, "inverse_array(call_array(X)) reduces to X", c1 == X, repr(c1), inv.node, evidence=closed(F) and closed(G))
    ctx.ob(R, fwd.qname, "call_array(inverse_array(X)) reduces to X", c2 == X, repr(c2), fwd.node, evidence=closed(F) and closed(G))
    ctx.floor(R, 1)


# ---- C09.c ----------------------------------------------------------------------------------

def _fold_typed_eval(f, core, arr, single):
    """Fold __call__ / inverse for a collection of points (shape (4, 2)) and a single point (shape (2,)): the result must be
    <array type>(core(points as 2d array)) resp. <point type>(core(...)[0]).  Disagreements, or None outside the folding language."""
    from ..fold import Folder, Obj, Opaque, Raised, Refuse, Sym

    bad = []
    for shape, wrap in (((4, 2), arr), ((2,), single)):
        x = Obj("x", {"shape": shape, "ndim": len(shape)})
        fo = Folder(symbolic=True)
        fo.func_stack.append(f.node)
        fo.fold_all_methods = True
        made = {}

        def asarray(a, k):
            if not (a and isinstance(a[0], Obj) and "shape" in a[0].fields):
                raise Refuse("asarray of an unknown value")
            return Obj("xa", {"shape": a[0].fields["shape"], "ndim": len(a[0].fields["shape"]), "of": a[0]})

        def atleast_2d(a, k):
            if not (a and isinstance(a[0], Obj) and "shape" in a[0].fields):
                raise Refuse("atleast_2d of an unknown value")
            s_ = a[0].fields["shape"]
            s2 = s_ if len(s_) >= 2 else (1,) * (2 - len(s_)) + tuple(s_)
            made["x2d"] = Obj("x2d", {"shape": s2, "ndim": len(s2), "of": a[0]})
            return made["x2d"]
        fo.overrides = {"np.asarray": asarray, "np.atleast_2d": atleast_2d, "np.array": asarray}
        selfo = Obj("self", {"__class__": "BaseTransformation", "input_dtype": Opaque("callable", "self.input_dtype"), "output_dtype": Opaque("callable", "self.output_dtype"),
                             "input_array_dtype": Opaque("callable", "self.input_array_dtype"), "output_array_dtype": Opaque("callable", "self.output_array_dtype")})
        try:
            r = fo.call(f.node, [selfo, x])
        except (Refuse, Raised):
            return None
        if not isinstance(r, Sym) or "x2d" not in made:
            return None
        inner = Sym(core, [made["x2d"]])
        want = f"{wrap}({inner!r})" if len(shape) == 2 else f"{wrap}({inner!r}[0]())"
        if repr(r) != want:
            bad.append(f"{'collection of points' if len(shape) == 2 else 'single point'}: returns {r!r}, documented {want}")
    return bad


def _fold_set_dtype(sd):
    """Fold set_dtype for every pair of point classes: ([table disagreements], [point-type disagreements]) or None."""
    from ..fold import Folder, Obj, Opaque, Raised, Refuse

    MAP = {"darsia.Coordinate": "darsia.CoordinateArray", "darsia.Voxel": "darsia.VoxelArray", "darsia.VoxelCenter": "darsia.VoxelCenterArray", "np.ndarray": "np.ndarray"}
    kinds = list(MAP) + ["builtins.list"]
    tab, pts = [], []
    for a in kinds:
        for b in kinds:
            fo = Folder(symbolic=True)
            fo.func_stack.append(sd.node)
            fo.fold_all_methods = True
            so = Obj("self", {"__class__": "BaseTransformation"})

            def coll(label, kind, first_only=True):
                return Obj(label, {"shape": (4, 2), "__getitem__": lambda x, k, kind=kind: Obj("pt", {"__type__": Opaque("callable", kind if x == [0] else "builtins.other")})})
            try:
                fo.call(sd.node, [so, coll("P", a), coll("Q", b)])
            except Raised as e_:
                if not isinstance(getattr(e_, "node", None), ast.Raise):
                    return None   # an exception of the fold's own making (a look-up on stand-ins), not a `raise` of the code: nothing known
                if a in MAP and b in MAP:
                    tab.append(f"({a}, {b}): raises although both point classes are supported")
                continue
            except Refuse:
                return None
            if a not in MAP or b not in MAP:
                tab.append(f"({a}, {b}): accepted although {'the source' if a not in MAP else 'the destination'} class is not a supported point class")
                continue
            got = {k: getattr(v, "label", repr(v)) for k, v in so.fields.items() if k.endswith("dtype")}
            if (got.get("input_dtype"), got.get("output_dtype")) != (a, b):
                pts.append(f"({a}, {b}): input_dtype={got.get('input_dtype')}, output_dtype={got.get('output_dtype')}")
            elif (got.get("input_array_dtype"), got.get("output_array_dtype")) != (MAP[a], MAP[b]):
                tab.append(f"({a}, {b}): input_array_dtype={got.get('input_array_dtype')}, output_array_dtype={got.get('output_array_dtype')}")
    return tab, pts


def rule_c(ctx):
    R = "C09.c"
    ctx.rule(R, "typed in/out conversion is symmetric: __call__ evaluates call_array and wraps in output_(array_)dtype, inverse evaluates "
             "inverse_array and wraps in input_(array_)dtype; set_dtype maps each point class to its Array class with identical tables "
             "for input and output and ends in raise")
    m = ctx.model
    ctx.consult(TRA)
    for name, core, arr, single in (("BaseTransformation.__call__", "self.call_array", "self.output_array_dtype", "self.output_dtype"),
                                    ("BaseTransformation.inverse", "self.inverse_array", "self.input_array_dtype", "self.input_dtype")):
        f = m.func(TRA, name)
        ctx.instance(R)
        sem = _fold_typed_eval(f, core, arr, single)
        if sem is not None:
            ctx.ob(R, f.qname, f"evaluates {core} and wraps the result in {arr} / {single}", not sem, "; ".join(sem), f.node, evidence=True)
            continue
        calls = [norm(c.func) for c in ast.walk(f.node) if isinstance(c, ast.Call) and norm(c.func).startswith("self.") and norm(c.func).endswith("_array")]
        rets = [norm(r.value.func) for r in ast.walk(f.node) if isinstance(r, ast.Return) and isinstance(r.value, ast.Call)]
        ctx.ob(R, f.qname, f"evaluates {core} and wraps the result in {arr} / {single}", calls == [core] and rets == [arr, single], f"calls {calls}, returns {rets}", f.node)
    sd = m.func(TRA, "BaseTransformation.set_dtype")
    sem = _fold_set_dtype(sd)
    if sem is not None:
        ctx.ob(R, sd.qname, "input and output tables are identical and map each point class to its Array class", not sem[0], "; ".join(sem[0][:3]), sd.node, evidence=True)
        ctx.ob(R, sd.qname, "point types are taken from the first source / destination point", not sem[1], "; ".join(sem[1][:3]), sd.node, evidence=True)
        ctx.floor(R, 2)
        return
    tabs = {}
    for iff in sd.node.body:
        def sides(t):
            """(dtype attribute, other operand) of `self.X_dtype == K` in either operand order."""
            if isinstance(t, ast.Compare) and len(t.ops) == 1:
                for a_, b_ in ((t.left, t.comparators[0]), (t.comparators[0], t.left)):
                    if self_attr(a_) in ("input_dtype", "output_dtype"):
                        return self_attr(a_), b_
            return None, None
        if isinstance(iff, ast.If) and sides(iff.test)[0]:
            side = sides(iff.test)[0].split("_")[0]
            cur, tab = iff, {}
            while True:
                key = norm(sides(cur.test)[1]) if sides(cur.test)[0] else norm(cur.test)
                val = [norm(s.value) for s in cur.body if isinstance(s, ast.Assign) and self_attr(s.targets[0]) == f"{side}_array_dtype"]
                tab[key] = val[0] if val else None
                if len(cur.orelse) == 1 and isinstance(cur.orelse[0], ast.If):
                    cur = cur.orelse[0]
                    continue
                tab["__raise__"] = any(isinstance(s, ast.Raise) for s in cur.orelse)
                break
            tabs[side] = tab
    want = {"darsia.Coordinate": "darsia.CoordinateArray", "darsia.Voxel": "darsia.VoxelArray", "darsia.VoxelCenter": "darsia.VoxelCenterArray", "np.ndarray": "np.ndarray", "__raise__": True}
    ctx.ob(R, sd.qname, "input and output tables are identical and map each point class to its Array class", tabs.get("input") == want and tabs.get("output") == want, str(tabs), sd.node)
    src = {self_attr(s.targets[0]): norm(s.value) for s in sd.node.body if isinstance(s, ast.Assign) and self_attr(s.targets[0]) in ("input_dtype", "output_dtype")}
    ctx.ob(R, sd.qname, "point types are taken from the first source / destination point", src == {"input_dtype": f"type({sd.params[1]}[0])", "output_dtype": f"type({sd.params[2]}[0])"}, str(src), sd.node)
    ctx.floor(R, 2)


def _fold_dst_metadata(f):
    """Fold CoordinateTransformation.correct_metadata on an image whose metadata() is a known dict: the result keeps every entry
    except dimensions / origin, which are those of coordinatesystem_dst.  Disagreements, or None outside the folding language."""
    from ..fold import Folder, Obj, Opaque, Raised, Refuse

    base = {k: Opaque("meta", k) for k in ("space_dim", "dimensions", "origin", "name", "series")}
    dims, org = Opaque("list", "DST.dimensions"), Opaque("coord", "DST.origin")
    image = Obj("image", {"metadata": lambda a, k: dict(base)})
    so = Obj("self", {"coordinatesystem_dst": Obj("DST", {"dimensions": dims, "_coordinate_of_origin_voxel": org}),
                      "coordinatesystem_src": Obj("SRC", {"dimensions": Opaque("list", "SRC.dimensions"), "_coordinate_of_origin_voxel": Opaque("coord", "SRC.origin")})})
    fo = Folder(symbolic=True)
    fo.func_stack.append(f.node)
    fo.overrides = {"copy.copy": lambda a, k: dict(a[0]) if a and isinstance(a[0], dict) else a[0], "copy.deepcopy": lambda a, k: dict(a[0]) if a and isinstance(a[0], dict) else a[0]}
    try:
        r = fo.call(f.node, [so, image])
    except (Refuse, Raised):
        return None
    if not isinstance(r, dict):
        return None
    bad = []
    if r.get("dimensions") is not dims:
        bad.append(f"dimensions = {r.get('dimensions')!r}")
    if r.get("origin") is not org:
        bad.append(f"origin = {r.get('origin')!r}")
    other = [k for k in base if k not in ("dimensions", "origin") and r.get(k) is not base[k]]
    if other or set(r) != set(base):
        bad.append(f"entries {other or sorted(set(r) ^ set(base))} are not carried over from the source metadata")
    return bad


def _fold_warp(f):
    """Fold TransformationCorrection.correct_array (2 space dimensions, no cache yet): one store into the returned array, whose index
    tuple is voxels_dst[M, j] and whose value is array_src[(cache.voxels_src[M, j])_j] with the same M = cache.valid_voxels.
    Disagreements (only where both masks can be read off), or None when the form is outside what the fold can compare."""
    from ..fold import Arr, Folder, Obj, Opaque, Raised, Refuse, Sym

    cs_src = Obj("CS_SRC", {"dim": 2, "shape": Opaque("tuple", "SHAPE_SRC")})
    cs_dst = Obj("CS_DST", {"shape": (7, 9), "voxels": Opaque("VoxelArray", "VOX_DST")})
    so = Obj("self", {"__class__": "TransformationCorrection", "coordinatesystem_src": cs_src, "coordinatesystem_dst": cs_dst,
                      "transformation": Obj("T", {"input_dtype": Opaque("callable", "T.input_dtype")})})
    src = Obj("SRC", {"shape": (5, 6, 3), "dtype": Opaque("dtype", "SRC.dtype"), "ndim": 3})
    fo = Folder(symbolic=True)
    fo.func_stack.append(f.node)
    try:
        r = fo.call(f.node, [so, src])
    except (Refuse, Raised):
        return None
    sets = [t for t in fo.trace if isinstance(t, Sym) and t.fn == "setitem"]
    from ..fold import escapes

    if escapes(fo.trace, r):
        return None
    cache = so.fields.get("cache")
    if len(sets) != 1 or not isinstance(cache, Sym) or not {"voxels_src", "valid_voxels"} <= set(cache.kw):
        return None
    V, M = cache.kw["voxels_src"], cache.kw["valid_voxels"]
    out, idx, val = sets[0].args
    bad = []
    if out is not r:
        bad.append("the array that is stored into is not the array that is returned")
    if not (isinstance(r, Arr) and tuple(r.shape) == (7, 9, 3)):
        bad.append(f"the returned array has shape {getattr(r, 'shape', None)}, documented destination shape + source payload (7, 9, 3)")
    if not (isinstance(idx, tuple) and len(idx) == 2 and all(isinstance(x, Sym) for x in idx) and isinstance(val, Sym)):
        return None
    masks = []
    for j, x in enumerate(idx):
        pre, suf = "VOX_DST[", f", {j}]"
        if not (x.fn.startswith(pre) and x.fn.endswith(suf)):
            return None
        masks.append(x.fn[len(pre):-len(suf)])
    want_src = lambda mk: "SRC[" + ", ".join(repr(Sym(f"{V!r}[{mk}, {j}]")) for j in range(2)) + "]"
    if len(set(masks)) != 1:
        bad.append("destination axes are selected with different masks")
    elif val.fn == want_src(masks[0]):
        if masks[0] != repr(M):
            bad.append(f"the selection mask is {masks[0][:80]}, not the cached validity mask")
    elif val.fn == want_src(repr(M)):
        bad.append(f"source voxels are selected with the cached validity mask, destination voxels with {masks[0][:80]}")
    else:
        return None if not bad else bad
    return bad


# ---- C09.d ----------------------------------------------------------------------------------

def rule_d(ctx):
    R = "C09.d"
    ctx.rule(R, "the warp pulls back through voxel centres with a two-sided mask: destination voxels -> to_voxel_center -> "
             "to(transformation.input_dtype, coordinatesystem_dst) -> transformation.inverse -> to_voxel(coordinatesystem_src); valid = "
             "all(>= 0 and < coordinatesystem_src.shape, axis=1); the same mask selects destination and source indices; output is "
             "zero-initialised with the destination shape; the cache depends on constructor-set attributes only")
    m = ctx.model
    f = m.func(TRA, "TransformationCorrection.correct_array")
    ctx.instance(R)
    am = AM(f)
    arr = f.params[1]
    body_nodes = list(ast.walk(f.node))
    am.let("voxels_dst", "self.coordinatesystem_dst.voxels")
    am.let("dim", "self.coordinatesystem_src.dim")
    # the stages may be named or written in place: they are declared as template-level temporaries
    am.let("t_in", "voxels_dst.to_voxel_center().to(self.transformation.input_dtype, self.coordinatesystem_dst)")
    am.let("t_out", "self.transformation.inverse(t_in)")
    s1 = am.has(f.node, "voxels_dst.to_voxel_center().to(self.transformation.input_dtype, self.coordinatesystem_dst)")
    # named contradiction: the voxels of the destination system (integer indices: coordinatesystem.voxels / make_voxel) are handed to `.to(<input type>, cs)`
    # without a conversion to voxel centres on the way -- the pull-back is evaluated at the corners, the warp is shifted by half a voxel
    corner = None
    for c_ in body_nodes:
        if isinstance(c_, ast.Call) and isinstance(c_.func, ast.Attribute) and c_.func.attr == "to" and c_.args and "input_dtype" in norm(c_.args[0]):
            recv = expand(f.node, c_.func.value)
            t_ = norm(recv)
            if "to_voxel_center" not in t_ and "VoxelCenter" not in t_ and "make_voxel_center" not in t_ and "+ 0.5" not in t_ and (t_.endswith(".voxels") or t_.startswith(("darsia.make_voxel(", "darsia.VoxelArray("))):
                corner = c_
    ctx.ob(R, f.qname, "stage 1: destination voxels -> voxel centres -> transformation input type in the destination system", s1 is not None,
           (f"`{norm(corner)[:80]}` converts the integer voxels themselves: the transformation is evaluated at voxel corners, not centres" if corner is not None else ""), corner or f.node,
           evidence=corner is not None)
    s2 = am.has(f.node, "self.transformation.inverse(t_in)")
    ctx.ob(R, f.qname, "stage 2: the inverse transformation is applied to stage 1", s2 is not None, "", f.node)
    s3 = am.has(f.node, "voxels_src = t_out.to_voxel(self.coordinatesystem_src)")
    ctx.ob(R, f.qname, "stage 3: converted to voxels of the source system", s3 is not None, "", f.node)
    ok_dim = True
    MASKS = ("np.all(np.logical_and(voxels_src >= np.zeros(dim, dtype=int), voxels_src < self.coordinatesystem_src.shape), axis=1)",
             "np.all(np.logical_and(voxels_src < self.coordinatesystem_src.shape, voxels_src >= np.zeros(dim, dtype=int)), axis=1)")
    mk, mk_t = None, None
    for t_ in MASKS:
        mk = am.has(f.node, t_)
        if mk is not None:
            mk_t = t_
            break
    ctx.ob(R, f.qname, "validity mask is two-sided: 0 <= source voxel < source shape on every axis", mk is not None and ok_dim, str(am.show()), f.node)
    n_all = sum(1 for c in ast.walk(f.node) if isinstance(c, ast.Call) and norm(c.func) == "np.all")
    if mk is not None:
        am.let("valid", mk_t)
    warp = am.has(f.node, f"array_dst[tuple((voxels_dst[self.cache.valid_voxels, j] for j in range(dim)))] = {arr}[tuple((self.cache.voxels_src[self.cache.valid_voxels, j] for j in range(dim)))]")
    sem = _fold_warp(f) if warp is None else None
    if sem is not None:
        ctx.ob(R, f.qname, "the same mask selects destination voxels and source voxels in the assignment", not sem, "; ".join(sem), f.node, evidence=True)
    else:
        ctx.ob(R, f.qname, "the same mask selects destination voxels and source voxels in the assignment", warp is not None, "", f.node)
    alloc = False
    for shp in (f"(*self.coordinatesystem_dst.shape, *list({arr}.shape)[dim:])", f"(*self.coordinatesystem_dst.shape, *{arr}.shape[dim:])", f"(*self.coordinatesystem_dst.shape, *tuple({arr}.shape)[dim:])"):
        am_a = AM(f)
        am_a.bind.update(am.bind)
        am_a.lets.update(am.lets)
        am_a.let("shape", shp)
        if am_a.has(f.node, f"array_dst = np.zeros(shape, dtype={arr}.dtype)") is not None:
            alloc = True
            am.bind.update(am_a.bind)
            break
    n_alloc = len([s_ for s_ in body_nodes if isinstance(s_, ast.Assign) and isinstance(s_.targets[0], ast.Name) and s_.targets[0].id == (am.actual("array_dst") or "array_dst")])
    ctx.ob(R, f.qname, "output is zero-initialised (once, unconditionally) with destination spatial shape and source payload shape", alloc and n_alloc == 1, f"{n_alloc} definition(s) of the output array", f.node)
    cache = am.has(f.node, "self.cache = Cache(voxels_src=voxels_src, valid_voxels=valid)") if mk is not None else None
    ctx.ob(R, f.qname, "cache stores exactly the source voxels and the (one) mask", cache is not None and n_all == 1, "", f.node)
    dep = set()
    for st in (s1, s2, s3, mk):
        if st is not None:
            dep |= {x.id for x in ast.walk(expand(f.node, st.value if isinstance(st, ast.Assign) else st)) if isinstance(x, ast.Name)}
    ctx.ob(R, f.qname, "cached warp does not depend on the array passed to the call", arr not in dep, str(sorted(dep)), f.node)
    ctx.floor(R, 1)


# ---- C09.e ----------------------------------------------------------------------------------

def rule_e(ctx):
    R = "C09.e"
    ctx.rule(R, "destination labelling: correct_metadata of CoordinateTransformation and GeneralizedPerspectiveCorrection takes dimensions and "
             "origin from the destination coordinate system; CoordinateTransformation.__call__ builds the result from the corrected array "
             "(overwrite=False) and that metadata")
    m = ctx.model
    ctx.consult(CTR)
    ctx.consult(GEN)
    f = m.func(CTR, "CoordinateTransformation.correct_metadata")
    ctx.instance(R)
    st = {s.targets[0].slice.value: norm(s.value) for s in ast.walk(f.node) if isinstance(s, ast.Assign) and isinstance(s.targets[0], ast.Subscript) and isinstance(s.targets[0].slice, ast.Constant)}
    sem = _fold_dst_metadata(f) if not st else None
    if sem is not None:
        ctx.ob(R, f.qname, "dimensions and origin come from coordinatesystem_dst", not sem, "; ".join(sem), f.node, evidence=True)
    else:
        ctx.ob(R, f.qname, "dimensions and origin come from coordinatesystem_dst", st == {"dimensions": "self.coordinatesystem_dst.dimensions", "origin": "self.coordinatesystem_dst._coordinate_of_origin_voxel"}, str(st), f.node)
    c = m.func(CTR, "CoordinateTransformation.__call__")
    p = c.params[1]
    rets = [norm(expand(c.node, r.value)) for r in ast.walk(c.node) if isinstance(r, ast.Return) and r.value is not None]
    ctx.ob(R, c.qname, "result = type(image)(corrected array, **destination metadata), input not overwritten",
           rets == [f"type({p})(self.affine_correction({p}, overwrite=False).img, **self.correct_metadata({p}))"], str(rets), c.node,
           evidence=any(f"({p}, overwrite=True)" in r_ or f"({p}, True)" in r_ for r_ in rets))  # the caller's image is handed over to be overwritten
    g = m.func(GEN, "GeneralizedPerspectiveCorrection.correct_metadata")
    rets = [r.value for r in ast.walk(g.node) if isinstance(r, ast.Return)]
    d = {k.value: norm(v) for k, v in zip(rets[0].keys, rets[0].values)} if rets and isinstance(rets[0], ast.Dict) else {}
    init = m.func(GEN, "GeneralizedPerspectiveCorrection.__init__")
    a = {self_attr(s.targets[0]): norm(s.value) for s in init.node.body if isinstance(s, ast.Assign) and self_attr(s.targets[0])}
    ok = d == {"dimensions": "self.dst_dimensions", "origin": "self.dst_origin"} and a.get("dst_dimensions") == "coordinatesystem_dst.dimensions" and a.get("dst_origin") == "coordinatesystem_dst._coordinate_of_origin_voxel"
    ctx.ob(R, g.qname, "generalized perspective correction labels the result with the destination system", ok, f"{d} {a}", g.node)
    ctx.floor(R, 1)


def rule_f(ctx):
    R = "C09.f"
    ctx.rule(R, "source and destination are not mixed up: wherever a parameter or attribute whose name carries the role suffix _src / _dst is "
             "converted with a coordinate system (`.to_coordinate(cs)`, `.to_voxel(cs)`, `.to_voxel_center(cs)`, `.to(type, cs)`) the system carries "
             "the same role; keyword arguments named *_src / *_dst receive values of the same role; role-carrying attributes are "
             "assigned from parameters of the same role (role = API name suffix, never a local's spelling)")
    m = ctx.model
    mods = ["darsia.corrections.shape.affine", "darsia.corrections.shape.transformation", "darsia.corrections.shape.generalizedperspective",
            "darsia.corrections.shape.rotation", "darsia.image.coordinatetransformation"]

    def role(txt):
        for r in ("src", "dst"):
            if txt.endswith("_" + r) or txt.startswith(r + "_") or f"_{r}_" in txt:
                return r
        return None

    n = 0
    for mn in mods:
        if mn not in m.modules:
            continue
        ctx.consult(mn)
        mod = m.mod(mn)
        for f in list(mod.funcs.values()) + [g for c in mod.classes.values() for g in c.methods.values()]:
            params = set(f.params)

            def api_role(e):
                """Role of an expression that is a parameter, or an attribute chain ending in a role-carrying attribute of self / a parameter."""
                b = e
                while isinstance(b, ast.Call) and isinstance(b.func, ast.Attribute):
                    b = b.func.value  # receiver of a method chain
                if isinstance(b, ast.Name) and b.id in params:
                    return role(b.id)
                if isinstance(b, ast.Attribute) and isinstance(b.value, ast.Name) and (b.value.id == "self" or b.value.id in params):
                    return role(b.attr)
                if isinstance(b, ast.Name) and b.id not in params:
                    # a local bound once to a typed conversion: it holds points of the system they were converted in (aliases of the system followed)
                    defs = [s_ for s_ in ast.walk(f.node) if isinstance(s_, ast.Assign) and len(s_.targets) == 1 and isinstance(s_.targets[0], ast.Name) and s_.targets[0].id == b.id]
                    if len(defs) == 1 and isinstance(defs[0].value, ast.Call) and isinstance(defs[0].value.func, ast.Attribute) and defs[0].value.func.attr in ("to_voxel", "to_coordinate", "to_voxel_center") \
                            and defs[0].value.args:
                        cs_ = expand(f.node, defs[0].value.args[-1])
                        if "coordinatesystem" in norm(cs_) and isinstance(cs_, ast.Attribute) and isinstance(cs_.value, ast.Name) and cs_.value.id == "self":
                            return role(cs_.attr)
                return None

            for c in ast.walk(f.node):
                if isinstance(c, ast.Call) and isinstance(c.func, ast.Attribute) and c.func.attr in ("to_coordinate", "to_voxel", "to_voxel_center", "to") and c.args:
                    cs = expand(f.node, c.args[-1])
                    r_recv, r_cs = api_role(c.func.value), api_role(cs)
                    if r_recv and r_cs and "coordinatesystem" in norm(cs):
                        n += 1
                        ctx.instance(R)
                        ctx.ob(R, f.qname, f"`{norm(c)[:70]}`: {r_recv} points are converted in the {r_recv} coordinate system", r_recv == r_cs,
                               f"points of role {r_recv} are interpreted in the coordinate system of role {r_cs}", c)
                if isinstance(c, ast.Call):
                    for k in c.keywords:
                        if k.arg and role(k.arg) and api_role(k.value):
                            n += 1
                            ctx.instance(R)
                            ctx.ob(R, f.qname, f"keyword {k.arg}= receives a {role(k.arg)} value", role(k.arg) == api_role(k.value), f"{k.arg}={norm(k.value)}", c)
                if isinstance(c, ast.Assign) and len(c.targets) == 1 and self_attr(c.targets[0]) and role(self_attr(c.targets[0])) and api_role(c.value) \
                        and isinstance(c.value, (ast.Name, ast.Attribute)):
                    n += 1
                    ctx.instance(R)
                    ctx.ob(R, f.qname, f"self.{self_attr(c.targets[0])} is assigned from a value of the same role", role(self_attr(c.targets[0])) == api_role(c.value), norm(c), c)
    ctx.floor(R, 8)


def rule_g(ctx):
    R = "C09.g"
    ctx.rule(R, "scaling, translation and rotation act as given: AffineTransformation.set_parameters is folded for every subset of "
             "{translation, scaling, rotation} (2-d and 3-d) on an object with symbolic previous parameters -- a parameter that is passed "
             "is stored, a parameter that is not passed keeps its previous value, whatever else is passed")
    from ..fold import Folder, Obj, Opaque, Raised, Refuse
    from ..terms import nf

    m = ctx.model
    f = m.func(AFF, "AffineTransformation.set_parameters")
    ctx.instance(R)
    bad, und = [], []
    for dim in (2, 3):
        for mask in range(8):
            given = {"translation": bool(mask & 1), "scaling": bool(mask & 2), "rotation": bool(mask & 4)}
            so = Obj("self", {"__class__": "AffineTransformation", "dim": dim, "translation": Opaque("v", "T0"), "scaling": Opaque("s", "S0"),
                              "rotation": Opaque("m", "R0"), "rotation_inv": Opaque("m", "RI0")})
            kw = {}
            if given["translation"]:
                kw["translation"] = Opaque("v", "T1")
            if given["scaling"]:
                kw["scaling"] = Opaque("s", "S1")
            if given["rotation"]:
                kw["rotation"] = [Opaque("a", f"A{k}") for k in range(1 if dim == 2 else 3)]
            fo = Folder(symbolic=True)
            fo.func_stack.append(f.node)
            fo.fold_all_methods = True
            try:
                fo.call(f.node, [so], kw)
            except (Refuse, Raised) as e:
                und.append(f"dim {dim}, given {sorted(k for k, v in given.items() if v)}: {e}")
                continue
            case = f"dim {dim}, passed {sorted(k for k, v in given.items() if v) or 'nothing'}"
            for name, old, new_ in (("translation", "T0", "T1"), ("scaling", "S0", "S1")):
                got = nf(so.fields.get(name))
                want = new_ if given[name] else old
                if got != want:
                    bad.append(f"{case}: self.{name} is {got}, expected {want}")
            r_, ri_ = nf(so.fields.get("rotation")), nf(so.fields.get("rotation_inv"))
            if given["rotation"] and (r_ == "R0" or ri_ == "RI0"):
                bad.append(f"{case}: the rotation is not updated")
            if not given["rotation"] and (r_ != "R0" or ri_ != "RI0"):
                bad.append(f"{case}: the rotation changes although none was passed")
    # named contradiction, independent of the fold: a parameter re-bound to a value-changing function of itself before it is used (angles
    # clipped to a range, a scaling made positive): the stored map is that of other parameters than the ones passed.  (Reducing an angle modulo a
    # full turn keeps the rotation and is not in this list.)
    CHANGING = ("np.clip", "np.minimum", "np.maximum", "np.abs", "np.absolute", "abs", "np.round", "np.floor", "np.ceil", "np.sign", "min", "max", "round")
    for s_ in ast.walk(f.node):
        if isinstance(s_, ast.Assign) and len(s_.targets) == 1 and isinstance(s_.targets[0], ast.Name) and s_.targets[0].id in f.params[1:] and isinstance(s_.value, ast.Call) \
                and norm(s_.value.func) in CHANGING and s_.targets[0].id in {x.id for x in ast.walk(s_.value) if isinstance(x, ast.Name)}:
            bad.append(f"`{norm(s_)[:70]}` replaces the passed {s_.targets[0].id} by another value before it is stored / used: set_parameters({s_.targets[0].id}=v) no longer gives the map of v "
                       "(an angle beyond the range becomes the bound: 3*pi/2 turns into a half turn)")
    if und and not bad:
        ctx.ob(R, f.qname, "each passed parameter is stored, each omitted one is kept (all subsets, 2-d and 3-d)", False, "", f.node)
    else:
        ctx.ob(R, f.qname, "each passed parameter is stored, each omitted one is kept (all subsets, 2-d and 3-d)", not bad, "; ".join(bad[:3]), f.node, evidence=True)
    ctx.floor(R, 1)


def c01_rule_b(ctx):
    from . import c01

    c01.rule_b(ctx)


def run(ctx):
    ctx.guard(rule_g, ctx)
    ctx.guard(rule_a, ctx)
    ctx.guard(rule_b, ctx)
    ctx.guard(rule_c, ctx)
    ctx.guard(rule_d, ctx)
    ctx.guard(rule_e, ctx)
    ctx.guard(rule_f, ctx)
    # transformation corrections are applied through the shared BaseCorrection workflow (copy / overwrite, per-slice series handling)
    from . import c10
    from .common import shared

    def workflow(ctx_):
        f_, img_b_, sem_ = c10.rule_a(ctx_)
        c10.rule_c(ctx_, f_, img_b_, sem_)
    shared(ctx, "C09.e", workflow, why="CoordinateTransformation / TransformationCorrection act on images only through BaseCorrection.__call__")
    from ..effects import Effects as _Eff
    ctx.guard(shared, ctx, "C09.d", c10.rule_f, _Eff(ctx.model), why="a warped array that is kept on the correction object and handed out again is overwritten by the next call: earlier results and the slices of a series become the last warp")
    # pulled-back points become source voxels through CoordinateSystem.voxel / coordinate (typed conversions of the point classes): a
    # correction whose map is the identity returns the input only if these maps follow the axis table in every dimension
    shared(ctx, "C09.d", c01_rule_b, why="TransformationCorrection.correct_array converts destination voxels and pulled-back points through CoordinateSystem.coordinate / voxel")
    # the conversion of pulled-back points to source voxels must be floor based: shared rule C01.d
    from . import c01

    n0 = len(ctx.obs)
    c01.rule_d(ctx)
    for o in ctx.obs[n0:]:
        o.rule = "C09.d/" + o.rule
    if "C01.d" in ctx.rule_text:
        ctx.rule_text["C09.d/C01.d"] = ctx.rule_text.pop("C01.d")
