"""C03 -- geometric integration: history independence and structure of the weighted sum."""
from __future__ import annotations

import ast

from ..amatch import AM, has_in_helpers
from ..effects import Effects
from ..flow import expand
from ..report import AnalysisError
from ..srcmodel import norm
from ..state import StateAnalysis, self_attr

LEVEL = "other"
MOD = "darsia.measure.integration"


def rule_a(ctx):
    R = "C03.a"
    ctx.rule(R, "hidden-state analysis of Geometry (and every subclass) with entries integrate/normalize: each read of an "
             "attribute that integrate itself writes must be preceded by a write in the same call on every CFG path, or "
             "its refresh must be guarded by a comparison of the data-derived key with the cache itself (J2), or the "
             "cached value must not depend on the call (J1)")
    m = ctx.model
    ctx.consult(MOD)
    base = m.cls(MOD, "Geometry")
    classes = m.subclasses(base)
    ctx.need(len(classes) >= 5, "Geometry class family shrank")
    seen = set()
    for k in classes:
        sa = StateAnalysis(m, k, ["integrate", "normalize"])
        ctx.stat("cfg_nodes", sa.stats["cfg_nodes"])
        ctx.stat("functions", sa.stats["functions"])
        reads = {}
        for f, n, a, kind, an, chain in sa.cross_call_reads():
            ctx.instance(R)
            reads.setdefault(a, []).append((f, n, kind, an, chain))
        for a, lst in reads.items():
            for f, n, kind, an, chain in lst:
                key = (f.qname, a, n.text())
                if key in seen:
                    continue
                seen.add(key)
                ok, why = sa.justify(f, n, a, kind)
                path = [f"L{x.line}: {x.text()[:80]}" for x in sa.witness if x.stmt is not None][:14]
                ctx.ob(R, f.qname, f"read of self.{a} in `{n.text()[:70]}` does not depend on earlier calls", ok,
                       f"{why}. Write-free path from the entry reaches the read, so the value returned by "
                       f"{' -> '.join(chain)} depends on what was integrated before", an, path=path)
    ctx.floor(R, 2)


def rule_b(ctx):
    R = "C03.b"
    ctx.rule(R, "weights and cache are set together: every constructor assignment to self.voxel_volume is followed, in the "
             "same method and on every path, by self.cached_voxel_volume = (copy of) self.voxel_volume")
    m = ctx.model
    base = m.cls(MOD, "Geometry")
    n = 0
    for k in m.subclasses(base):
        for name, f in k.methods.items():
            if name == "integrate":
                continue
            body = f.node.body
            for i, st in enumerate(body):
                if isinstance(st, ast.Assign) and any(self_attr(t) == "voxel_volume" for t in st.targets):
                    n += 1
                    ctx.instance(R)
                    later = [s for s in body[i + 1:] if isinstance(s, ast.Assign) and any(self_attr(t) == "cached_voxel_volume" for t in s.targets)]
                    ok = bool(later) and norm(later[0].value) in ("self.voxel_volume.copy()", "self.voxel_volume", "np.copy(self.voxel_volume)", "copy.deepcopy(self.voxel_volume)")
                    ctx.ob(R, f.qname, "self.voxel_volume assignment is followed by cached_voxel_volume = copy of it", ok,
                           str([norm(s) for s in later]), st)
                elif not isinstance(st, (ast.Assign, ast.Expr, ast.If, ast.Return, ast.AnnAssign, ast.Assert, ast.Raise, ast.For, ast.Pass)):
                    pass
            # nested assignments (inside if) are not expected in constructors
            nested = [s for s in ast.walk(f.node) if isinstance(s, ast.Assign) and s not in body and any(self_attr(t) == "voxel_volume" for t in s.targets)]
            if nested:
                raise AnalysisError(f"{f.qname}: self.voxel_volume assigned in a nested block; rule C03.b needs extending")
    ctx.floor(R, 2)


def rule_c(ctx):
    R = "C03.c"
    ctx.rule(R, "spatial axes only: the weighted product is formed from the whole data array (array and Image inputs multiply "
             "the same cache), then reduced by space_dim sums over axis 0, so trailing time/component axes are never summed")
    m = ctx.model
    f = m.func(MOD, "Geometry.integrate")
    ctx.instance(R)
    sem = _fold_integrate(f)
    if sem is not None:
        # decided on the folded method (scalar voxel volume, data with a time and a component axis, 1-3 space dimensions)
        ok_, why_ = sem
        for what in ("both input kinds multiply the cached voxel volume with the data", "reduction is space_dim sums over axis 0 of the weighted product",
                     "the reduced weighted product is returned", "scaling is prod(num_voxels / spatial data shape)"):
            ctx.ob(R, f.qname, what + " (folded for array and Image input, 1-3 dimensions)", ok_, why_, f.node, evidence=True)
        ctx.floor(R, 1)
        _rule_c_normalize(ctx, R, m)
        return
    prods = [n for n in ast.walk(f.node) if isinstance(n, ast.Assign) and isinstance(n.value, ast.Call) and norm(n.value.func) in ("np.multiply",) and len(n.value.args) == 2]
    prods += [n for n in ast.walk(f.node) if isinstance(n, ast.Assign) and isinstance(n.value, ast.BinOp) and isinstance(n.value.op, ast.Mult) and isinstance(n.targets[0], ast.Name)]
    data = f.params[1]
    local_defs = {}
    for s_ in ast.walk(f.node):
        if isinstance(s_, ast.Assign) and len(s_.targets) == 1 and isinstance(s_.targets[0], ast.Name):
            local_defs.setdefault(s_.targets[0].id, []).append(s_.value)

    def is_volume(e, depth=0):
        """the (possibly rescaled) cached voxel volume: the attribute itself, a local bound to it, or the result of a method of self
        whose closure maintains that attribute"""
        if "cached_voxel_volume" in norm(e):
            return True
        if isinstance(e, ast.Name) and e.id in local_defs and depth < 3:
            return all(is_volume(v, depth + 1) for v in local_defs[e.id])
        if isinstance(e, ast.Call) and norm(e.func).startswith("self."):
            g = m.resolve_call(e, f)
            return g is not None and hasattr(g, "node") and any("cached_voxel_volume" in norm(x) for x in ast.walk(g.node) if isinstance(x, ast.Attribute))
        return False

    def data_kinds(e, depth=0):
        """which forms of the input the operand can be: subset of {data, data.img}; None if anything else"""
        t = norm(e)
        if t == data:
            return {data}
        if t == f"{data}.img":
            return {f"{data}.img"}
        if isinstance(e, ast.IfExp):
            a_, b_ = data_kinds(e.body, depth), data_kinds(e.orelse, depth)
            return None if a_ is None or b_ is None else a_ | b_
        if isinstance(e, ast.Name) and e.id in local_defs and depth < 3:
            out = set()
            for v in local_defs[e.id]:
                k_ = data_kinds(v, depth + 1)
                if k_ is None:
                    return None
                out |= k_
            return out
        return None
    ops = []
    tgt = set()
    kinds = set()
    for p in prods:
        args = p.value.args if isinstance(p.value, ast.Call) else [p.value.left, p.value.right]
        vol = [a for a in args if is_volume(a)]
        rest = [a for a in args if not is_volume(a)]
        if len(vol) == 1 and len(rest) == 1 and data_kinds(rest[0]) is not None:
            ops.append(norm(rest[0]))
            kinds |= data_kinds(rest[0])
            tgt.add(norm(p.targets[0]))
    ctx.ob(R, f.qname, "both input kinds multiply the cached voxel volume with the data", kinds == {data, f"{data}.img"} and len(tgt) == 1,
           f"products {ops} into {tgt}", f.node)
    loops = [l for l in ast.walk(f.node) if isinstance(l, ast.For) and norm(l.iter) == "range(self.space_dim)"]
    ok = False
    if len(loops) == 1 and len(loops[0].body) == 1 and tgt:
        b = loops[0].body[0]
        w = next(iter(tgt))
        ok = isinstance(b, ast.Assign) and norm(b.targets[0]) == w and norm(b.value) in (f"np.sum({w}, axis=0)", f"{w}.sum(axis=0)")
    ctx.ob(R, f.qname, "reduction is space_dim sums over axis 0 of the weighted product", ok, str([norm(l) for l in loops])[:200], f.node)
    rets = [norm(r.value) for r in ast.walk(f.node) if isinstance(r, ast.Return) and r.value is not None]
    ctx.ob(R, f.qname, "the reduced weighted product is returned", rets == list(tgt), str(rets), f.node)
    # scaling: ratio of voxel counts, geometry over data
    lets = (("fetched_shape", "list(fetched_data.shape[:self.space_dim])"),)
    hit = None
    for tpl in ("scaling = np.prod(np.divide(self.num_voxels, fetched_shape))", "scaling = np.prod(np.array(self.num_voxels) / np.array(fetched_shape))"):
        hit, am_h, where = has_in_helpers(f, tpl, lets)
        if hit is not None:
            break
    ctx.ob(R, f.qname, "scaling is prod(num_voxels / spatial data shape)", hit is not None, "", f.node)
    ctx.floor(R, 1)
    _rule_c_normalize(ctx, R, m)


def _fold_integrate(f):
    """Fold Geometry.integrate path-wise for a geometry with scalar voxel volume VV and data of shape (S_0..S_{d-1}, TIME, COMP), given as
    array and as Image: (True, "") when on every path the result is d sums over axis 0 of DATA * VV * prod(N_k / S_k) (with S = N on a
    path that assumed the data to have the geometry's resolution); (False, why) when some path returns an integral that depends on the
    payload extents or the total size, uses the cache of an earlier call, or does not contain the geometry's voxel volume at all (named
    contradictions); None otherwise (not decided here)."""
    from ..fold import Folder, Obj, Opaque, Raised, Refuse, Sym, fold_paths
    from ..terms import nf

    def labels(v):
        return [getattr(x, "label", None) for x in v] if isinstance(v, (list, tuple)) else None

    undecided = False
    for dim in (1, 2, 3):
        for kind in ("array", "image"):
            def run(decide, dim=dim, kind=kind):
                shape = tuple([Opaque("int", f"S{k}") for k in range(dim)] + [Opaque("int", "TIME"), Opaque("int", "COMP")])
                arr = Opaque("ndarray", "DATA", {"shape": shape, "size": Opaque("int", "SIZE"), "ndim": dim + 2})
                # an image brings metadata of its own (tokens IMGMETA_*): nothing of it may end up in the integral
                imeta = {"voxel_size": [Opaque("float", f"IMGMETA_voxel_size{k}") for k in range(dim)], "dimensions": [Opaque("float", f"IMGMETA_dimensions{k}") for k in range(dim)],
                         "num_voxels": [Opaque("int", f"IMGMETA_num_voxels{k}") for k in range(dim)], "origin": Opaque("coord", "IMGMETA_origin"), "space_dim": dim,
                         "voxel_volume": Opaque("float", "IMGMETA_voxel_volume")}
                data = arr if kind == "array" else Obj("img", {"__class__": "Image", "img": arr, "shape": shape, **imeta})
                so = Obj("self", {"__class__": "Geometry", "space_dim": dim, "num_voxels": [Opaque("int", f"N{k}") for k in range(dim)],
                                  "dimensions": [Opaque("float", f"D{k}") for k in range(dim)], "voxel_size": [Opaque("float", f"H{k}") for k in range(dim)],
                                  "voxel_volume": Opaque("float", "VV"), "cached_voxel_volume": Opaque("float", "CVV")})
                fo = Folder(symbolic=True)
                fo.decider = decide
                fo.func_stack.append(f.node)
                fo.fold_all_methods = True
                return fo.call(f.node, [so, data])
            try:
                paths = fold_paths(run, max_paths=8)
            except Refuse:
                return None
            for log, r, err in paths:
                if err is not None:
                    if isinstance(err, Raised) and err.name != "AttributeError":
                        continue  # a path that rejects its input
                    if isinstance(err, Raised):
                        undecided = True   # an attribute the stand-ins do not have: nothing known about this path
                        continue
                    return None
                # a path that assumed `spatial data shape == num_voxels` is judged with S = N
                native = False
                for cond, b in log:
                    if isinstance(cond, Sym) and cond.fn in ("==", "!=") and len(cond.args) == 2:
                        la, lb = labels(cond.args[0]), labels(cond.args[1])
                        if la and lb and {tuple(la), tuple(lb)} == {tuple(f"S{k}" for k in range(dim)), tuple(f"N{k}" for k in range(dim))} and b == (cond.fn == "=="):
                            native = True
                t = nf(r)
                where = f"{kind} input, {dim}d" + (", data at the geometry's resolution" if native else (", path " + "/".join("T" if b else "F" for _, b in log) if log else ""))
                wants = []
                for inner in ["(DATA * VV * np.prod([" + ", ".join(f"(N{k} / S{k})" for k in range(dim)) + "]))"] + (["(DATA * VV)"] if native else []):
                    w = inner
                    for _ in range(dim):
                        w = f"np.sum({w}, axis=0)"
                    wants.append(w)
                if native:
                    for k in range(dim):
                        t = t.replace(f"S{k}", f"N{k}")
                        wants = [w.replace(f"S{k}", f"N{k}") for w in wants]
                if t in wants:
                    continue
                for tok, what in (("SIZE", "the total number of entries of the data"), ("TIME", "the number of time steps"), ("COMP", "the number of components")):
                    if tok in t:
                        return (False, f"{where}: the integral is {t[:140]}, which depends on {what}: every time step / component is scaled by the payload extents")
                if "CVV" in t:
                    return (False, f"{where}: the integral uses the cached voxel volume of an earlier call: {t[:140]}")
                import re as _re
                meta_reads = sorted(set(_re.findall(r"IMGMETA_([a-z_]+?)\d*\b", t)))
                if kind == "image" and meta_reads:
                    return (False, f"{where}: the integral is {t[:160]}, which reads the image's own metadata ({', '.join(meta_reads)}): the value is the sum of data times the "
                            "geometry's effective voxel volume, rescaled by the ratio of voxel counts only -- an image whose metadata differ from the geometry's (default unit "
                            "dimensions, other units) integrates to something else than its array")
                if "VV" not in t and "DATA" in t:
                    return (False, f"{where}: the integral is {t[:140]}, which does not contain the geometry's voxel volume: depth / porosity folded into it by the weighted geometries are dropped")
                undecided = True   # no named contradiction on this path: the other paths are still looked at
    return None if undecided else (True, "")


def _rule_c_normalize(ctx, R, m):
    nm = m.func(MOD, "Geometry.normalize")
    am = AM(nm)
    a, b = nm.params[1], nm.params[2]
    # the ratio handed to darsia.weight, with once-bound locals replaced by their definitions
    wc = [c for c in ast.walk(nm.node) if isinstance(c, ast.Call) and norm(c.func) == "darsia.weight" and len(c.args) == 2 and norm(c.args[0]) == a]
    ratio = expand(nm.node, wc[0].args[1]) if len(wc) == 1 else None
    want = f"self.integrate({b}) / self.integrate({a})"
    ok = ratio is not None and norm(ratio) == want
    if ratio is not None and not ok and f"self.integrate({a})" in norm(ratio) and f"self.integrate({b})" in norm(ratio):
        ctx.ob(R, nm.qname, "normalize integrates both images with the same geometry and weights the image by reference/original", False,
               f"the weight is `{norm(ratio)[:140]}`, not the plain quotient {want}: where it deviates the integrals of result and reference differ", wc[0], evidence=True)
        ok = None
    if ok is not None:
        ctx.ob(R, nm.qname, "normalize integrates both images with the same geometry and weights the image by reference/original", ok, "weight call darsia.weight(img, ratio) not found" if ratio is None else norm(ratio)[:120], nm.node)


def rule_d(ctx):
    R = "C03.d"
    ctx.rule(R, "the weights handed to a geometry are read, not consumed: no constructor of integration.py modifies one of its arguments "
             "(effect summaries; a porosity / depth array multiplied in place makes the next geometry built from the same array integrate "
             "with the product of the earlier factors)")
    m = ctx.model
    E = Effects(m)
    mod = m.mod(MOD)
    n = 0
    for k in mod.classes.values():
        init = k.methods.get("__init__")
        if init is None:
            continue
        n += 1
        ctx.instance(R)
        for p in init.params[1:]:
            ev = E.events_on(init, p)
            ctx.ob(R, init.qname, f"argument `{p}` is not modified", not ev, "; ".join(str(e) for e in ev[:2])[:240], init.node)
            # ... and it enters the geometry as passed: a re-binding may convert it (asarray / array / copy / float of the whole value) but not
            # replace it by a part or a summary of itself (one entry, a mean, ...), which silently integrates with other weights
            for s_ in ast.walk(init.node):
                if not (isinstance(s_, ast.Assign) and any(isinstance(t_, ast.Name) and t_.id == p for t_ in s_.targets)):
                    continue
                v = s_.value
                conv = isinstance(v, ast.Call) and norm(v.func) in ("np.asarray", "np.array", "np.atleast_1d", "np.copy", "float", "np.float64", "list", f"{p}.copy", f"{p}.astype") \
                    and (not v.args or norm(v.args[0]) == p or norm(v.func).startswith(f"{p}."))
                partial = any(isinstance(x, ast.Subscript) and p in {y.id for y in ast.walk(x.value) if isinstance(y, ast.Name)} for x in ast.walk(v)) \
                    or any(isinstance(x, ast.Call) and norm(x.func).split(".")[-1] in ("mean", "sum", "min", "max", "median", "average", "item") and p in {y.id for y in ast.walk(x) if isinstance(y, ast.Name)} for x in ast.walk(v))
                ctx.ob(R, init.qname, f"argument `{p}` enters the geometry as passed (re-binding `{norm(s_)[:50]}` only converts it)", conv,
                       f"`{norm(s_)[:80]}` replaces the argument by a part / summary of itself" if partial else "", s_, evidence=partial)
    ctx.floor(R, 4)


def rule_e(ctx):
    R = "C03.e"
    ctx.rule(R, "normalisation weights every time step and component by its own ratio: in darsia.weight the branch for an array weight of "
             "the payload shape multiplies the data by that array broadcast over all voxels -- recognised idioms: the array itself "
             "(trailing-axis broadcasting), np.outer(np.ones(<spatial shape>), weight).reshape(<data shape>), np.broadcast_to(weight, "
             "<data shape>); np.kron in the place of np.outer permutes the entries of a 2-d weight")
    m = ctx.model
    ARI = "darsia.image.arithmetics"
    ctx.consult(ARI)
    f = m.func(ARI, "weight")
    w = f.params[1]
    ctx.instance(R)
    arms = [n for n in ast.walk(f.node) if isinstance(n, ast.If) and any(isinstance(c, ast.Call) and norm(c.func) == "isinstance" and [norm(a) for a in c.args] == [w, "np.ndarray"] for c in ast.walk(n.test))]
    ctx.need(len(arms) == 1, f"{f.qname}: branch for an array weight not found")
    body = arms[0].body
    am = AM(f)
    muls = [s_ for s_ in body if isinstance(s_, (ast.Assign, ast.AugAssign))]
    ok = False
    desc = ""
    if len(muls) == 1:
        st = muls[0]
        if isinstance(st, ast.AugAssign) and isinstance(st.op, ast.Mult):
            factor = st.value
        elif isinstance(st, ast.Assign) and isinstance(st.value, ast.Call) and norm(st.value.func) == "np.multiply" and len(st.value.args) == 2:
            factor = st.value.args[1]
        elif isinstance(st, ast.Assign) and isinstance(st.value, ast.BinOp) and isinstance(st.value.op, ast.Mult):
            factor = st.value.right
        else:
            factor = None
        if factor is not None:
            fx = expand(f.node, factor)
            desc = norm(fx)[:160]
            wi = f"{f.params[0]}.copy()"
            good = (f"np.outer(np.ones({wi}.coordinatesystem.shape, dtype=float), {w}).reshape({wi}.img.shape)",
                    f"np.outer(np.ones({wi}.coordinatesystem.shape), {w}).reshape({wi}.img.shape)",
                    f"np.outer(np.ones({wi}.img.shape[:{wi}.space_dim]), {w}).reshape({wi}.img.shape)",
                    f"np.broadcast_to({w}, {wi}.img.shape)", w)
            ok = any(am.eq(fx, g) for g in good)
            if not ok and not any(isinstance(c, ast.Call) and norm(c.func) in ("np.kron", "np.tile", "np.repeat", "np.outer") for c in ast.walk(fx)):
                raise AnalysisError(f"{f.qname}: unrecognised broadcasting idiom `{desc}` in the array-weight branch")
    # named contradiction: np.kron(ones, w) is the block layout (w's entries are repeated block-wise, not voxel-wise) -- reshaped to the
    # data shape it permutes the entries of a weight with more than one axis
    kron = factor is not None and any(isinstance(c, ast.Call) and norm(c.func) == "np.kron" for c in ast.walk(fx)) if len(muls) == 1 else False
    ctx.ob(R, f.qname, "array weight: every voxel is multiplied by the weight array itself (outer product with ones, reshaped to the data shape)", ok, desc, arms[0], evidence=bool(kron))
    ctx.floor(R, 1)


def rule_f(ctx):
    R = "C03.f"
    ctx.rule(R, "the voxel volume is a matter of the spatial axes only: Geometry.__init__ is folded for space_dim = 1, 2, 3 with a "
             "num_voxels argument that carries two more entries than space_dim (the shape of series / vector data, which the constructor "
             "documents to truncate), with dimensions given and with voxel_size given; the stored num_voxels, voxel_size, dimensions and "
             "voxel_volume terms must not mention the surplus entries, and voxel_size / dimensions have space_dim entries")
    from ..fold import Folder, Obj, Opaque, Raised, Refuse
    from ..terms import nf

    m = ctx.model
    f = m.func(MOD, "Geometry.__init__")
    ctx.instance(R)
    for dim in (1, 2, 3):
        for given in ("dimensions", "voxel_size"):
            nv = [Opaque("int", f"N{k}") for k in range(dim)] + [Opaque("int", "TIME"), Opaque("int", "COMP")]
            vals = [Opaque("f", f"L{k}") for k in range(dim)]
            so = Obj("self", {"__class__": "Geometry"})
            fo = Folder(symbolic=True)
            fo.func_stack.append(f.node)
            kw = {"space_dim": dim, "num_voxels": nv, given: vals}
            try:
                fo.call(f.node, [so], kw)
            except (Refuse, Raised) as e:
                raise AnalysisError(f"{f.qname}: outside the folding language for space_dim {dim}, {given} given ({e})")
            bad = []
            for a in ("num_voxels", "voxel_size", "dimensions", "voxel_volume"):
                t = nf(so.fields.get(a))
                if "TIME" in t or "COMP" in t:
                    bad.append(f"self.{a} = {t[:90]}")
            ctx.ob(R, f.qname, f"space_dim {dim}, {given} given: no stored quantity depends on num_voxels entries beyond the spatial ones", not bad,
                   "; ".join(bad) + " -- constructed with the shape of series / vector data, every integral is off by the product of the extra extents", f.node, evidence=True)
    # ... and the three descriptions of the voxelisation agree: voxel_size[i] * num_voxels[i] = dimensions[i] on every axis, whichever of
    # dimensions / voxel_size (or both, as Image.shape_metadata() provides them) the constructor is given
    from ..algebra import NotPolynomial, Poly
    from ..fold import Sym

    def poly(t):
        if isinstance(t, Opaque):
            return Poly.atom(t.label)
        if isinstance(t, Sym) and t.fn in ("+", "-", "*", "/") and len(t.args) == 2 and t.recv is None:
            a, b = poly(t.args[0]), poly(t.args[1])
            return {"+": lambda: a + b, "-": lambda: a - b, "*": lambda: a * b, "/": lambda: a / b}[t.fn]()
        if isinstance(t, (int,)) and not isinstance(t, bool):
            return Poly.const(t)
        raise NotPolynomial(repr(t))

    for dim in (1, 2, 3):
        for given in ("dimensions", "voxel_size", "both"):
            ctx.instance(R + ".consistent")
            nv = [Opaque("int", f"N{k}") for k in range(dim)]
            kw = {"space_dim": dim, "num_voxels": nv}
            if given in ("dimensions", "both"):
                kw["dimensions"] = [Opaque("f", f"L{k}") for k in range(dim)]
            if given in ("voxel_size", "both"):
                kw["voxel_size"] = [Opaque("f", f"h{k}") for k in range(dim)]
            so = Obj("self", {"__class__": "Geometry"})
            fo = Folder(symbolic=True)
            fo.func_stack.append(f.node)
            title = f"space_dim {dim}, {given if given != 'both' else 'dimensions and voxel_size'} given: voxel_size[i] * num_voxels[i] = dimensions[i] on every axis"
            try:
                fo.call(f.node, [so], kw)
                vs, dm, nvs = so.fields.get("voxel_size"), so.fields.get("dimensions"), so.fields.get("num_voxels")
                if not all(isinstance(x, (list, tuple)) and len(x) >= dim for x in (vs, dm, nvs)):
                    raise Refuse("stored quantities are not per-axis lists")
                bad = []
                for i in range(dim):
                    if poly(vs[i]) * poly(nvs[i]) != poly(dm[i]):
                        bad.append(f"axis {i}: voxel_size = {nf(vs[i])}, num_voxels = {nf(nvs[i])}, dimensions = {nf(dm[i])}")
                ctx.ob(R, f.qname, title, not bad, "; ".join(bad[:2]) + " -- the voxel volume no longer is the cell's share of the domain: every integral is off by the ratio", f.node, evidence=True)
            except (Refuse, Raised, NotPolynomial) as e:
                ctx.ob(R, f.qname, title, False, f"stored voxelisation not found in polynomial form: {e}", f.node)
    ctx.floor(R, 1)
    ctx.floor(R + ".consistent", 9)


def _integrate_uses_resize(m):
    """Does the call closure of Geometry.integrate (methods of the Geometry family) construct / call darsia.Resize?"""
    seen, todo = set(), [m.func(MOD, "Geometry.integrate")]
    while todo:
        f = todo.pop()
        if f in seen:
            continue
        seen.add(f)
        for c in ast.walk(f.node):
            if isinstance(c, ast.Call):
                t = m.resolve_call(c, f)
                if t is None:
                    continue
                if getattr(t, "name", "") in ("Resize", "resize") or (getattr(t, "cls", None) is not None and t.cls.name == "Resize"):
                    return True
                if hasattr(t, "node") and getattr(t, "cls", None) is not None and t.module.name == MOD:
                    todo.append(t)
    return False


def rule_h(ctx):
    R = "C03.h"
    ctx.rule(R, "voxel volumes are brought to the data's resolution conservatively: every cv2.resize of integration.py is given interpolation=cv2.INTER_AREA "
             "on every path -- the flag is read as a constant; a flag that is (on some branch) another OpenCV constant does not conserve the weighted "
             "sum for mixed refinement / coarsening (nearest neighbour, linear and cubic sample instead of averaging)")
    m = ctx.model
    n = 0
    for k in m.mod(MOD).classes.values():
        for f in k.methods.values():
            for c in ast.walk(f.node):
                if isinstance(c, ast.Call) and norm(c.func) == "cv2.resize":
                    n += 1
                    ctx.instance(R)
                    flag = next((kw.value for kw in c.keywords if kw.arg == "interpolation"), c.args[5] if len(c.args) > 5 else None)
                    flag = expand(f.node, flag) if flag is not None else None
                    leaves = []

                    def walk(e):
                        if isinstance(e, ast.IfExp):
                            walk(e.body)
                            walk(e.orelse)
                        else:
                            leaves.append(norm(e) if e is not None else "default (cv2.INTER_LINEAR)")
                    walk(flag)
                    consts = [x for x in leaves if x.startswith("cv2.INTER_") or x.startswith("default")]
                    other = [x for x in consts if x != "cv2.INTER_AREA"]
                    ctx.ob(R, f.qname, f"`{norm(c)[:50]}`: interpolation is cv2.INTER_AREA on every path", leaves == ["cv2.INTER_AREA"] * len(leaves),
                           (f"the flag can be {other[0]}: not conservative -- the resized voxel volumes no longer sum to the geometry's volume when the data are finer along one axis and "
                            "coarser along another" if other else f"flag {leaves} not found to be a constant"), c, evidence=bool(other))
    ctx.floor(R, 1)


def run(ctx):
    ctx.guard(rule_h, ctx)
    from . import c02 as _c02
    from .common import shared as _shared

    _shared(ctx, "C03.c", _c02.rule_d, why="the integral of a stacked series equals the integrals of its members, per time step, only if Image.append / stack keep every slice's data as it is")
    from .common import rule_abs_tolerance
    ctx.guard(rule_abs_tolerance, ctx, "C03.g", [f for k in ctx.model.mod(MOD).classes.values() for f in k.methods.values()], "normalised integrals must be equal at every scale of the data")
    if _integrate_uses_resize(ctx.model):
        from . import c11
        from .common import shared

        shared(ctx, "C03.c", c11.rule_i, why="integrate resizes the voxel volumes through darsia.Resize and relies on its area interpolation to conserve the weighted sum")
    ctx.guard(rule_a, ctx)
    ctx.guard(rule_b, ctx)
    ctx.guard(rule_c, ctx)
    ctx.guard(rule_d, ctx)
    ctx.guard(rule_e, ctx)
    ctx.guard(rule_f, ctx)
