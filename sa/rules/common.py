"""Rules shared by several properties."""
from __future__ import annotations

import ast

from ..srcmodel import norm

MUTATORS = {"append", "extend", "insert", "pop", "remove", "sort", "clear", "update", "setdefault", "popitem", "add", "discard"}


def _is_container(v):
    if isinstance(v, (ast.Dict, ast.List, ast.Set, ast.ListComp, ast.DictComp, ast.SetComp)):
        return True
    if isinstance(v, ast.Call) and norm(v.func) in ("dict", "list", "set", "collections.defaultdict", "defaultdict", "OrderedDict", "collections.OrderedDict"):
        return True
    return False


def shared_state_writes(model, modules=None):
    """Write sites into module-level or class-level mutable containers: [(func, node, description)].

    A value cached in such a container outlives the call and the object: whatever key it is stored under, every later
    call in the process (and every other instance) can observe it."""
    out = []
    for mod in model.modules.values():
        if modules is not None and mod.name not in modules:
            continue
        mod_containers = {n for n, v in mod.assigns.items() if _is_container(v)}
        for st in mod.tree.body:
            if isinstance(st, ast.AnnAssign) and isinstance(st.target, ast.Name) and st.value is not None and _is_container(st.value):
                mod_containers.add(st.target.id)
        funcs = list(mod.funcs.values()) + [f for c in mod.classes.values() for f in c.methods.values()]
        for f in funcs:
            local_stores = {n.id for n in ast.walk(f.node) if isinstance(n, ast.Name) and isinstance(n.ctx, ast.Store)}
            globs = {x for g in ast.walk(f.node) if isinstance(g, ast.Global) for x in g.names}
            params = set(f.params)
            cls_containers = set()
            inst_assigned = set()
            if f.cls is not None:
                for k in model.mro(f.cls):
                    for st in k.node.body:
                        tgt = None
                        if isinstance(st, ast.Assign) and len(st.targets) == 1 and isinstance(st.targets[0], ast.Name):
                            tgt, val = st.targets[0].id, st.value
                        elif isinstance(st, ast.AnnAssign) and isinstance(st.target, ast.Name) and st.value is not None:
                            tgt, val = st.target.id, st.value
                        if tgt and _is_container(val):
                            cls_containers.add(tgt)
                    for g in k.methods.values():
                        for s in ast.walk(g.node):
                            if isinstance(s, (ast.Assign, ast.AnnAssign)):
                                for t in (s.targets if isinstance(s, ast.Assign) else [s.target]):
                                    if isinstance(t, ast.Attribute) and isinstance(t.value, ast.Name) and t.value.id == "self":
                                        inst_assigned.add(t.attr)
                cls_containers -= inst_assigned

            def shared_name(e):
                if isinstance(e, ast.Name) and e.id in mod_containers and (e.id in globs or (e.id not in local_stores and e.id not in params)):
                    return f"module-level `{e.id}`"
                if isinstance(e, ast.Attribute) and e.attr in cls_containers:
                    b = norm(e.value)
                    if b in ("self", "cls", "type(self)", "self.__class__") or (f.cls is not None and b in {k.name for k in model.mro(f.cls)}):
                        return f"class-level `{f.cls.name}.{e.attr}`"
                return None

            for n in ast.walk(f.node):
                if isinstance(n, (ast.Assign, ast.AugAssign)):
                    for t in (n.targets if isinstance(n, ast.Assign) else [n.target]):
                        if isinstance(t, ast.Subscript):
                            w = shared_name(t.value)
                            if w:
                                out.append((f, n, f"{w} is written: `{norm(n)[:70]}`"))
                        elif isinstance(t, ast.Name) and t.id in globs and t.id in mod.assigns:
                            out.append((f, n, f"module global `{t.id}` is rebound: `{norm(n)[:70]}`"))
                elif isinstance(n, ast.Call) and isinstance(n.func, ast.Attribute) and n.func.attr in MUTATORS:
                    w = shared_name(n.func.value)
                    if w:
                        out.append((f, n, f"{w} is written: `{norm(n)[:70]}`"))
    return out


def _dotted_reads(expr, roots):
    """Dotted access paths (param.attr.attr, self.attr) read by an expression."""
    out = set()
    for n in ast.walk(expr):
        if isinstance(n, (ast.Attribute, ast.Name)):
            par = getattr(n, "_parent", None)
            if isinstance(par, ast.Attribute) and par.value is n:
                continue  # inner part of a longer chain
            b = n
            while isinstance(b, ast.Attribute):
                b = b.value
            if isinstance(b, ast.Name) and b.id in roots:
                out.add(norm(n))
    return out


def cache_key_covers_value(f, node):
    """For `C[key] = value`: (covered, value deps, key deps) over access paths rooted at parameters / self,
    following local definitions and the tests of enclosing branches (control dependence)."""
    if not (isinstance(node, ast.Assign) and isinstance(node.targets[0], ast.Subscript)):
        return False, set(), set()
    roots = set(f.params)
    defs = {}
    for s in ast.walk(f.node):
        if isinstance(s, ast.Assign):
            for t in s.targets:
                for x in ast.walk(t):
                    if isinstance(x, ast.Name) and isinstance(x.ctx, ast.Store):
                        defs.setdefault(x.id, []).append(s)

    def deps(expr, seen):
        out = _dotted_reads(expr, roots)
        for n in ast.walk(expr):
            if isinstance(n, ast.Name) and n.id in defs and n.id not in seen and n.id not in roots:
                seen.add(n.id)
                for s in defs[n.id]:
                    out |= deps(s.value, seen)
                    cur = s
                    while cur is not None and cur is not f.node:
                        par = getattr(cur, "_parent", None)
                        if isinstance(par, (ast.If, ast.While)):
                            out |= deps(par.test, seen)
                        cur = par
        return out

    # a parameter pinned to a literal by an enclosing `param == literal` guard (true branch) is a constant at the write
    pinned = set()
    vd = deps(node.value, set())
    cur = node
    while cur is not None and cur is not f.node:
        par = getattr(cur, "_parent", None)
        if isinstance(par, (ast.If, ast.While)):
            t = par.test
            if (isinstance(par, ast.If) and cur in par.body and isinstance(t, ast.Compare) and len(t.ops) == 1 and isinstance(t.ops[0], (ast.Eq, ast.Is))
                    and isinstance(t.left, ast.Name) and t.left.id in roots and isinstance(t.comparators[0], ast.Constant)):
                pinned.add(t.left.id)
            else:
                vd |= deps(par.test, set())
        cur = par
    reassigned = {x.id for x in ast.walk(f.node) if isinstance(x, ast.Name) and isinstance(x.ctx, ast.Store)}
    vd -= (pinned - reassigned)

    # the key covers an access path only where the path enters the key injectively (as itself, in a tuple, through tuple()/str()/repr()):
    # `len(x)`, `hash(x)` or arithmetic on x identify a class of arguments, not the argument
    def inj(expr, seen):
        if isinstance(expr, (ast.Tuple, ast.List)):
            out = set()
            for e in expr.elts:
                out |= inj(e, seen)
            return out
        if isinstance(expr, ast.Call) and isinstance(expr.func, ast.Name) and expr.func.id in ("tuple", "str", "repr", "bytes", "frozenset") and len(expr.args) == 1 and not expr.keywords:
            return inj(expr.args[0], seen)
        if isinstance(expr, ast.Name) and expr.id not in roots and expr.id in defs and expr.id not in seen and len(defs[expr.id]) == 1 \
                and len(defs[expr.id][0].targets) == 1 and isinstance(defs[expr.id][0].targets[0], ast.Name):
            return inj(defs[expr.id][0].value, seen | {expr.id})
        if isinstance(expr, (ast.Name, ast.Attribute)):
            b = expr
            while isinstance(b, ast.Attribute):
                b = b.value
            if isinstance(b, ast.Name) and b.id in roots:
                return {norm(expr)}
        return set()

    kd = inj(node.targets[0].slice, set())
    # bare roots (whole objects) in the value are covered only by the same bare root in the key
    return vd <= kd, vd, kd


def _mutable_result(model, f, call, depth=0):
    """Does the value produced by `call` (resolved in f) contain numpy arrays / lists / dicts built by the callee?"""
    g = model.resolve_call(call, f)
    if g is None or depth > 2:
        return None  # unknown
    env = {}
    for s in ast.walk(g.node):
        if isinstance(s, ast.Assign) and len(s.targets) == 1 and isinstance(s.targets[0], ast.Name):
            env.setdefault(s.targets[0].id, []).append(s.value)

    def mut(e, seen):
        if isinstance(e, (ast.List, ast.Dict, ast.Set, ast.ListComp, ast.DictComp, ast.SetComp)):
            return True
        if isinstance(e, ast.Tuple):
            return any(mut(x, seen) for x in e.elts)
        if isinstance(e, ast.Call):
            d = norm(e.func)
            if d.startswith(("np.", "numpy.", "sps.", "scipy.")) and d.split(".")[-1] not in ("sum", "prod", "max", "min", "dot", "float32", "float64", "int32", "int64", "sqrt", "floor", "ceil"):
                return True
            r = _mutable_result(model, g, e, depth + 1)
            return bool(r)
        if isinstance(e, ast.BinOp):
            return mut(e.left, seen) or mut(e.right, seen)
        if isinstance(e, ast.Name) and e.id in env and e.id not in seen:
            return any(mut(v, seen | {e.id}) for v in env[e.id])
        return False
    return any(mut(r.value, set()) for r in ast.walk(g.node) if isinstance(r, ast.Return) and r.value is not None)


def memo_value_mutations(model, f, container):
    """In-place modifications, inside f, of objects read out of (or stored into) the memo `container`:
    [(node, text)].  A memo hands the same object to every later call; modifying it in place changes what they get."""
    tainted = {}
    for s in ast.walk(f.node):
        if isinstance(s, ast.Assign) and isinstance(s.value, ast.Subscript) and norm(s.value.value) == container:
            for t in s.targets:
                for x in ast.walk(t):
                    if isinstance(x, ast.Name) and isinstance(x.ctx, ast.Store):
                        tainted[x.id] = s
        if isinstance(s, ast.Assign) and isinstance(s.targets[0], ast.Subscript) and norm(s.targets[0].value) == container and isinstance(s.value, ast.Name):
            tainted[s.value.id] = s
    out = []
    for s in ast.walk(f.node):
        if isinstance(s, ast.AugAssign):
            b = s.target
            while isinstance(b, (ast.Subscript, ast.Attribute)):
                b = b.value
            if isinstance(b, ast.Name) and b.id in tainted:
                out.append((s, norm(s)))
        elif isinstance(s, ast.Assign):
            for t in s.targets:
                if isinstance(t, (ast.Subscript, ast.Attribute)):
                    b = t
                    while isinstance(b, (ast.Subscript, ast.Attribute)):
                        b = b.value
                    if isinstance(b, ast.Name) and b.id in tainted:
                        out.append((s, norm(s)))
        elif isinstance(s, ast.Call) and isinstance(s.func, ast.Attribute) and s.func.attr in MUTATORS and isinstance(s.func.value, ast.Name) and s.func.value.id in tainted:
            out.append((s, norm(s)))
    return out


CACHE_DECORATORS = ("lru_cache", "functools.lru_cache", "cache", "functools.cache")


def decorator_cached(model, mods):
    """Functions of the given modules wrapped in functools.lru_cache / cache (with or without arguments)."""
    out = []
    for mn in mods:
        mod = model.mod(mn)
        funcs = list(mod.funcs.values()) + [f for c in mod.classes.values() for f in c.methods.values()]
        for f in funcs:
            for d in getattr(f.node, "decorator_list", []):
                t = norm(d.func) if isinstance(d, ast.Call) else norm(d)
                if t in CACHE_DECORATORS:
                    out.append(f)
    return out


def _returns_mutable(model, g, depth=0):
    env = {}
    for s in ast.walk(g.node):
        if isinstance(s, ast.Assign) and len(s.targets) == 1 and isinstance(s.targets[0], ast.Name):
            env.setdefault(s.targets[0].id, []).append(s.value)

    def mut(e, seen):
        if isinstance(e, (ast.List, ast.Dict, ast.Set, ast.ListComp, ast.DictComp, ast.SetComp)):
            return True
        if isinstance(e, ast.Tuple):
            return any(mut(x, seen) for x in e.elts)
        if isinstance(e, ast.Call):
            d = norm(e.func)
            if d.startswith(("np.", "numpy.", "sps.", "scipy.")) and d.split(".")[-1] not in ("sum", "prod", "max", "min", "dot", "float32", "float64", "int32", "int64", "sqrt", "floor", "ceil"):
                return True
            return bool(_mutable_result(model, g, e, depth + 1))
        if isinstance(e, ast.BinOp):
            return mut(e.left, seen) or mut(e.right, seen)
        if isinstance(e, ast.Name) and e.id in env and e.id not in seen:
            return any(mut(v, seen | {e.id}) for v in env[e.id])
        return False
    return any(mut(r.value, set()) for r in ast.walk(g.node) if isinstance(r, ast.Return) and r.value is not None)


def cached_result_mutations(model, g):
    """In-place modifications, anywhere in the package, of a value obtained from a call of the decorator-cached function g."""
    out = []
    for f in model.all_funcs():
        tainted = {}
        for s in ast.walk(f.node):
            if isinstance(s, ast.Assign) and isinstance(s.value, ast.Call):
                try:
                    t = model.resolve_call(s.value, f)
                except Exception:
                    t = None
                if t is not None and getattr(t, "node", None) is g.node:
                    for tg in s.targets:
                        for x in ast.walk(tg):
                            if isinstance(x, ast.Name) and isinstance(x.ctx, ast.Store):
                                tainted[x.id] = s
        if not tainted:
            continue
        for s in ast.walk(f.node):
            b = None
            if isinstance(s, ast.AugAssign):
                b = s.target
            elif isinstance(s, ast.Assign) and any(isinstance(t, (ast.Subscript, ast.Attribute)) for t in s.targets):
                b = next(t for t in s.targets if isinstance(t, (ast.Subscript, ast.Attribute)))
            elif isinstance(s, ast.Call) and isinstance(s.func, ast.Attribute) and s.func.attr in MUTATORS:
                b = s.func.value
            else:
                continue
            while isinstance(b, (ast.Subscript, ast.Attribute)):
                b = b.value
            if isinstance(b, ast.Name) and b.id in tainted:
                # a rebinding `x = x / s` between the call and the update would make it a fresh object: AugAssign on a name bound
                # only by the call is the in-place case
                rebinds = [a for a in ast.walk(f.node) if isinstance(a, ast.Assign) and a is not tainted[b.id]
                           and any(isinstance(x, ast.Name) and x.id == b.id and isinstance(x.ctx, ast.Store) for t in a.targets for x in ast.walk(t))
                           and tainted[b.id].lineno < a.lineno < s.lineno]
                if not rebinds:
                    out.append((f, s, norm(s)))
    return out


_ARRAY_CTORS = {"np.eye", "np.zeros", "np.ones", "np.empty", "np.full", "np.array", "np.arange", "np.identity", "np.linspace", "np.diag",
                "np.zeros_like", "np.ones_like", "np.asarray", "list", "dict", "set", "bytearray", "collections.defaultdict", "defaultdict"}
_INPLACE_METHODS = MUTATORS | {"fill", "put", "itemset", "resize", "partition", "setfield", "setflags", "byteswap"}


def _inplace_writes(node, is_target):
    """Statements under `node` that modify in place an object named by an expression for which is_target(expr) holds."""
    out = []
    for n in ast.walk(node):
        if isinstance(n, ast.AugAssign):
            t = n.target
            if is_target(t) or (isinstance(t, ast.Subscript) and is_target(t.value)):
                out.append(n)
        elif isinstance(n, ast.Assign):
            for t in n.targets:
                for tt in (t.elts if isinstance(t, (ast.Tuple, ast.List)) else [t]):
                    if isinstance(tt, ast.Subscript) and is_target(tt.value):
                        out.append(n)
        elif isinstance(n, ast.Call):
            if isinstance(n.func, ast.Attribute) and n.func.attr in _INPLACE_METHODS and is_target(n.func.value):
                out.append(n)
            for k in n.keywords:
                if k.arg == "out" and is_target(k.value):
                    out.append(n)
    return out


def mutable_default_sharing(model, modules):
    """Default-argument objects (arrays / containers built once, when the function is defined) that are modified in place -- directly, or
    after being stored un-copied into an attribute that some method of the class family modifies in place.  [(func, node, text)]"""
    out = []
    for mn in modules:
        mod = model.mod(mn)
        funcs = list(mod.funcs.values()) + [f for c in mod.classes.values() for f in c.methods.values()]
        for f in funcs:
            a = f.node.args
            params = a.posonlyargs + a.args
            defaults = list(zip(params[len(params) - len(a.defaults):], a.defaults)) + [(p_, d) for p_, d in zip(a.kwonlyargs, a.kw_defaults) if d is not None]
            for p_, d in defaults:
                mutable = isinstance(d, (ast.List, ast.Dict, ast.Set, ast.ListComp, ast.DictComp, ast.SetComp)) or (isinstance(d, ast.Call) and norm(d.func) in _ARRAY_CTORS)
                if not mutable:
                    continue
                name = p_.arg
                rebinds = [n for n in ast.walk(f.node) if isinstance(n, ast.Assign) and any(isinstance(t, ast.Name) and t.id == name for t in n.targets)]
                if rebinds:
                    continue  # the parameter is re-bound in the body (e.g. copied): not followed here
                direct = _inplace_writes(f.node, lambda e: isinstance(e, ast.Name) and e.id == name)
                for w in direct:
                    out.append((f, w, f"default `{name}={norm(d)}` is built once, when {f.short} is defined, and `{norm(w)[:60]}` modifies it in place"))
                if f.cls is None or not f.params:
                    continue
                me = f.params[0]
                stored = [t.attr for n in ast.walk(f.node) if isinstance(n, (ast.Assign, ast.AnnAssign)) and isinstance(n.value, ast.Name) and n.value.id == name
                          for t in (n.targets if isinstance(n, ast.Assign) else [n.target]) if isinstance(t, ast.Attribute) and isinstance(t.value, ast.Name) and t.value.id == me]
                if not stored:
                    continue
                family = set(model.mro(f.cls)) | set(model.subclasses(f.cls))
                for attr in stored:
                    for k in family:
                        for g in k.methods.values():
                            if not g.params:
                                continue
                            me_g = g.params[0]
                            for w in _inplace_writes(g.node, lambda e: isinstance(e, ast.Attribute) and e.attr == attr and isinstance(e.value, ast.Name) and e.value.id == me_g):
                                out.append((g, w, f"default `{name}={norm(d)}` of {f.short} is built once and stored un-copied as self.{attr}; "
                                                  f"`{norm(w)[:60]}` in {g.short} modifies that object in place, for every instance constructed with the default"))
    return out


def rule_shared_state(ctx, R, modules, what):
    ctx.rule(R, "no function of the anchored modules writes into a module-level or class-level mutable container (a cache there outlives the "
             "call and the object: results would depend on earlier calls / other instances, whatever key is used)")
    mods = set(modules)
    n_funcs = 0
    for mn in mods:
        mod = ctx.model.mod(mn)
        ctx.consult(mn)
        n_funcs += len(mod.funcs) + sum(len(c.methods) for c in mod.classes.values())
    ctx.instance(R, n_funcs)
    ws = shared_state_writes(ctx.model, mods)
    for f, node, desc in ws:
        covered, vd, kd = cache_key_covers_value(f, node)
        if covered:
            cont = norm(node.targets[0].value)
            muts = memo_value_mutations(ctx.model, f, cont)
            producer = node.value if isinstance(node.value, ast.Call) else None
            is_mut = _mutable_result(ctx.model, f, producer) if producer is not None else None
            if muts and is_mut is not False:
                ctx.ob(R, f.qname, f"objects held in the memo {cont} are not modified in place", False,
                       f"{desc}; the memoised object is handed to every later call, and `{muts[0][1][:60]}` modifies it in place: the second request gets a different value; {what}", muts[0][0])
                continue
            # a memo is a function of its key only if the computation is: a value read from a file (np.load, open, imread, <object>.load(path), ...)
            # depends on the file's contents at the time of the first request
            IO_FUNCS = ("np.load", "np.loadtxt", "np.genfromtxt", "np.fromfile", "open", "json.load", "pickle.load", "cv2.imread", "skimage.io.imread", "darsia.imread", "imread",
                        "pd.read_csv", "Image.open")
            io_calls = [norm(c_)[:50] for c_ in ast.walk(f.node) if isinstance(c_, ast.Call)
                        and (norm(c_.func) in IO_FUNCS or (isinstance(c_.func, ast.Attribute) and c_.func.attr in ("load", "read", "read_text", "read_bytes", "load_from_file", "imread") and norm(c_.func.value) not in ("json", "pickle")))]
            if io_calls:
                ctx.ob(R, f.qname, f"the memo {cont} is a function of its key", False,
                       f"{desc}; the stored value is read from a file (`{io_calls[0]}`): the key names the file, not its contents -- once the file is written again under the same name, "
                       f"every later request in the process still gets what was read first; {what}", node, evidence=True)
                continue
            ctx.note(f"{R}: {f.short}: {desc} -- keyed on everything the stored value is computed from ({sorted(kd)}), accepted as a memo")
            continue
        missing = sorted(vd - kd)
        ctx.ob(R, f.qname, f"no write into process-wide state ({desc.split(' is ')[0]})", False,
               f"{desc}; the stored value also depends on {missing[:6]}, which the key {sorted(kd)} does not cover; {what}", node)
    # functools caches: the object returned to the first caller is the object every later caller gets
    for g in decorator_cached(ctx.model, mods):
        if not _returns_mutable(ctx.model, g):
            ctx.note(f"{R}: {g.short} is wrapped in a functools cache and returns immutable values")
            continue
        muts = cached_result_mutations(ctx.model, g)
        ctx.ob(R, g.qname, f"values handed out by the functools cache around {g.short} are not modified in place by any caller", not muts,
               "; ".join(f"{f.short}: `{t[:60]}`" for f, _, t in muts[:3]) + f" -- the cached arrays are shared with every later call of {g.short}: its result depends on earlier calls; {what}",
               muts[0][1] if muts else g.node, evidence=True)
    # default-argument objects live as long as the function: modifying one in place is process-wide state as well
    for f, node, text in mutable_default_sharing(ctx.model, mods):
        ctx.ob(R, f.qname, "no default-argument object is modified in place", False, f"{text}; {what}", node, evidence=True)
    ctx.ob(R, "darsia", f"{len(mods)} module(s), {n_funcs} function(s) scanned for writes into module-/class-level containers", True, "", None)


def shared(ctx, prefix, rule_fn, *args, why=""):
    """Run a rule that belongs to another property as a sub-rule of this one (same obligations, keys prefixed):
    used where this property's behaviour rests on a mechanism whose structural conditions are decided elsewhere."""
    n0 = len(ctx.obs)
    before_text, before_floor, before_inst = dict(ctx.rule_text), dict(ctx.floors), dict(ctx.instances)
    rule_fn(ctx, *args)
    new_rules = {o.rule for o in ctx.obs[n0:]} | (set(ctx.rule_text) - set(before_text)) | (set(ctx.floors) - set(before_floor))
    for o in ctx.obs[n0:]:
        o.rule = f"{prefix}/{o.rule}"
    for r in new_rules:
        for d, old in ((ctx.rule_text, before_text), (ctx.floors, before_floor), (ctx.instances, before_inst)):
            if r in d and (r not in old or d is ctx.instances):
                val = d.pop(r)
                if d is ctx.instances and r in old:
                    d[r] = old[r]
                    val = val - old[r]
                d[f"{prefix}/{r}"] = (f"(shared: {why}) " + val) if d is ctx.rule_text and why else val


# ---- metadata round trip: Image(img, **image.metadata()) reproduces the metadata -------------------------------------------------------

META_ACCEPT = {
    "origin": lambda t, tok: t in (tok, f"darsia.Coordinate({tok})", f"darsia.Coordinate(np.array({tok}))", f"darsia.Coordinate(np.asarray({tok}))"),
}


def rule_metadata_roundtrip(ctx, R):
    """Every derived image in the package is built as type(x)(array, **x.metadata()) (sub-images, time slices, corrections, reductions,
    analysis results, readers): the physical metadata survives only if the constructor keeps every entry it is passed and metadata() hands
    every entry back.  Image / ScalarImage / OpticalImage are folded path-wise: constructor on one opaque token per metadata key, then
    metadata() on the object that leaves; each key must come back as the token that went in (dimensions as an equal list, the origin
    wrapped as a Coordinate)."""
    from ..fold import Folder, Obj, Opaque, Raised, Refuse, Sym, fold_paths
    from ..terms import nf

    ctx.rule(R, "metadata round trip: for Image, ScalarImage and OpticalImage (single and series), folding the constructor on one token per "
             "metadata key and then metadata() on the resulting object returns every key with the token that was passed -- a constructor that "
             "drops or recomputes an entry (a relative time re-derived from the dates), or a metadata() that omits one, changes the time stamp "
             "/ placement of every sub-image, slice, corrected image and analysis result, all of which are built as type(x)(array, **x.metadata())")
    m = ctx.model
    IMGM = "darsia.image.image"
    ctx.consult(IMGM)
    d = 2
    # the pixel data pass through the constructor unchanged: derived images are built as type(x)(array, **x.metadata()), so a constructor
    # that clips / rescales / rounds the array it is given changes the result of every resampling, reduction and correction
    VAL = {"np.clip", "np.maximum", "np.minimum", "np.abs", "np.absolute", "np.nan_to_num", "np.round", "np.around", "np.floor", "np.ceil", "darsia.convert_dtype",
           "skimage.img_as_float", "skimage.img_as_float32", "skimage.img_as_float64", "skimage.img_as_ubyte", "skimage.img_as_uint"}
    for cname in ("Image", "ScalarImage", "OpticalImage"):
        init_ = m.method(m.cls(IMGM, cname), "__init__")
        if init_ is None or init_.cls.name != cname or len(init_.params) < 2:
            continue
        pimg = init_.params[1]
        for st in ast.walk(init_.node):
            if isinstance(st, ast.Assign) and any(isinstance(t, ast.Name) and t.id == pimg for t in st.targets):
                v = st.value
                changing = (isinstance(v, ast.Call) and (norm(v.func) in VAL or (isinstance(v.func, ast.Attribute) and v.func.attr in ("clip", "round"))) and any(isinstance(x, ast.Name) and x.id == pimg for x in ast.walk(v))) \
                    or (isinstance(v, ast.BinOp) and any(isinstance(x, ast.Name) and x.id == pimg for x in ast.walk(v)))
                if changing:
                    ctx.instance(R)
                    ctx.ob(R, init_.qname, f"{cname}: the constructor stores the array it is given", False,
                           f"`{norm(st)[:90]}` changes the pixel values before they are stored: images rebuilt from an array and the metadata (resized, reduced, corrected, superposed "
                           "ones) do not carry the data that was computed for them", st, evidence=True)
    for cname in ("Image", "ScalarImage", "OpticalImage"):
        k = m.cls(IMGM, cname)
        init, meta = m.method(k, "__init__"), m.method(k, "metadata")
        for series in (False, True):
            ctx.instance(R)
            label = f"{cname}({'series' if series else 'single image'})"

            def run(decide, cname=cname, series=series, init=init, meta=meta):
                keys = ["date", "reference_date", "time", "name", "origin"]
                kw = {kk: Opaque("meta", kk.upper()) for kk in keys}
                kw.update({"space_dim": d, "indexing": "ijk"[:d], "series": series, "dimensions": [Opaque("float", f"D{i}") for i in range(d)]})
                if cname == "Image":
                    kw["scalar"] = True
                if cname == "OpticalImage":
                    kw["color_space"] = "RGB"
                shape = [Opaque("int", f"N{i}") for i in range(d + (1 if series else 0))] + ([3] if cname == "OpticalImage" else [])
                img = Opaque("ndarray", "IMG", {"shape": tuple(shape), "dtype": Opaque("dtype", "DT")})
                so = Obj("self", {"__class__": cname})
                fo = Folder(symbolic=True)
                fo.decider = decide
                fo.func_stack.append(init.node)
                fo.fold_all_methods = True
                fo.overrides = {"warn": lambda a, k_: None, "logger.debug": lambda a, k_: None, "warnings.warn": lambda a, k_: None}
                fo.call(init.node, [so, img], dict(kw))
                fo2 = Folder(symbolic=True)
                fo2.decider = decide
                fo2.func_stack.append(meta.node)
                fo2.fold_all_methods = True
                r = fo2.call(meta.node, [so])
                while isinstance(r, Sym) and r.fn in ("copy.copy", "copy.deepcopy", "dict") and len(r.args) == 1:
                    r = r.args[0]
                return r, kw
            try:
                paths = fold_paths(run, max_paths=32)
            except Refuse as e:
                ctx.ob(R, init.qname, f"{label}: constructor and metadata() fold", False, f"fold not found to be possible: {e}", init.node)
                continue
            done = 0
            problems, undecided = [], []
            for log, r, err in paths:
                if err is not None:
                    if isinstance(err, Raised) and err.name == "AssertionError":
                        continue   # a path on which the constructor rejects its input
                    undecided.append(f"path ends in {err!r}")
                    continue
                md, kw = r
                if not isinstance(md, dict):
                    undecided.append(f"metadata() returns {nf(md)[:80]}")
                    continue
                done += 1
                where = ("on the path " + " and ".join(("" if b else "not ") + nf(c)[:50] for c, b in log[-2:])) if log else "on every path"
                for kk, tok in kw.items():
                    if kk not in md:
                        problems.append((meta, f"metadata() has no entry '{kk}' {where}, although the constructor was given one: every image rebuilt from the metadata loses it"))
                        continue
                    v = md[kk]
                    if v is tok or (not isinstance(tok, (Opaque, list)) and v == tok):
                        continue
                    if isinstance(tok, list) and isinstance(v, list) and len(v) == len(tok) and all(a is b for a, b in zip(v, tok)):
                        continue
                    t = nf(v)
                    tk = nf(tok)
                    if kk in META_ACCEPT and isinstance(tok, Opaque) and META_ACCEPT[kk](t, tk):
                        continue
                    if isinstance(tok, Opaque) and tk not in t:
                        problems.append((init, f"'{kk}' comes back as {t[:90]} {where}: the value passed to the constructor is not kept"))
                    else:
                        undecided.append(f"'{kk}' comes back as {t[:90]}")
            if problems:
                seen = set()
                for fn, msg in problems:
                    if msg in seen:
                        continue
                    seen.add(msg)
                    ctx.ob(R, fn.qname, f"{label}: every metadata entry passed to the constructor comes back from metadata()", False, msg, fn.node, evidence=True)
            elif undecided or not done:
                ctx.ob(R, init.qname, f"{label}: every metadata entry passed to the constructor comes back from metadata()", False,
                       "round trip not found to be decidable: " + "; ".join(undecided[:3]), init.node)
            else:
                ctx.ob(R, init.qname, f"{label}: every metadata entry passed to the constructor comes back from metadata()", True, "", init.node)
    ctx.floor(R, 6)


# ---- scale-dependent shortcuts: tests with numpy's default absolute tolerance on data magnitudes ------------------------------------------

_META_WORDS = ("shape", "size", "ndim", "voxel_size", "dimensions", "num_voxels", "origin", "dtype", "time", "date", "indexing", "counts", "labels")


def rule_abs_tolerance(ctx, R, funcs, what):
    """In `funcs` (the computation behind a property that is invariant under rescaling of its data), no branch may be decided by
    np.allclose / np.isclose / math.isclose with the default absolute tolerance applied to data compared with zero or with other data:
    atol = 1e-8 makes every quantity below 1e-8 'equal to zero', so the branch taken -- and with it the result -- depends on the units."""
    ctx.rule(R, "no scale-dependent shortcut: outside assert statements, no np.allclose / np.isclose / math.isclose with the default absolute "
             "tolerance (1e-8) compares data with zero or data with data -- results must not change when the data are rescaled (small masses, "
             "SI units with millimetre voxels, tiny residuals)")
    n = 0
    for f in funcs:
        n += 1
        for c in ast.walk(f.node):
            if not (isinstance(c, ast.Call) and norm(c.func) in ("np.allclose", "np.isclose", "math.isclose") and len(c.args) >= 2):
                continue
            cur, in_assert = c, False
            while cur is not None and cur is not f.node:
                if isinstance(cur, ast.Assert):
                    in_assert = True
                cur = getattr(cur, "_parent", None)
            if in_assert:
                continue
            kws = {k.arg: k.value for k in c.keywords}
            tol = kws.get("atol", kws.get("abs_tol"))
            if norm(c.func) == "math.isclose" and tol is None:
                continue  # math.isclose has no absolute tolerance by default
            if tol is not None and not (isinstance(tol, ast.Constant) and tol.value not in (0, 0.0)) and not isinstance(tol, ast.Constant):
                continue  # a tolerance computed by the caller: not the fixed default
            if isinstance(tol, ast.Constant) and tol.value in (0, 0.0):
                continue
            a, b = c.args[0], c.args[1]

            def is_zero(e):
                return (isinstance(e, ast.Constant) and e.value in (0, 0.0)) or (isinstance(e, ast.Call) and norm(e.func) in ("np.zeros", "np.zeros_like"))

            def is_data(e):
                if isinstance(e, ast.Constant) or isinstance(e, (ast.List, ast.Tuple)) and all(isinstance(x, ast.Constant) for x in e.elts):
                    return False
                t = norm(e)
                return not any(w in t for w in _META_WORDS)
            if (is_zero(b) and is_data(a)) or (is_zero(a) and is_data(b)) or (is_data(a) and is_data(b) and not is_zero(a) and not is_zero(b)):
                ctx.instance(R)
                ctx.ob(R, f.qname, "no branch is decided by a default-tolerance comparison of data", False,
                       f"`{norm(c)[:90]}` uses the default absolute tolerance 1e-8: for data of magnitude below 1e-8 it holds whatever the values are, so the "
                       f"shortcut it guards changes the result when the inputs are rescaled; {what}", c, evidence=True)
        # a magnitude compared with a tiny fixed number decides a branch that returns / assigns (guards that raise are input validation)
        for c in ast.walk(f.node):
            if not (isinstance(c, ast.Compare) and len(c.ops) == 1 and isinstance(c.ops[0], (ast.Lt, ast.LtE, ast.Gt, ast.GtE))):
                continue
            sides = [c.left, c.comparators[0]]
            lit = [x for x in sides if isinstance(x, ast.Constant) and isinstance(x.value, (int, float)) and not isinstance(x.value, bool) and 0 < abs(x.value) <= 1e-6]
            mag = [x for x in sides if isinstance(x, ast.Call) and norm(x.func) in ("np.linalg.norm", "abs", "np.abs", "np.max", "np.amax", "np.sum", "np.linalg.norm", "scipy.linalg.norm", "sps.linalg.norm")
                   and x.args and not any(w in norm(x.args[0]) for w in _META_WORDS)]
            if len(lit) != 1 or len(mag) != 1:
                continue
            cur, head = c, None
            while cur is not None and cur is not f.node:
                par = getattr(cur, "_parent", None)
                if isinstance(par, (ast.If, ast.IfExp)) and cur is par.test:
                    head = par
                    break
                if isinstance(par, ast.Assert):
                    break
                cur = par
            if head is None:
                continue
            raises = isinstance(head, ast.If) and all(isinstance(x, ast.Raise) for x in head.body) and not head.orelse
            if raises:
                continue
            ctx.instance(R)
            ctx.ob(R, f.qname, "no branch is decided by comparing a data magnitude with a fixed tiny number", False,
                   f"`{norm(c)[:80]}` compares the size of the data with the absolute threshold {lit[0].value}: inputs of small magnitude (tiny masses, SI units) take the shortcut whatever "
                   f"their values are; {what}", c, evidence=True)
    ctx.instance(R, 0)
    ctx.ob(R, "darsia", f"{n} function(s) scanned for default-tolerance comparisons of data", True, "", None)


# ---- optional parameters are compared with None, not tested for truth ----------------------------------------------------------------

def rule_optional_truthiness(ctx, R, modules, what):
    """A parameter whose default is None stands for 'not given'.  Testing it by truth value (`pt or 0.5`, `if not offset`) also treats the
    legitimate values 0, 0.0 and empty arrays as 'not given' (and raises for arrays with several entries)."""
    ctx.rule(R, "optional parameters (default None) of the anchored modules are tested with `is None`, never by truth value: a point at 0, an "
             "offset of 0 or a tolerance of 0 given explicitly is a value, not the absence of one")
    n = 0
    for mn in modules:
        mod = ctx.model.mod(mn)
        for f in list(mod.funcs.values()) + [g for c in mod.classes.values() for g in c.methods.values()]:
            a = f.node.args
            params = a.posonlyargs + a.args
            dflt = dict(zip(params[len(params) - len(a.defaults):], a.defaults))
            dflt.update({p_: d for p_, d in zip(a.kwonlyargs, a.kw_defaults) if d is not None})
            opt = {}
            for p_, d in dflt.items():
                if isinstance(d, ast.Constant) and d.value is None:
                    ann = norm(p_.annotation) if p_.annotation is not None else ""
                    if any(w in ann for w in ("list", "List", "dict", "Dict", "str", "bool", "allable", "Path", "tuple", "Tuple", "Image", "Grid", "Model", "Solver", "datetime")):
                        continue  # containers, flags, names and objects: their truth value is their presence
                    opt[p_.arg] = p_
            if not opt:
                continue
            n += 1
            rebound = {t.id for s_ in ast.walk(f.node) if isinstance(s_, ast.Assign) for t in s_.targets if isinstance(t, ast.Name)}
            reach = None
            if rebound & set(opt):
                # the name is re-bound somewhere: a use counts when the value the caller passed can still reach it
                from .. import cfg as C_

                try:
                    g_ = C_.CFG(f.node)
                    RD_, _ = C_.reaching_definitions(g_, f.params)
                    node_of = {id(n_.stmt): n_.id for n_ in g_.nodes if n_.stmt is not None}

                    def reach(expr, name, g_=g_, RD_=RD_, node_of=node_of):
                        cur = expr
                        while cur is not None and cur is not f.node and id(cur) not in node_of:
                            cur = getattr(cur, "_parent", None)
                        nid = node_of.get(id(cur))
                        return nid is not None and any(nme == name and g_.nodes[i].kind == "entry" for nme, i in RD_.get(nid, ()))
                except Exception:
                    reach = None
            for x in ast.walk(f.node):
                tests = []
                if isinstance(x, (ast.If, ast.IfExp, ast.While)):
                    tests.append(x.test)
                elif isinstance(x, ast.BoolOp):
                    tests.extend(x.values[:-1] if isinstance(x.op, ast.Or) else x.values)
                elif isinstance(x, ast.UnaryOp) and isinstance(x.op, ast.Not):
                    tests.append(x.operand)
                for t in tests:
                    while isinstance(t, ast.UnaryOp) and isinstance(t.op, ast.Not):
                        t = t.operand
                    if isinstance(t, ast.Name) and t.id in opt and (t.id not in rebound or (reach is not None and reach(x, t.id))):
                        ctx.instance(R)
                        ctx.ob(R, f.qname, f"the optional `{t.id}` is compared with None", False,
                               f"`{norm(x)[:80]}` uses `{t.id}` as a truth value: an explicit 0 / 0.0 (or an empty array) is treated as 'not given'; {what}", x, evidence=True)
    ctx.instance(R, 0)
    ctx.ob(R, "darsia", f"{n} function(s) with optional non-container parameters scanned for truth-value tests", True, "", None)


def rule_extent_keywords(ctx, R):
    """Image(height=, width=, depth=): the three keywords address the first, second and third matrix axis (documented in the constructor);
    folded for 2 and 3 dimensions on one token per keyword."""
    from ..fold import Folder, Obj, Opaque, Raised, Refuse, fold_paths
    from ..terms import nf

    ctx.rule(R, "extent keywords: Image(height=H, width=W[, depth=D]) stores dimensions = [H, W(, D)] -- matrix axes 0, 1, 2 in this order, in "
             "every dimension (the voxel sizes, the grid and every face area are derived from this list)")
    m = ctx.model
    init = m.method(m.cls("darsia.image.image", "Image"), "__init__")
    for d in (2, 3):
        ctx.instance(R)
        toks = {"height": Opaque("float", "HEIGHT"), "width": Opaque("float", "WIDTH")}
        if d == 3:
            toks["depth"] = Opaque("float", "DEPTH")

        def run(decide, d=d, toks=toks):
            shape = tuple(Opaque("int", f"N{i}") for i in range(d))
            img = Opaque("ndarray", "IMG", {"shape": shape, "dtype": Opaque("dtype", "DT")})
            so = Obj("self", {"__class__": "Image"})
            fo = Folder(symbolic=True)
            fo.decider = decide
            fo.func_stack.append(init.node)
            fo.fold_all_methods = True
            fo.overrides = {"warn": lambda a, k_: None, "logger.debug": lambda a, k_: None, "warnings.warn": lambda a, k_: None}
            fo.call(init.node, [so, img], {"space_dim": d, "indexing": "ijk"[:d], "scalar": True, "series": False, **toks})
            return so.fields.get("dimensions")
        title = f"dim {d}: height / width" + (" / depth" if d == 3 else "") + " are the extents of matrix axes 0, 1" + (", 2" if d == 3 else "")
        try:
            paths = [(log, r) for log, r, e in fold_paths(run, max_paths=16) if e is None]
        except Refuse as e:
            ctx.ob(R, init.qname, title, False, f"fold of the constructor not found to be possible: {e}", init.node)
            continue
        if not paths:
            ctx.ob(R, init.qname, title, False, "fold of the constructor not found to be possible on any path", init.node)
            continue
        want = [toks["height"], toks["width"]] + ([toks["depth"]] if d == 3 else [])
        bad = [r for _, r in paths if not (isinstance(r, list) and len(r) == d and all(x is y for x, y in zip(r, want)))]
        perm = bad and isinstance(bad[0], list) and len(bad[0]) == d and all(any(x is y for y in want) for x in bad[0])
        ctx.ob(R, init.qname, title, not bad, (f"dimensions = {nf(bad[0])[:80]}" + (": the keywords are assigned to other axes" if perm else " -- extents not found in this form")) if bad else "", init.node, evidence=bool(perm))
    ctx.floor(R, 2)
