"""C11 -- resampling and axis reduction conserve integrals (structural clauses only)."""
from __future__ import annotations

import ast

from .. import cfg as C
from ..algebra import NotPolynomial, Poly, ToPoly
from ..fold import Folder, Obj, Raised, Refuse
from ..report import AnalysisError
from ..srcmodel import norm
from ..state import self_attr
from ..vocab import VocabDA
from . import c20

LEVEL = "other"
RES = "darsia.restoration.resize"
DIM = "darsia.signals.reduction.dimensionreduction"
SUB = "darsia.image.subregions"
IDX = "darsia.image.indexing"


def rule_a(ctx):
    R = "C11.a"
    ctx.rule(R, "the retained physical extent is carried over: Resize.__call__, uniform_refinement and equalize_voxel_size return "
             "type(img)(array, **img.metadata()) with dimensions and origin untouched; AxisReduction removes the dimension at the matrix "
             "index and the origin component at the Cartesian axis, the two being derived from each other through the axis table in both "
             "the str and the int branch; extrusion prepends the height to dimensions and origin and the new axis is matrix axis 0")
    m = ctx.model
    ctx.consult(RES)
    ctx.consult(DIM)
    for qn, arr in (("Resize.__call__", "resized_img_array"), ("uniform_refinement", "array")):
        f = m.func(RES, qn)
        p = f.params[-1] if qn == "Resize.__call__" else f.params[0]
        ctx.instance(R)
        meta_writes = [norm(s) for s in ast.walk(f.node) if isinstance(s, ast.Assign) and isinstance(s.targets[0], ast.Subscript) and norm(s.targets[0].value) in ("meta", "metadata")]
        rets = [norm(r.value) for r in ast.walk(f.node) if isinstance(r, ast.Return) and isinstance(r.value, ast.Call) and norm(r.value.func).startswith("type(")]
        metas = [norm(s.value) for s in ast.walk(f.node) if isinstance(s, ast.Assign) and norm(s.targets[0]) == "meta"]
        ctx.ob(R, f.qname, "result is type(img)(resampled array, **img.metadata()) with the metadata untouched",
               rets == [f"type({p})({arr}, **meta)"] and metas == [f"{p}.metadata()"] and not meta_writes, f"{rets} {metas} {meta_writes}", f.node)
    f = m.func(RES, "equalize_voxel_size")
    ctx.instance(R)
    env = {norm(s.targets[0]): norm(s.value) for s in f.node.body if isinstance(s, ast.Assign)}
    ok = env.get("dimensions") == f"{f.params[0]}.dimensions" and env.get("shape") == "tuple((int(d / voxel_size) for d in dimensions))" and env.get("resize") == "Resize(shape=shape, interpolation=interpolation)"
    ctx.ob(R, f.qname, "equalize_voxel_size resizes to dimensions / voxel_size voxels and keeps the dimensions", ok and [norm(r.value) for r in ast.walk(f.node) if isinstance(r, ast.Return)] == [f"resize({f.params[0]})"], str(env), f.node)
    # AxisReduction metadata
    f = m.func(DIM, "AxisReduction.__call__")
    ctx.instance(R)
    txt = [norm(s) for s in ast.walk(f.node) if isinstance(s, (ast.Assign, ast.Expr))]
    p = f.params[1]
    ctx.ob(R, f.qname, "the dimension at the reduced matrix index is removed", f"new_dimensions = {p}.dimensions.copy()" in txt and "new_dimensions.pop(self.index)" in txt, "", f.node)
    ctx.ob(R, f.qname, "the origin component at the reduced Cartesian axis is removed", "new_min_corner = min_corner.tolist()" in txt and "new_min_corner.pop(self.axis)" in txt and f"min_corner = {p}.origin.copy()" in txt, "", f.node)
    meta = {s.targets[0].slice.value: norm(s.value) for s in ast.walk(f.node) if isinstance(s, ast.Assign) and isinstance(s.targets[0], ast.Subscript) and norm(s.targets[0].value) == "metadata" and isinstance(s.targets[0].slice, ast.Constant)}
    ctx.ob(R, f.qname, "metadata: space_dim-1, reduced indexing, rebuilt origin, reduced dimensions", meta == {"space_dim": "new_dim", "indexing": "new_indexing", "origin": "new_origin", "dimensions": "new_dimensions"}, str(meta), f.node)
    # (index, axis) pair from the table, both branches
    T_i, _, _ = c20.extract_tables(ctx)
    init = m.func(DIM, "AxisReduction.__init__")
    fi = m.func(IDX, "interpret_indexing")

    def resolver(call):
        t = m.resolve_call(call, init)
        return t.node if t is fi else None
    for d in (2, 3):
        for k, a in enumerate("xyz"[:d]):
            ctx.instance(R)
            want = (T_i[(a, "ijk"[:d])][1][0], k)
            got = {}
            for label, arg in (("str", a), ("int", want[0])):
                o = Obj("self")
                try:
                    Folder(resolver).call(init.node, [o, arg, d])
                    got[label] = (o.fields.get("index"), o.fields.get("axis"))
                except (Raised, Refuse) as e:
                    got[label] = ("error", str(e))
            ctx.ob(R, init.qname, f"dim {d}, axis {a!r}: (matrix index, Cartesian axis) = {want} from either spelling", got.get("str") == want and got.get("int") == want, str(got), init.node)
    # extrusion
    f = m.func(DIM, "extrude_along_axis")
    ctx.instance(R)
    meta = {s.targets[0].slice.value: norm(s.value) for s in ast.walk(f.node) if isinstance(s, ast.Assign) and isinstance(s.targets[0], ast.Subscript) and norm(s.targets[0].value) == "meta" and isinstance(s.targets[0].slice, ast.Constant)}
    h = f.params[1]
    ctx.ob(R, f.qname, "extrusion prepends the height to dimensions and origin and sets 3d matrix indexing",
           meta == {"space_dim": "3", "dimensions": f"[{h}, *meta['dimensions']]", "indexing": "'ijk'", "origin": f"[{h}, *meta['origin']]"}, str(meta), f.node)
    txt = [norm(s) for s in ast.walk(f.node) if isinstance(s, ast.Assign)]
    ctx.ob(R, f.qname, "the new axis is matrix axis 0 of the array", f"arr_3d = np.zeros(({f.params[2]}, *shape), dtype=arr.dtype)" in txt and "arr_3d[i, ...] = arr" in txt, "", f.node)
    ctx.floor(R, 8)


def rule_b(ctx):
    R = "C11.b"
    ctx.rule(R, "the reduction is what it says: sum = np.sum(img, axis=self.index); average divides that by img.shape[self.index] (same axis); "
             "mode vocabulary {average, sum, slice}")
    m = ctx.model
    f = m.func(DIM, "AxisReduction.__call__")
    p = f.params[1]
    ctx.instance(R)
    txt = [norm(s) for s in ast.walk(f.node) if isinstance(s, (ast.Assign, ast.AugAssign))]
    ctx.ob(R, f.qname, "sum along the reduced matrix axis", f"img_arr = np.sum({p}.img, axis=self.index)" in txt, "", f.node)
    ctx.ob(R, f.qname, "average = that sum divided by the extent of the same axis", f"img_arr /= {p}.img.shape[self.index]" in txt or f"img_arr = img_arr / {p}.img.shape[self.index]" in txt, str([t for t in txt if "img_arr" in t][:4]), f.node)
    # the division happens on the average branch only
    avg = [n for n in ast.walk(f.node) if isinstance(n, ast.If) and norm(n.test) == "self.mode == 'average'"]
    ok = len(avg) == 1 and any("img_arr" in norm(s) and "shape[self.index]" in norm(s) for s in avg[0].body) and not any("shape[self.index]" in norm(s) for s in avg[0].orelse for s in [s])
    ctx.ob(R, f.qname, "only the 'average' mode divides", ok, "", f.node)
    modes = sorted({x.value for c in ast.walk(f.node) if isinstance(c, ast.Compare) and norm(c.left) == "self.mode" for cc in c.comparators for x in ast.walk(cc) if isinstance(x, ast.Constant) and isinstance(x.value, str)})
    ctx.ob(R, f.qname, "mode vocabulary {average, sum, slice}", modes == ["average", "slice", "sum"], str(modes), f.node)
    ctx.floor(R, 1)


def rule_c(ctx):
    R = "C11.c"
    ctx.rule(R, "conservative rescaling uses the voxel-count ratio the right way up: the factor applied under is_conservative is "
             "prod(input.shape[:2]) / prod(output.shape[:2]) of the arrays actually resized and produced, applied after the channel merge")
    m = ctx.model
    f = m.func(RES, "Resize.__call__")
    ctx.instance(R)
    blk = [n for n in ast.walk(f.node) if isinstance(n, ast.If) and norm(n.test) == "self.is_conservative"]
    ctx.need(len(blk) == 1, "Resize.__call__: is_conservative block not found")
    st = blk[0].body
    ok = False
    desc = ""
    if len(st) == 1 and isinstance(st[0], ast.AugAssign) and isinstance(st[0].op, ast.Mult):
        tgt = norm(st[0].target)
        desc = norm(st[0])
        try:
            def atom(n):
                if isinstance(n, ast.Call) and norm(n.func) == "np.prod":
                    return "prod(" + norm(n.args[0]) + ")"
                return None
            pf = ToPoly(atomize=atom)(st[0].value)
            ok = tgt == "resized_img_array" and pf == Poly.atom("prod(img_array.shape[:2])") / Poly.atom("prod(resized_img_array.shape[:2])")
        except NotPolynomial:
            ok = False
    ctx.ob(R, f.qname, "factor = prod(input voxels) / prod(output voxels), applied to the resized array", ok, desc, blk[0])
    # order: after merge/reshape, before return
    body = f.node.body
    i_blk = body.index(blk[0])
    i_merge = max(i for i, s in enumerate(body) if "cv2.merge" in norm(s) or "np.reshape(resized_multi_channel_img_array" in norm(s))
    ctx.ob(R, f.qname, "the factor is applied after the channels are merged (all channels alike)", i_merge < i_blk, f"merge at {i_merge}, factor at {i_blk}", blk[0])
    src = [norm(s.value) for s in body if isinstance(s, ast.Assign) and norm(s.targets[0]) == "img_array"]
    ctx.ob(R, f.qname, "the input array of the ratio is the array actually resized (a copy of the input data)", src[:1] == [f"{f.params[1]}.img.copy() if input_is_image else {f.params[1]}.copy()"], str(src), f.node)
    ctx.floor(R, 1)


def rule_d(ctx):
    R = "C11.d"
    ctx.rule(R, "refinement and coarsening are the factor-2 pair: refinement repeats twice along each spatial axis; coarsening combines the "
             "0::2 and 1::2 slices of the same axis; every value computed for the combination flows into the result (def-use: a weight "
             "that is built and dropped changes what an odd last element counts); the axis length is read from the running array")
    m = ctx.model
    f = m.func(RES, "uniform_refinement")
    ctx.instance(R)
    img = f.params[0]
    txt = [norm(s) for s in ast.walk(f.node) if isinstance(s, ast.Assign)]
    ctx.ob(R, f.qname, "refinement repeats twice along each of range(space_dim)", "array = np.repeat(array, 2, axis=i)" in txt, "", f.node)
    ctx.ob(R, f.qname, "coarsening uses the 0::2 and 1::2 slices of the same axis", "slice_0 = i_slice(slice(0, None, 2))" in txt and "slice_1 = i_slice(slice(1, None, 2))" in txt
           and "sub_array_0 = array[slice_0]" in txt and "sub_array_1 = array[slice_1]" in txt, "", f.node)
    # def-use inside the coarsening loop
    loops = [l for l in ast.walk(f.node) if isinstance(l, ast.For) and norm(l.iter) == f"range({img}.space_dim)"]
    coarse = [l for l in loops if any("slice_0" in norm(s) for s in l.body)]
    ctx.need(len(coarse) == 1, "uniform_refinement: coarsening loop not found")
    lp = coarse[0]
    assigned = {}
    for s in lp.body:
        if isinstance(s, ast.Assign) and isinstance(s.targets[0], ast.Name):
            assigned[s.targets[0].id] = s
    # backward slice from `array`
    need = {"array"}
    changed = True
    while changed:
        changed = False
        for s in lp.body:
            tg = None
            if isinstance(s, ast.Assign):
                t = s.targets[0]
                tg = t.id if isinstance(t, ast.Name) else (C.targets_of(t).__next__()[0] if isinstance(t, (ast.Subscript, ast.Attribute)) else None)
            elif isinstance(s, ast.AugAssign):
                b = s.target
                while isinstance(b, (ast.Subscript, ast.Attribute)):
                    b = b.value
                tg = b.id if isinstance(b, ast.Name) else None
            if tg in need:
                used = {x.id for x in ast.walk(s) if isinstance(x, ast.Name) and isinstance(x.ctx, ast.Load)}
                if not used <= need:
                    need |= used
                    changed = True
    for nme, s in sorted(assigned.items()):
        ctx.ob(R, f.qname, f"value `{nme}` computed in the coarsening step flows into the result", nme in need,
               f"`{norm(s)[:70]}` is computed and dropped: the combination does not use it", s)
    al = assigned.get("axis_length")
    if al is not None:
        ctx.ob(R, f.qname, "the axis length is read from the running array", norm(al.value) == "array.shape[i]", f"{norm(al)}: after the first coarsened axis or level the running array is shorter than the original image", al)
    ctx.floor(R, 1)


def rule_e(ctx):
    R = "C11.e"
    ctx.rule(R, "option chains assign: every arm of the interpolation chains of Resize.__init__ and extract_quadrilateral_ROI binds the flag "
             "(an expression statement such as `flag == value` binds nothing), and the chains end in raise")
    m = ctx.model
    ctx.consult(SUB)
    for mod, qn, var, flag in ((RES, "Resize.__init__", "interpolation_pre", "self.interpolation"), (SUB, "extract_quadrilateral_ROI", "interpolation", "interpolation_flag")):
        f = m.func(mod, qn)
        chain = [n for n in ast.walk(f.node) if isinstance(n, ast.If) and isinstance(n.test, ast.Compare) and norm(n.test.left) == var and isinstance(getattr(n, "_parent", None), (ast.FunctionDef,)) or
                 (isinstance(n, ast.If) and isinstance(n.test, ast.Compare) and norm(n.test.left) == var and not (isinstance(getattr(n, "_parent", None), ast.If) and n in getattr(n._parent, "orelse", [])))]
        chain = [c for c in chain if isinstance(c.test.comparators[0], ast.Constant) or norm(c.test.comparators[0]) == "None"]
        ctx.need(chain, f"{f.qname}: interpolation chain not found")
        cur = chain[0]
        n_arm = 0
        while True:
            lit = norm(cur.test.comparators[0])
            n_arm += 1
            ctx.instance(R)
            binds = [s for s in cur.body if isinstance(s, ast.Assign) and norm(s.targets[0]) == flag]
            exprs = [s for s in cur.body if isinstance(s, ast.Expr) and isinstance(s.value, ast.Compare)]
            ctx.ob(R, f.qname, f"arm {lit}: binds {flag}", len(binds) == 1 and not exprs,
                   f"statements: {[norm(s) for s in cur.body]} -- a comparison used as a statement leaves {flag} at its default", cur)
            if len(cur.orelse) == 1 and isinstance(cur.orelse[0], ast.If):
                cur = cur.orelse[0]
                continue
            ctx.ob(R, f.qname, "chain ends in raise", any(isinstance(s, ast.Raise) for s in cur.orelse), "", cur)
            break
    ctx.floor(R, 6)


def run(ctx):
    rule_a(ctx)
    rule_b(ctx)
    rule_c(ctx)
    rule_d(ctx)
    rule_e(ctx)
