"""C11 -- resampling and axis reduction conserve integrals (structural clauses only)."""
from __future__ import annotations

import ast

from .. import cfg as C
from ..amatch import AM
from ..flow import expand
from ..flow import clone
from ..algebra import NotPolynomial, Poly, ToPoly
from ..fold import Folder, Obj, Raised, Refuse
from ..report import AnalysisError
from ..srcmodel import norm
from ..state import self_attr
from ..vocab import VocabDA
from . import c20

LEVEL = "other"
RES = "darsia.restoration.resize"
DIM = "darsia.signals.reduction.dimensionreduction"
SUB = "darsia.image.subregions"
IDX = "darsia.image.indexing"


def _axis_reduction_sem(m, T_i):
    """AxisReduction folded on a symbolic image for every dimension (2, 3), axis letter and the modes sum / average: what the constructor of
    the reduced image is handed, compared with the documented construction -- dimensions without the reduced matrix axis; origin = the
    Cartesian minimum corner without the reduced Cartesian axis, re-anchored by the default-origin convention of the reduced system;
    array = sum along the reduced matrix axis (divided by its extent for the average).  [(title, ok, msg)] or None if it does not fold."""
    from ..algebra import NotPolynomial, Poly
    from ..fold import Arr, Folder as SF, Obj as SO, Opaque, Raised as SRa, Refuse as SRe, Sym
    from ..terms import nf

    def poly(t):
        if isinstance(t, Opaque):
            return Poly.atom(t.label)
        if isinstance(t, Sym) and t.fn in ("+", "-", "*", "/") and len(t.args) == 2 and t.recv is None:
            a, b = poly(t.args[0]), poly(t.args[1])
            return {"+": lambda: a + b, "-": lambda: a - b, "*": lambda: a * b, "/": lambda: a / b}[t.fn]()
        if isinstance(t, Sym) and t.fn == "neg" and len(t.args) == 1:
            return poly(t.args[0]) * -1
        if isinstance(t, int) and not isinstance(t, bool):
            return Poly.const(t)
        raise NotPolynomial(repr(t))

    init = m.func(DIM, "AxisReduction.__init__")
    call = m.func(DIM, "AxisReduction.__call__")
    out = []
    for d in (2, 3):
        for kc, a in enumerate("xyz"[:d]):
            row = T_i[(a, "ijk"[:d])]
            if row[0] != "ret":
                return None
            index = row[1][0]
            for mode in ("sum", "average"):
                me = SO("self", {"__class__": "AxisReduction"})
                fo = SF(symbolic=True)
                fo.func_stack.append(init.node)
                o = [Opaque("float", f"o{c}") for c in range(d)]
                D = [Opaque("float", f"D{k}") for k in range(d)]
                N = [Opaque("int", f"N{k}") for k in range(d)]
                got = {}

                def ctor(a_, k_, got=got):
                    got.update(k_)
                    return SO("result", {})
                meta = {"space_dim": d, "indexing": "ijk"[:d], "origin": Arr(list(o)), "dimensions": list(D), "series": False, "scalar": True, "name": Opaque("meta", "NAME")}
                origin = Arr(list(o))
                img = SO("img", {"__class__": "Image", "__type__": ctor, "space_dim": d, "indexing": "ijk"[:d], "origin": origin, "dimensions": list(D),
                                 "img": Opaque("ndarray", "IMG", {"shape": tuple(N)}), "metadata": lambda a_, k_, meta=meta: dict(meta)})
                try:
                    fo.call(init.node, [me, a, d, mode])
                    # the same axis addressed by its matrix index must configure the same reduction
                    me_i = SO("self", {"__class__": "AxisReduction"})
                    fi_ = SF(symbolic=True)
                    fi_.func_stack.append(init.node)
                    fi_.call(init.node, [me_i, index, d, mode])
                    if mode == "sum":
                        same = (me_i.fields.get("index"), me_i.fields.get("axis")) == (me.fields.get("index"), me.fields.get("axis"))
                        out.append((f"dim {d}, axis {a!r}: addressed by matrix index {index} or by name gives the same (matrix index, Cartesian axis) pair", same and me.fields.get("index") == index and me.fields.get("axis") == kc,
                                    f"by name: {(me.fields.get('index'), me.fields.get('axis'))}, by index: {(me_i.fields.get('index'), me_i.fields.get('axis'))}, table: {(index, kc)}"))
                    f2 = SF(symbolic=True)
                    f2.func_stack.append(call.node)
                    f2.fold_all_methods = True
                    f2.call(call.node, [me, img])
                except (SRe, SRa):
                    return None
                if not got or not all(k in got for k in ("origin", "dimensions", "space_dim", "indexing", "img")):
                    return None
                label = f"dim {d}, axis {a!r}, mode {mode!r}"
                # expected
                mins = []
                for c, ax in enumerate("xyz"[:d]):
                    pos, rev = T_i[(ax, "ijk"[:d])][1]
                    mins.append(Poly.atom(f"o{c}") - Poly.atom(f"D{pos}") if rev else Poly.atom(f"o{c}"))
                mins.pop(kc)
                newD = [x for k, x in enumerate(D) if k != index]
                want_o = []
                for c2, ax2 in enumerate("xyz"[:d - 1]):
                    pos2, rev2 = T_i[(ax2, "ijk"[:d - 1])][1]
                    want_o.append(mins[c2] + Poly.atom(newD[pos2].label) if rev2 else mins[c2])
                gd = got["dimensions"]
                gdl = list(gd) if isinstance(gd, (list, tuple)) else (gd.flat() if isinstance(gd, Arr) else None)
                out.append((f"{label}: dimensions of the result are those of the retained matrix axes", gdl is not None and len(gdl) == d - 1 and all(x is y for x, y in zip(gdl, newD)),
                            f"dimensions = {nf(gd)[:80]}, retained axes have {[nf(x) for x in newD]}"))
                go = got["origin"]
                gol = list(go) if isinstance(go, (list, tuple)) else (go.flat() if isinstance(go, Arr) else None)
                try:
                    ok_o = gol is not None and len(gol) == d - 1 and all(poly(x) == w for x, w in zip(gol, want_o))
                except NotPolynomial:
                    return None
                out.append((f"{label}: origin of the result is the retained part of the Cartesian minimum corner, re-anchored in the reduced system", ok_o,
                            f"origin = {nf(go)[:110]}; documented construction gives {[repr(w) for w in want_o]}"))
                out.append((f"{label}: the result is a {d - 1}-dimensional image in matrix indexing", got["space_dim"] == d - 1 and got["indexing"] == "ijk"[:d - 1],
                            f"space_dim = {nf(got['space_dim'])}, indexing = {nf(got['indexing'])}"))
                want_img = f"np.sum(IMG, axis={index})" if mode == "sum" else f"(np.sum(IMG, axis={index}) / N{index})"
                out.append((f"{label}: the data is reduced along matrix axis {index}" + (" and divided by its extent" if mode == "average" else ""), nf(got["img"]) == want_img,
                            f"array = {nf(got['img'])[:90]}, expected {want_img}"))
                # the input image's own origin / dimensions are untouched
                out.append((f"{label}: origin and dimensions of the input image are left as they are", all(x is y for x, y in zip(origin.data, o)) and all(x is y for x, y in zip(img.fields['dimensions'], D)),
                            f"input origin becomes {nf(origin)[:60]}, dimensions {nf(img.fields['dimensions'])[:60]}"))
    return out


def rule_axis_reduction(ctx):
    """The folded AxisReduction obligations alone (shared into properties that rest on reduction by axis name / index)."""
    R = "C11.a"
    ctx.rule(R, "AxisReduction folded on a symbolic image per dimension, axis and mode against the documented construction (see C11.a)")
    m = ctx.model
    T_i, _, _ = c20.extract_tables(ctx)
    f = m.func(DIM, "AxisReduction.__call__")
    sem = _axis_reduction_sem(m, T_i)
    ctx.instance(R)
    if sem is None:
        ctx.ob(R, f.qname, "AxisReduction folds on a symbolic image", False, "fold of AxisReduction not found to be possible", f.node)
    else:
        for title, ok_, msg_ in sem:
            ctx.ob(R, f.qname, title, ok_, msg_, f.node, evidence=True)
    ctx.floor(R, 1)


def rule_a(ctx):
    R = "C11.a"
    ctx.rule(R, "the retained physical extent is carried over: Resize.__call__, uniform_refinement and equalize_voxel_size return "
             "type(img)(array, **img.metadata()) with dimensions and origin untouched; AxisReduction removes the dimension at the matrix "
             "index and the origin component at the Cartesian axis, the two being derived from each other through the axis table in both "
             "the str and the int branch; extrusion prepends the height to dimensions and origin and the new axis is matrix axis 0")
    m = ctx.model
    ctx.consult(RES)
    ctx.consult(DIM)
    for qn in ("Resize.__call__", "uniform_refinement"):
        f = m.func(RES, qn)
        p = f.params[-1] if qn == "Resize.__call__" else f.params[0]
        ctx.instance(R)
        am = AM(f)
        am.let("meta", f"{p}.metadata()")
        got = am.has(f.node, f"return type({p})(arr, **meta)") is not None
        mname = am.actual("meta") or "<unnamed>"
        meta_writes = [norm(s) for s in ast.walk(f.node) if isinstance(s, (ast.Assign, ast.AugAssign, ast.Delete)) for t in (s.targets if not isinstance(s, ast.AugAssign) else [s.target])
                       if isinstance(t, ast.Subscript) and norm(t.value) == mname] + \
                      [norm(c) for c in ast.walk(f.node) if isinstance(c, ast.Call) and isinstance(c.func, ast.Attribute) and norm(c.func.value) == mname and c.func.attr in ("pop", "update", "clear", "setdefault", "popitem")]
        n_image_rets = sum(1 for r in ast.walk(f.node) if isinstance(r, ast.Return) and isinstance(r.value, ast.Call) and norm(r.value.func).startswith("type("))
        ctx.ob(R, f.qname, "result is type(img)(resampled array, **img.metadata()) with the metadata untouched",
               got and not meta_writes and n_image_rets == 1, f"{am.show()} {meta_writes}", f.node)
    f = m.func(RES, "equalize_voxel_size")
    ctx.instance(R)
    am = AM(f)
    im, vs = f.params[0], f.params[1]
    am.let("dims", f"{im}.dimensions")
    am.let("shp", f"tuple((int(d / {vs}) for d in dims))")
    am.let("interp", "kwargs.get('interpolation')")
    am.let("rsz", "Resize(shape=shp, interpolation=interp)")
    ok = am.has(f.node, f"return rsz({im})") is not None and sum(1 for r in ast.walk(f.node) if isinstance(r, ast.Return)) == 1
    ctx.ob(R, f.qname, "equalize_voxel_size resizes to dimensions / voxel_size voxels and keeps the dimensions", ok, str(am.show()), f.node)
    # AxisReduction metadata
    f = m.func(DIM, "AxisReduction.__call__")
    ctx.instance(R)
    p = f.params[1]
    am = AM(f)
    T_i, _, _ = c20.extract_tables(ctx)
    sem = _axis_reduction_sem(m, T_i)
    ctx.stat("axis_reduction_folded", sem is not None)
    if sem is not None:
        for title, ok_, msg_ in sem:
            ctx.ob(R, f.qname, title, ok_, msg_, f.node, evidence=True)
    SKIP_TEMPLATES = sem is not None
    if not SKIP_TEMPLATES:
      ctx.ob(R, f.qname, "the dimension at the reduced matrix index is removed", am.has(f.node, f"new_dimensions = {p}.dimensions.copy()") is not None and am.has(f.node, "new_dimensions.pop(self.index)") is not None, "", f.node)
    # named contradiction: a Cartesian-ordered vector (derived from the origin) is reduced at the matrix index, or a matrix-ordered list
    # (derived from dimensions) at the Cartesian axis -- the two positions differ for every axis but one in 2-d and for all in 3-d
    defs_ = {}
    for s_ in ast.walk(f.node):
        if isinstance(s_, ast.Assign) and len(s_.targets) == 1 and isinstance(s_.targets[0], ast.Name):
            defs_.setdefault(s_.targets[0].id, []).append(s_.value)

    def kind_of(name, seen=()):
        ks = set()
        for v in defs_.get(name, []):
            t = norm(v)
            if f"{p}.origin" in t:
                ks.add("cartesian")
            if f"{p}.dimensions" in t:
                ks.add("matrix")
            for x in ast.walk(v):
                if isinstance(x, ast.Name) and x.id in defs_ and x.id != name and x.id not in seen:
                    ks |= kind_of(x.id, seen + (name,))
        return ks
    for c_ in (ast.walk(f.node) if not SKIP_TEMPLATES else ()):
        if isinstance(c_, ast.Call) and isinstance(c_.func, ast.Attribute) and c_.func.attr == "pop" and isinstance(c_.func.value, ast.Name) and len(c_.args) == 1 \
                and norm(c_.args[0]) in ("self.axis", "self.index"):
            ks = kind_of(c_.func.value.id)
            if len(ks) == 1:
                want = "self.axis" if ks == {"cartesian"} else "self.index"
                ctx.ob(R, f.qname, f"`{norm(c_)}`: a {next(iter(ks))}-ordered vector is reduced at its own kind of position ({want})", norm(c_.args[0]) == want,
                       f"{norm(c_.func.value)} is {next(iter(ks))}-ordered, {norm(c_.args[0])} is the {'matrix index' if norm(c_.args[0]) == 'self.index' else 'Cartesian axis'}", c_, evidence=True)
    if not SKIP_TEMPLATES:
      ctx.ob(R, f.qname, "the origin component at the reduced Cartesian axis is removed", all(am.has(f.node, t) is not None for t in (f"min_corner = {p}.origin.copy()", "new_min_corner = min_corner.tolist()", "new_min_corner.pop(self.axis)", "new_origin = np.array(new_min_corner)")), "", f.node)
    am.has(f.node, f"metadata = {p}.metadata()")
    am.has(f.node, "new_dim = original_dim - 1")
    am.has(f.node, f"original_dim = {p}.space_dim")
    am.has(f.node, "new_indexing = 'ijk'[:new_dim]")
    A = lambda k: am.actual(k) or k
    meta = {s.targets[0].slice.value: norm(s.value) for s in ast.walk(f.node) if isinstance(s, ast.Assign) and isinstance(s.targets[0], ast.Subscript) and norm(s.targets[0].value) == A("metadata") and isinstance(s.targets[0].slice, ast.Constant)}
    if not SKIP_TEMPLATES:
      ctx.ob(R, f.qname, "metadata: space_dim-1, reduced indexing, rebuilt origin, reduced dimensions", meta == {"space_dim": A("new_dim"), "indexing": A("new_indexing"), "origin": A("new_origin"), "dimensions": A("new_dimensions")}, str(meta), f.node)
    # (index, axis) pair from the table, both branches
    init = m.func(DIM, "AxisReduction.__init__")
    fi = m.func(IDX, "interpret_indexing")

    def resolver(call):
        t = m.resolve_call(call, init)
        return t.node if t is fi else None
    for d in (2, 3):
        for k, a in enumerate("xyz"[:d]):
            ctx.instance(R)
            want = (T_i[(a, "ijk"[:d])][1][0], k)
            got = {}
            for label, arg in (("str", a), ("int", want[0])):
                o = Obj("self")
                try:
                    Folder(resolver).call(init.node, [o, arg, d])
                    got[label] = (o.fields.get("index"), o.fields.get("axis"))
                except (Raised, Refuse) as e:
                    got[label] = ("error", str(e))
            ctx.ob(R, init.qname, f"dim {d}, axis {a!r}: (matrix index, Cartesian axis) = {want} from either spelling", got.get("str") == want and got.get("int") == want, str(got), init.node)
    # extrusion
    f = m.func(DIM, "extrude_along_axis")
    ctx.instance(R)
    am = AM(f)
    h = f.params[1]
    am.has(f.node, f"meta = {f.params[0]}.metadata()")
    mn = am.actual("meta") or "meta"
    meta = {s.targets[0].slice.value: norm(s.value) for s in ast.walk(f.node) if isinstance(s, ast.Assign) and isinstance(s.targets[0], ast.Subscript) and norm(s.targets[0].value) == mn and isinstance(s.targets[0].slice, ast.Constant)}
    ctx.ob(R, f.qname, "extrusion prepends the height to dimensions and origin and sets 3d matrix indexing",
           meta == {"space_dim": "3", "dimensions": f"[{h}, *{mn}['dimensions']]", "indexing": "'ijk'", "origin": f"[{h}, *{mn}['origin']]"}, str(meta), f.node)
    am.let("arr", f"{f.params[0]}.img")
    am.let("shape", "arr.shape")
    ok = all(am.has(f.node, t) is not None for t in (f"arr_3d = np.zeros(({f.params[2]}, *shape), dtype=arr.dtype)", f"return type({f.params[0]})(img=arr_3d, **meta)")) \
        and any(am.has(f.node, t) is not None for t in (f"for i in range({f.params[2]}):\n    arr_3d[i, ...] = arr", "arr_3d[...] = arr", "arr_3d[:] = arr", "arr_3d[:, ...] = arr"))
    # named contradiction: np.tile(array, reps) with a literal reps tuple of length L prepends an axis only to arrays of exactly L - 1 axes; an image
    # with payload axes (vector data, time series) has more, and its first axis is repeated instead of a new one being added
    tiles = [c_ for c_ in ast.walk(f.node) if isinstance(c_, ast.Call) and norm(c_.func) == "np.tile" and len(c_.args) == 2 and isinstance(c_.args[1], ast.Tuple)
             and f"{f.params[0]}.img" in norm(expand(f.node, c_.args[0]))]
    ctx.ob(R, f.qname, "the new axis is matrix axis 0 of the array", ok,
           (f"`{norm(tiles[0])[:60]}`: for an array with more than {len(tiles[0].args[1].elts) - 1} axes (vector / series payload) numpy repeats the existing first axis {norm(tiles[0].args[1].elts[0])} times "
            "instead of adding one: rows are multiplied, no layer axis exists; " if tiles and not ok else "") + str(am.show()), f.node, evidence=bool(tiles) and not ok)
    ctx.floor(R, 8)


def rule_b(ctx):
    R = "C11.b"
    ctx.rule(R, "the reduction is what it says: sum = np.sum(img, axis=self.index); average divides that by img.shape[self.index] (same axis); "
             "mode vocabulary {average, sum, slice}")
    m = ctx.model
    f = m.func(DIM, "AxisReduction.__call__")
    p = f.params[1]
    ctx.instance(R)
    am = AM(f)
    ctx.ob(R, f.qname, "sum along the reduced matrix axis", am.has(f.node, f"img_arr = np.sum({p}.img, axis=self.index)") is not None, "", f.node)
    an = am.actual("img_arr") or "img_arr"
    avg = [n for n in ast.walk(f.node) if isinstance(n, ast.If) and norm(n.test) == "self.mode == 'average'"]
    div_ok = len(avg) == 1 and (am.eq_block(avg[0].body, [f"img_arr /= {p}.img.shape[self.index]"]) or am.eq_block(avg[0].body, [f"img_arr = img_arr / {p}.img.shape[self.index]"]))
    ctx.ob(R, f.qname, "average = that sum divided by the extent of the same axis", div_ok, str([norm(x) for a in avg for x in a.body][:4]), f.node)
    # the division happens on the average branch only
    n_div = sum(1 for x in ast.walk(f.node) if (isinstance(x, ast.AugAssign) and isinstance(x.op, (ast.Div, ast.FloorDiv, ast.Mult)) and norm(x.target) == an)
                or (isinstance(x, ast.Assign) and norm(x.targets[0]) == an and isinstance(x.value, ast.BinOp) and isinstance(x.value.op, (ast.Div, ast.FloorDiv, ast.Mult))))
    ctx.ob(R, f.qname, "only the 'average' mode rescales the sum", div_ok and n_div == 1, f"{n_div} rescaling statement(s)", f.node)
    modes = sorted({x.value for c in ast.walk(f.node) if isinstance(c, ast.Compare) and norm(c.left) == "self.mode" for cc in c.comparators for x in ast.walk(cc) if isinstance(x, ast.Constant) and isinstance(x.value, str)})
    ctx.ob(R, f.qname, "mode vocabulary {average, sum, slice}", modes == ["average", "slice", "sum"], str(modes), f.node)
    ctx.floor(R, 1)


def rule_c(ctx):
    R = "C11.c"
    ctx.rule(R, "conservative rescaling uses the voxel-count ratio the right way up: the factor applied under is_conservative is "
             "prod(input.shape[:2]) / prod(output.shape[:2]) of the arrays actually resized and produced, applied after the channel merge")
    m = ctx.model
    f = m.func(RES, "Resize.__call__")
    ctx.instance(R)
    blk = [n for n in ast.walk(f.node) if isinstance(n, ast.If) and norm(n.test) == "self.is_conservative"]
    ctx.need(len(blk) == 1, "Resize.__call__: is_conservative block not found")
    am = AM(f)
    pimg = f.params[1]
    # the rescaling statement is located by what it does: the one in-place multiplication inside the is_conservative block
    muls = [s_ for s_ in ast.walk(blk[0]) if isinstance(s_, ast.AugAssign) and isinstance(s_.op, ast.Mult) and isinstance(s_.target, ast.Name)]
    if len(muls) != 1:
        ctx.ob(R, f.qname, "factor = prod(input voxels) / prod(output voxels), applied to the resized array", False, "rescaling statement `<array> *= <factor>` not found", blk[0])
        ctx.floor(R, 1)
        return
    st = muls[0]
    OUT = st.target.id

    def atom(n):
        if isinstance(n, ast.Call) and norm(n.func) == "np.prod":
            return "prod(" + norm(n.args[0]) + ")"
        return None
    fx = expand(f.node, st.value)
    try:
        pf = ToPoly(atomize=atom)(fx)
    except NotPolynomial:
        pf = None
    num = [a for a in (pf.atoms() if pf is not None else []) if a.startswith("prod(") and a != f"prod({OUT}.shape[:2])"]
    ok = pf is not None and len(num) == 1 and num[0].endswith(".shape[:2])") and pf == Poly.atom(num[0]) / Poly.atom(f"prod({OUT}.shape[:2])")
    ctx.ob(R, f.qname, "factor = prod(input voxels) / prod(output voxels), applied to the resized array", ok,
           f"`{norm(st)[:90]}` scales by {pf!r}: not the ratio of the voxel counts of this call's input and output arrays", st, evidence=True)
    if ok:
        IN = num[0][len("prod("):-len(".shape[:2])")]
        defs = [norm(expand(f.node, s_.value)) for s_ in ast.walk(f.node) if isinstance(s_, ast.Assign) and len(s_.targets) == 1 and norm(s_.targets[0]) == IN]
        src_ok = bool(defs) and all(pimg in d for d in defs) and any(".copy()" in d for d in defs)
        ctx.ob(R, f.qname, "the input array of the ratio is the array actually resized (a copy of the input data)", src_ok, str(defs)[:200], f.node)
    later = [norm(s_) for s_ in ast.walk(f.node) if isinstance(s_, (ast.Assign, ast.AugAssign)) and s_ is not st and getattr(s_, "lineno", 0) > st.lineno
             and any(isinstance(t, ast.Name) and t.id == OUT for t in (s_.targets if isinstance(s_, ast.Assign) else [s_.target]))]
    ctx.ob(R, f.qname, "the factor is applied to the finished array (no later re-assignment: all channels alike)", not later, str(later), blk[0], evidence=bool(later))
    rets = [norm(r.value) for r in ast.walk(f.node) if isinstance(r, ast.Return) and r.value is not None]
    ctx.ob(R, f.qname, "the rescaled array is what is returned (as array or wrapped)", bool(rets) and all(OUT in {x.id for x in ast.walk(ast.parse(t, mode='eval')) if isinstance(x, ast.Name)} for t in rets), str(rets), f.node)
    ctx.floor(R, 1)


def expand_in(loop, expr, stop=()):
    """expr with the loop body's once-bound locals replaced by their definitions."""
    import copy

    defs, cnt = {}, {}
    for s_ in loop.body:
        if isinstance(s_, ast.Assign) and len(s_.targets) == 1 and isinstance(s_.targets[0], ast.Name):
            cnt[s_.targets[0].id] = cnt.get(s_.targets[0].id, 0) + 1
            defs[s_.targets[0].id] = s_.value

    class Sub(ast.NodeTransformer):
        def __init__(self, seen):
            self.seen = seen

        def visit_Name(self, n):
            if isinstance(n.ctx, ast.Load) and cnt.get(n.id) == 1 and n.id not in self.seen and n.id not in stop:
                return Sub(self.seen | {n.id}).visit(clone(defs[n.id]))
            return n
    return Sub(frozenset()).visit(clone(expr))


def rule_d(ctx):
    R = "C11.d"
    ctx.rule(R, "refinement and coarsening are the factor-2 pair: refinement repeats twice along each spatial axis; coarsening combines the "
             "0::2 and 1::2 slices of the same axis; every value computed for the combination flows into the result (def-use: a weight "
             "that is built and dropped changes what an odd last element counts); the axis length is read from the running array")
    m = ctx.model
    f = m.func(RES, "uniform_refinement")
    ctx.instance(R)
    img = f.params[0]
    # named contradiction: np.kron aligns the LAST axes of its operands, so a block with one entry per spatial axis applied to the whole data
    # array lands on the payload axes of series / vector images (an (h, w, c) image becomes (h, 2w, 2c))
    for c_ in ast.walk(f.node):
        if isinstance(c_, ast.Call) and norm(c_.func) == "np.kron" and len(c_.args) == 2:
            blk = norm(expand_in(f.node, c_.args[1])) if False else norm(c_.args[1])
            if "space_dim" in blk or "ndim" not in blk:
                ctx.ob(R, f.qname, "refinement repeats each voxel along the spatial axes only", False,
                       f"`{norm(c_)[:90]}`: np.kron pads the block's shape on the left, i.e. applies it to the trailing axes -- for data with time or component axes the spatial "
                       "axes are not (all) refined and the payload axes are", c_, evidence=True)
                ctx.floor(R, 1)
                return
    am = AM(f)
    ctx.ob(R, f.qname, "refinement repeats twice along each of range(space_dim)", am.has(f.node, f"array = {img}.img.copy()") is not None
           and am.has(f.node, f"for i in range({img}.space_dim):\n    array = np.repeat(array, 2, axis=i)") is not None, "", f.node)
    ARR = am.actual("array") or "array"
    loops = [l for l in ast.walk(f.node) if isinstance(l, ast.For) and norm(l.iter) == f"range({img}.space_dim)"]
    coarse = [l for l in loops if any(isinstance(x, ast.FunctionDef) for x in l.body)]
    ctx.need(len(coarse) == 1, "uniform_refinement: coarsening loop not found")
    lp = coarse[0]
    helper = [x for x in lp.body if isinstance(x, ast.FunctionDef)][0].name
    am2 = AM(f)
    am2.has(f.node, f"array = {img}.img.copy()")
    sl_ok = all(am2.has(lp, t) is not None for t in (f"slice_0 = {helper}(slice(0, None, 2))", f"slice_1 = {helper}(slice(1, None, 2))", "sub_array_0 = array[slice_0]", "sub_array_1 = array[slice_1]"))
    ctx.ob(R, f.qname, "coarsening uses the 0::2 and 1::2 slices of the same axis", sl_ok, str(am2.show()), f.node)
    assigned = {}
    for s in lp.body:
        if isinstance(s, ast.Assign) and isinstance(s.targets[0], ast.Name):
            assigned[s.targets[0].id] = s
    # backward slice from `array`
    need = {ARR}
    changed = True
    while changed:
        changed = False
        for s in lp.body:
            tg = None
            if isinstance(s, ast.Assign):
                t = s.targets[0]
                tg = t.id if isinstance(t, ast.Name) else (C.targets_of(t).__next__()[0] if isinstance(t, (ast.Subscript, ast.Attribute)) else None)
            elif isinstance(s, ast.AugAssign):
                b = s.target
                while isinstance(b, (ast.Subscript, ast.Attribute)):
                    b = b.value
                tg = b.id if isinstance(b, ast.Name) else None
            if tg in need:
                used = {x.id for x in ast.walk(s) if isinstance(x, ast.Name) and isinstance(x.ctx, ast.Load)}
                if not used <= need:
                    need |= used
                    changed = True
    for nme, s in sorted(assigned.items()):
        ctx.ob(R, f.qname, f"value `{nme}` computed in the coarsening step flows into the result", nme in need,
               f"`{norm(s)[:70]}` is computed and dropped: the combination does not use it", s)
    # the length tested for oddness must be read from the running array, on the loop axis
    odd = [n for n in ast.walk(lp) if isinstance(n, ast.If) and isinstance(n.test, ast.Compare) and isinstance(n.test.left, ast.BinOp) and isinstance(n.test.left.op, ast.Mod)]
    ctx.need(len(odd) == 1, "uniform_refinement: odd-length test not found")
    # every length the coarsening step uses (parity test, half length) must be that of the running array on the loop axis
    want_len = f"{ARR}.shape[{norm(lp.target)}]"
    par = norm(expand_in(lp, odd[0].test.left.left, (ARR,)))
    ctx.ob(R, f.qname, "the parity test reads the length of the running array", par == want_len,
           f"`{norm(odd[0].test)}` tests {par}: after the first coarsened level the running array is shorter than the original image, an odd intermediate length is not seen", odd[0])
    al = assigned.get(odd[0].test.left.left.id) if isinstance(odd[0].test.left.left, ast.Name) else None
    halves = [s_ for s_ in lp.body if isinstance(s_, ast.Assign) and any(isinstance(c, ast.Call) and norm(c.func) == "np.floor" for c in ast.walk(s_.value))]
    hl = [norm(expand_in(lp, c.args[0], (ARR,))) for s_ in halves for c in ast.walk(s_.value) if isinstance(c, ast.Call) and norm(c.func) == "np.floor"]
    ctx.ob(R, f.qname, "the axis length is read from the running array", bool(hl) and all(h == want_len for h in hl),
           f"half length computed from {hl}: after the first coarsened axis or level the running array is shorter than the original image", al or lp)
    ctx.floor(R, 1)


def rule_e(ctx):
    R = "C11.e"
    ctx.rule(R, "option chains assign: every arm of the interpolation chains of Resize.__init__ and extract_quadrilateral_ROI binds the flag "
             "(an expression statement such as `flag == value` binds nothing), and the chains end in raise")
    m = ctx.model
    ctx.consult(SUB)
    def is_arm(n):
        return isinstance(n, ast.If) and isinstance(n.test, ast.Compare) and isinstance(n.test.left, ast.Name) and len(n.test.comparators) == 1 and \
            ((isinstance(n.test.comparators[0], ast.Constant) and (n.test.comparators[0].value is None or str(n.test.comparators[0].value).startswith("inter_"))))

    for mod, qn, flag_of in ((RES, "Resize.__init__", lambda f: "self.interpolation"),
                             (SUB, "extract_quadrilateral_ROI", lambda f: next((norm(k.value) for c in ast.walk(f.node) if isinstance(c, ast.Call) and norm(c.func) == "cv2.warpPerspective"
                                                                                for k in c.keywords if k.arg == "flags"), None))):
        f = m.func(mod, qn)
        flag = flag_of(f)
        ctx.need(flag is not None, f"{f.qname}: interpolation flag consumer not found")
        # the chain is located by shape: an if/elif chain comparing one name with None / 'inter_*' literals (not an elif of another arm)
        chain = [n for n in ast.walk(f.node) if is_arm(n) and not (isinstance(getattr(n, "_parent", None), ast.If) and n in n._parent.orelse and is_arm(n._parent))]
        chain = [c for c in chain if len(c.orelse) == 1 and is_arm(c.orelse[0]) and norm(c.orelse[0].test.left) == norm(c.test.left)]
        ctx.need(len(chain) == 1, f"{f.qname}: interpolation chain not found")
        cur = chain[0]
        n_arm = 0
        while True:
            lit = norm(cur.test.comparators[0])
            n_arm += 1
            ctx.instance(R)
            binds = [s for s in cur.body if isinstance(s, ast.Assign) and norm(s.targets[0]) == flag]
            exprs = [s for s in cur.body if isinstance(s, ast.Expr) and isinstance(s.value, ast.Compare)]
            ctx.ob(R, f.qname, f"arm {lit}: binds {flag}", len(binds) == 1 and not exprs,
                   f"statements: {[norm(s) for s in cur.body]} -- a comparison used as a statement leaves {flag} at its default", cur, evidence=bool(exprs))
            if len(cur.orelse) == 1 and isinstance(cur.orelse[0], ast.If):
                cur = cur.orelse[0]
                continue
            ctx.ob(R, f.qname, "chain ends in raise", any(isinstance(s, ast.Raise) for s in cur.orelse), "", cur)
            break
    ctx.floor(R, 6)


def rule_f(ctx):
    R = "C11.f"
    ctx.rule(R, "superposition canvas is the bounding box of the inputs: per Cartesian axis, the canvas origin (corner of voxel 0) takes the "
             "extremum on the side the matrix axis starts from (max when the axis is reversed per the axis table, min otherwise) and the "
             "opposite corner the other extremum, over the stacked origins resp. opposite corners of all images; dimensions = |opposite - "
             "origin| permuted to matrix order; every image is warped to that canvas and added (+=) to one zero-initialised array")
    m = ctx.model
    ARI = "darsia.image.arithmetics"
    ctx.consult(ARI)
    f = m.func(ARI, "superpose")
    imgs = f.params[0]
    am = AM(f)
    ctx.instance(R)
    src_ok = am.has(f.node, f"collection_origin = np.vstack(tuple((im.origin for im in {imgs})))") is not None \
        and am.has(f.node, f"collection_opposite = np.vstack(tuple((im.opposite_corner for im in {imgs})))") is not None
    ctx.ob(R, f.qname, "the corner collections stack origin resp. opposite_corner of every input image", src_ok, str(am.show()), f.node)
    CO, CP = am.actual("collection_origin"), am.actual("collection_opposite")
    src_ok = src_ok and am.has(f.node, f"indexing = {imgs}[0].indexing") is not None and am.has(f.node, f"space_dim = {imgs}[0].space_dim") is not None
    loops = [l for l in ast.walk(f.node) if isinstance(l, ast.For) and any(isinstance(c, ast.Call) and norm(c.func) == "darsia.interpret_indexing" for s in l.body for c in ast.walk(s))]
    ok = False
    desc = ""
    # the loop is folded symbolically for the only supported layout ('ij'): whichever way it is written, it must leave
    # origin = [ext(CO[:, 0]), ext(CO[:, 1])], opposite = [ext'(CP[:, 0]), ext'(CP[:, 1])] with ext = max on reversed axes, min otherwise
    if src_ok and len(loops) == 1:
        from ..fold import Folder, Opaque, Raised, Refuse
        from . import c20

        T_i, _, _ = c20.extract_tables(ctx)
        lp = loops[0]
        lists = sorted({c.func.value.id for c in ast.walk(lp) if isinstance(c, ast.Call) and isinstance(c.func, ast.Attribute) and c.func.attr == "append" and isinstance(c.func.value, ast.Name)})
        fo = Folder(symbolic=True)
        fo.func_stack.append(f.node)
        env = {am.actual("space_dim") or "space_dim": 2, am.actual("indexing") or "indexing": "ij", CO: Opaque("arr", "CO"), CP: Opaque("arr", "CP")}
        for nm in lists:
            env[nm] = []
        try:
            fo.stmt(lp, env)
            got = {nm: [repr(x).replace("()", "") for x in env[nm]] for nm in lists}
        except (Refuse, Raised) as e:
            got = None
            desc = f"canvas loop not found to be foldable: {e}"
        if got is not None and len(lists) == 2:
            rev = [T_i[(a, "ij")][1][1] for a in "xy"]
            want_o = [f"np.{'max' if r else 'min'}(CO[:, {k}])" for k, r in enumerate(rev)]
            want_p = [f"np.{'min' if r else 'max'}(CP[:, {k}])" for k, r in enumerate(rev)]
            o_list = next((nm for nm in lists if got[nm] == want_o), None)
            p_list = next((nm for nm in lists if got[nm] == want_p), None)
            ok = o_list is not None and p_list is not None and o_list != p_list
            desc = f"the loop leaves {got}; a bounding box needs {want_o} and {want_p}"
            if ok:
                am.bind.setdefault("origin", o_list)
                am.bind.setdefault("opposite", p_list)
    ctx.ob(R, f.qname, "per axis: reversed -> (origin = max, opposite = min), otherwise (origin = min, opposite = max)", ok,
           desc + (" -- the canvas would not contain every input image: parts are clipped and the integral is lost" if desc.startswith("the loop leaves") else ""), loops[0] if loops else f.node, evidence=desc.startswith("the loop leaves"))
    if not ok:
        ctx.floor(R, 1)
        return
    dims_ok = ok and all(am.has(f.node, t) is not None for t in (
        "cart_dims = [abs(opposite[k] - origin[k]) for k in range(space_dim)]",
        "to_matrix = [darsia.interpret_indexing('ijk'[k], 'xyz'[:space_dim])[0] for k in range(space_dim)]",
        "dims = [cart_dims[k] for k in to_matrix]"))
    ctx.ob(R, f.qname, "dimensions = |opposite - origin| per Cartesian axis, permuted to matrix order", dims_ok, str(am.show()), f.node)
    meta = [d for d in ast.walk(f.node) if isinstance(d, ast.Dict) and any(isinstance(k, ast.Constant) and k.value == "dimensions" for k in d.keys)]
    mk = {k.value: norm(v) for d in meta[:1] for k, v in zip(d.keys, d.values) if isinstance(k, ast.Constant)}
    ctx.ob(R, f.qname, "the canvas metadata carries those dimensions and that origin", dims_ok and len(meta) == 1 and mk.get("dimensions") == am.actual("dims") and mk.get("origin") == am.actual("origin"), str(mk), f.node)
    # in a dictionary display later entries win: a `**<image>.metadata()` written after the explicit 'dimensions' / 'origin' puts the first image's
    # geometry back over the bounding box just computed
    for d_ in meta[:1]:
        pos_ = {(_k.value if isinstance(_k, ast.Constant) else None): i_ for i_, _k in enumerate(d_.keys) if isinstance(_k, ast.Constant)}
        later = [norm(v_) for i_, (k_, v_) in enumerate(zip(d_.keys, d_.values)) if k_ is None and "metadata" in norm(v_) and i_ > min(pos_.get("dimensions", 10 ** 6), pos_.get("origin", 10 ** 6))]
        ctx.ob(R, f.qname, "nothing unpacked into the canvas metadata after 'dimensions' / 'origin' overrides them", not later,
               f"`**{later[0][:50]}` follows the explicit entries: it carries 'dimensions' and 'origin' of that image, which replace the canvas geometry -- the superposition of images "
               "that do not all cover the first one is placed and scaled wrongly" if later else "", d_, evidence=True)
    adds = [s_ for s_ in ast.walk(f.node) if isinstance(s_, (ast.AugAssign, ast.Assign)) and ".img" in norm(s_.target if isinstance(s_, ast.AugAssign) else s_.targets[0])]
    ctx.ob(R, f.qname, "every warped input is added (+=) to the canvas array", len(adds) == 2 and all(isinstance(a, ast.AugAssign) and isinstance(a.op, ast.Add) for a in adds), str([norm(a) for a in adds]), f.node,
           evidence=any(isinstance(a, ast.Assign) and isinstance(a.value, ast.Name) and not isinstance(a.targets[0], ast.Name) for a in adds))  # the canvas data are replaced by one warped input
    am.let("canvas", "np.zeros(shape, dtype=dtype)")
    zero = am.has(f.node, "image = ImageType(img=canvas, **meta)")
    ctx.ob(R, f.qname, "the canvas array starts from zeros", zero is not None, "", f.node)
    # each input is pasted onto the canvas through extract_quadrilateral_ROI: outside the input the warp must contribute 0 (OpenCV's default
    # constant border of value 0), otherwise the sum over the canvas is not the sum of the inputs
    eq = ctx.model.func("darsia.image.subregions", "extract_quadrilateral_ROI")
    for c_ in ast.walk(eq.node):
        if isinstance(c_, ast.Call) and norm(c_.func) in ("cv2.warpPerspective", "cv2.warpAffine", "cv2.remap"):
            kw_ = {k_.arg: k_.value for k_ in c_.keywords}
            bm, bv = kw_.get("borderMode"), kw_.get("borderValue")
            bm_ok = bm is None or norm(bm) == "cv2.BORDER_CONSTANT"
            bv_ok = bv is None or (isinstance(bv, ast.Constant) and bv.value in (0, 0.0)) or norm(bv) in ("(0, 0, 0)", "(0, 0, 0, 0)")
            ctx.ob(R, eq.qname, f"`{norm(c_.func)}` pads with zeros outside the source image", bm_ok and bv_ok,
                   f"borderMode={norm(bm) if bm is not None else 'default'}, borderValue={norm(bv) if bv is not None else 'default'}: superpose adds every warped input to the canvas, so "
                   "whatever the warp invents outside an input (replicated or reflected edge values) is added to the superposition -- its integral exceeds the sum of the inputs' integrals",
                   c_, evidence=(bm is not None and norm(bm).startswith("cv2.BORDER_") and not bm_ok) or (isinstance(bv, ast.Constant) and not bv_ok))
    ctx.floor(R, 1)


def rule_g(ctx):
    R = "C11.g"
    ctx.rule(R, "the function interface is the class: reduce_axis(image, axis, mode, ...) builds AxisReduction with its own axis, the image's "
             "space dimension and its own mode -- each bound to the constructor parameter of that role -- and applies it to the image")
    from ..flow import bind_call, expand

    m = ctx.model
    f = m.func(DIM, "reduce_axis")
    init = m.func(DIM, "AxisReduction.__init__")
    ctx.instance(R)
    rets = [r.value for r in ast.walk(f.node) if isinstance(r, ast.Return) and r.value is not None]
    ctx.need(len(rets) == 1, "reduce_axis: single return not found")
    e = expand(f.node, rets[0])
    ok_apply = isinstance(e, ast.Call) and len(e.args) == 1 and norm(e.args[0]) == f.params[0] and isinstance(e.func, ast.Call) and norm(e.func.func) == "AxisReduction"
    ctx.ob(R, f.qname, "returns AxisReduction(...)(image)", ok_apply, norm(e)[:100], f.node)
    if ok_apply:
        b = bind_call(e.func, init.node, skip_first=True)
        ctx.need(b is not None, "reduce_axis: arguments of AxisReduction(...) cannot be bound to its parameters")
        ip = init.params[1:]
        want = {ip[0]: "axis", ip[1]: f"{f.params[0]}.space_dim", ip[2]: "mode"}
        for prm, src in want.items():
            got = norm(b[prm]) if prm in b else None
            ctx.ob(R, f.qname, f"constructor parameter `{prm}` receives {src}", got == src,
                   f"receives {got}" if got is not None else f"is not passed: the constructor's default is used whatever `{src}` the caller asked for", e.func, evidence=True)
    ctx.floor(R, 1)


def rule_h(ctx):
    R = "C11.h"
    ctx.rule(R, "prefixed options: every option Resize.__init__ reads from its keyword arguments is looked up under key + '<name>' (the "
             "presets pass key='restoration ' etc.); a look-up without the prefix silently ignores the prefixed option -- in particular "
             "'resize conservative', on which conservation of the array sum rests")
    m = ctx.model
    f = m.func(RES, "Resize.__init__")
    kw = f.node.args.kwarg.arg if f.node.args.kwarg else None
    ctx.need(kw is not None and "key" in f.params, "Resize.__init__: **kwargs / key parameter not found")
    reads = []
    for c in ast.walk(f.node):
        if isinstance(c, ast.Call) and isinstance(c.func, ast.Attribute) and c.func.attr in ("get", "pop") and norm(c.func.value) == kw and c.args:
            reads.append((c, c.args[0]))
        elif isinstance(c, ast.Subscript) and norm(c.value) == kw and isinstance(c.ctx, ast.Load):
            reads.append((c, c.slice))
    ctx.instance(R, len(reads))
    for c, k in reads:
        ok = isinstance(k, ast.BinOp) and isinstance(k.op, ast.Add) and norm(k.left) == "key" and isinstance(k.right, ast.Constant) and isinstance(k.right.value, str)
        ctx.ob(R, f.qname, f"option `{norm(k)[:40]}` is read under the key prefix", ok, f"`{norm(c)[:70]}` ignores the prefix `key`" if isinstance(k, ast.Constant) else "", c,
               evidence=isinstance(k, ast.Constant))
    ctx.floor(R, 6)


def rule_i(ctx):
    R = "C11.i"
    ctx.rule(R, "the interpolation that reaches cv2.resize is the one selected at construction: in Resize.__call__ the `interpolation` keyword of "
             "every cv2.resize call is self.interpolation on every path (a flag replaced at call time -- e.g. area interpolation swapped for "
             "bilinear when enlarging -- makes integer up-sampling, and every consumer that asks for area interpolation to conserve sums, "
             "non-conservative)")
    m = ctx.model
    f = m.func(RES, "Resize.__call__")
    calls = [c for c in ast.walk(f.node) if isinstance(c, ast.Call) and norm(c.func) == "cv2.resize"]
    ctx.need(calls, "Resize.__call__: no cv2.resize call")
    for c in calls:
        kw = [k for k in c.keywords if k.arg == "interpolation"]
        if not kw:
            # options collected in a dict and spread into the call
            vals = []
            for k in c.keywords:
                if k.arg is None and isinstance(k.value, ast.Name):
                    d_ = k.value.id
                    for a in ast.walk(f.node):
                        if isinstance(a, ast.Assign):
                            for t in a.targets:
                                if isinstance(t, ast.Subscript) and isinstance(t.value, ast.Name) and t.value.id == d_ and isinstance(t.slice, ast.Constant) and t.slice.value == "interpolation":
                                    vals.append(a.value)
                                if isinstance(t, ast.Name) and t.id == d_ and isinstance(a.value, ast.Dict):
                                    vals += [dv for dk, dv in zip(a.value.keys, a.value.values) if isinstance(dk, ast.Constant) and dk.value == "interpolation"]
            if not vals:
                continue
            ctx.instance(R)
            v = None
        else:
            ctx.instance(R)
            v = kw[0].value
            vals = [v]
        if isinstance(v, ast.Name):
            vals = [a.value for a in ast.walk(f.node) if isinstance(a, ast.Assign) and any(isinstance(t, ast.Name) and t.id == v.id for t in a.targets)]
            if v.id in f.params or not vals:
                vals = []
        texts = sorted({norm(x) for x in vals})
        other = [t for t in texts if t != "self.interpolation"]
        if texts and not other:
            ctx.ob(R, f.qname, "cv2.resize is called with the interpolation selected at construction", True, "", c)
        elif any(t.startswith("cv2.INTER_") for t in other):
            ctx.ob(R, f.qname, "cv2.resize is called with the interpolation selected at construction", False,
                   f"the flag handed to cv2.resize is one of {texts}: the selected interpolation is replaced at call time", c, evidence=True)
        else:
            ctx.ob(R, f.qname, "cv2.resize is called with the interpolation selected at construction", False, f"interpolation keyword not found to be self.interpolation: {texts}", c)
    ctx.floor(R, 1)


def _corner_rules(ctx):
    from . import c01, c20

    T_i, _, _ = c20.extract_tables(ctx)
    ctx.rule("C01.b", "Image.opposite_corner folded per dimension against the axis table (see C01.b)")
    c01._opposite_corner(ctx, "C01.b", ctx.model, T_i)
    c01.rule_f(ctx)


def run(ctx):
    from .common import shared as _shared

    _shared(ctx, "C11.f", _corner_rules, why="the superposition canvas is spanned by origin and opposite_corner of every input image, and each image is placed by them")
    ctx.guard(rule_i, ctx)
    ctx.guard(rule_h, ctx)
    ctx.guard(rule_g, ctx)
    ctx.guard(rule_a, ctx)
    ctx.guard(rule_b, ctx)
    ctx.guard(rule_c, ctx)
    ctx.guard(rule_d, ctx)
    ctx.guard(rule_e, ctx)
    ctx.guard(rule_f, ctx)
