"""C08 -- formulations and back-ends solve the same system (structural clauses)."""
from __future__ import annotations

import ast

from ..algebra import NC, ToNC
from ..report import AnalysisError
from ..srcmodel import norm
from ..amatch import AM
from ..flow import expand
from ..state import StateAnalysis, attr_reads, attr_writes, self_attr
from ..vocab import VocabDA, asserted_membership, compared_literals, doc_bullets, option_attr, test_literals

LEVEL = "other"
WAS = "darsia.measure.wasserstein"
BASE = "VariationalWassersteinDistance"
BACKENDS_IN_SCOPE = ["direct", "amg", "cg"]  # the property names these three; "ksp" needs PETSc and is outside its quantifier


class CallDA(VocabDA):
    """VocabDA that also records, as pseudo-names '@<attr>', attributes definitely bound by self-method calls."""

    def __init__(self, sa):
        super().__init__()
        self.sa = sa
        self.calls = []

    def stmt(self, st, assigned, vocab):
        if isinstance(st, (ast.Expr, ast.Assign)):
            for c in ast.walk(st):
                if isinstance(c, ast.Call) and isinstance(c.func, ast.Attribute) and isinstance(c.func.value, ast.Name) and c.func.value.id == "self":
                    tgt = self.sa.model.method(self.sa.cls, c.func.attr)
                    if tgt is not None:
                        self.calls.append(c.func.attr)
                        assigned = set(assigned) | {"@" + a for a in self.sa.summary(tgt)}
            if isinstance(st, ast.Assign):
                for t in st.targets:
                    for e in (t.elts if isinstance(t, ast.Tuple) else [t]):
                        a = self_attr(e)
                        if a:
                            assigned = set(assigned) | {"@" + a}
        if isinstance(st, ast.Assert):
            r = super().stmt(st, assigned, vocab)
            if r is not None and any(not v for v in r[1].values()):
                return None  # the assertion cannot hold for this configuration: explicit error, not a silent fall-through
            return r
        return super().stmt(st, assigned, vocab)


def rule_a(ctx, sa):
    R = "C08.a"
    ctx.rule(R, "formulation / back-end vocabulary: documented (constructor docstring) is contained in accepted (membership assertion); every "
             "literal the option is compared with anywhere in the hierarchy is accepted (no unreachable spelling); for every "
             "accepted (formulation, back-end) pair that is not rejected by an explicit raise/assert, linear_solve takes a "
             "branch and assigns every name it uses afterwards (vocabulary-aware definite assignment)")
    m = ctx.model
    base = m.cls(WAS, BASE)
    funcs = [f for k in m.mro(base) for f in k.methods.values()]
    fa, fdef = option_attr(funcs, "formulation")
    ta, tdef = option_attr(funcs, "linear_solver")
    ctx.need(fa and ta, "options 'formulation' / 'linear_solver' are no longer read into attributes")
    init = m.method(base, "__init__")
    doc = ast.get_docstring(init.node) or ""
    documented_f = doc_bullets(doc, "formulation")
    documented_t = doc_bullets(doc, "linear_solver")
    ctx.need(len(documented_f) >= 3 and len(documented_t) >= 3, "constructor docstring no longer lists the formulations / linear solvers")
    acc_f, af, an = asserted_membership(funcs, fa)
    acc_t, _, atn = asserted_membership(funcs, ta)
    ctx.need(acc_f and acc_t, "membership assertions on formulation / linear_solver_type not found")
    setup = m.method(base, "_setup_linear_solver")
    ls = m.method(base, "linear_solve")
    ctx.instance(R, len(acc_f))
    ctx.floor(R, 3)
    for lit in documented_f:
        ctx.ob(R, init.qname, f"documented formulation {lit!r} is accepted", lit in acc_f, f"accepted {acc_f}", an)
    for lit in documented_t:
        ctx.ob(R, init.qname, f"documented linear solver {lit!r} is accepted", lit in acc_t, f"accepted {acc_t}", atn)
    ctx.ob(R, init.qname, "default formulation is accepted", fdef in acc_f, f"default {fdef!r}", init.node)
    ctx.ob(R, init.qname, "default linear solver is accepted", tdef in acc_t, f"default {tdef!r}", init.node)
    n_sites = 0
    for lit, f, node in compared_literals(funcs, fa):
        if node is an.test or any(node is x for x in ast.walk(an.test)):
            continue
        n_sites += 1
        ctx.ob(R, f.qname, f"comparison `{norm(node)}` uses an accepted spelling", lit in acc_f,
               f"{lit!r} is not in the accepted set {acc_f}: this branch can never be taken", node)
    ctx.stat("formulation_comparison_sites", n_sites)
    # per configuration definite assignment in linear_solve
    used_after = set()
    chain_seen = False
    for st in ls.node.body:
        if isinstance(st, ast.If) and test_literals(st.test, fa) is not None:
            chain_seen = True
            continue
        if chain_seen:
            used_after |= {x.id for x in ast.walk(st) if isinstance(x, ast.Name) and isinstance(x.ctx, ast.Load)}
    ctx.need(chain_seen, "linear_solve: dispatch chain over the formulation not found")
    params = set(ls.params)
    n_cfg = 0
    for f_lit in acc_f:
        for t_lit in acc_t:
            if t_lit not in BACKENDS_IN_SCOPE:
                continue
            vocab = {fa: {f_lit}, ta: {t_lit}}
            if CallDA(sa).block(setup.node.body, set(), vocab) is None:
                ctx.note(f"C08.a: ({f_lit}, {t_lit}) rejected explicitly by _setup_linear_solver")
                continue
            da = CallDA(sa)
            r = da.block(ls.node.body, set(params), vocab)
            if r is None and not da.returns:
                ctx.note(f"C08.a: ({f_lit}, {t_lit}) rejected explicitly (assert/raise) in linear_solve")
                continue
            n_cfg += 1
            at_end = r[0] if r is not None else set.intersection(*da.returns)
            assigned = {a for a in at_end if not a.startswith("@")}
            module_level = {"time", "np", "sps", "len", "hasattr", "abs", "darsia", "pyamg", "warnings"}
            missing = sorted(x for x in used_after - assigned - module_level if x not in ("self",))
            leftover = [u for u in da.unhandled if u[0] == fa]
            ctx.ob(R, ls.qname, f"formulation={f_lit!r}, linear_solver={t_lit!r}: a branch of linear_solve is taken", not leftover,
                   f"no branch handles {f_lit!r} (chain has no else): the call falls through", ls.node)
            ctx.ob(R, ls.qname, f"formulation={f_lit!r}, linear_solver={t_lit!r}: every name used after the dispatch is assigned", not missing,
                   f"unassigned: {missing}", ls.node)
    ctx.stat("configurations_checked", n_cfg)
    return fa, ta, acc_f, acc_t, setup, ls


def branch_body(fnode, attr, lit):
    """Statements executed for self.<attr> == lit: the arm taken in every top-level if/elif chain over that attribute, in order
    (one chain in the original code; a sequence of independent `if self.<attr> in [...]` statements is the same dispatch)."""
    out, any_chain = [], False
    for st in fnode.body:
        if isinstance(st, ast.If) and test_literals(st.test, attr) is not None:
            any_chain = True
            cur = st
            while True:
                l = test_literals(cur.test, attr)
                if l is not None and lit in l:
                    out += cur.body
                    break
                if len(cur.orelse) == 1 and isinstance(cur.orelse[0], ast.If):
                    cur = cur.orelse[0]
                    continue
                if l is not None and cur.orelse and not (len(cur.orelse) == 1 and isinstance(cur.orelse[0], ast.If)):
                    pass
                break
    return out if out else None


def self_calls(stmts):
    out = []
    for st in stmts:
        for c in ast.walk(st):
            if isinstance(c, ast.Call) and isinstance(c.func, ast.Attribute) and isinstance(c.func.value, ast.Name) and c.func.value.id == "self":
                out.append(c)
    return out


def rule_b(ctx, sa, fa, acc_f, setup, ls):
    R = "C08.b"
    ctx.rule(R, "setup before use, per formulation: an attribute bound only by setup_eliminate_flux / setup_eliminate_lagrange_multiplier "
             "may be read in the linear_solve branch of formulation F (and the methods it calls) only if _setup_linear_solver calls "
             "the defining setup on its F branch; the Lagrange setup reads what the flux setup defines, so the flux setup precedes it")
    m = ctx.model
    base = m.cls(WAS, BASE)
    s1 = m.method(base, "setup_eliminate_flux")
    s2 = m.method(base, "setup_eliminate_lagrange_multiplier")
    ctx.need(s1 is not None and s2 is not None, "setup_eliminate_* not found")
    A1, A2 = set(sa.summary(s1)), set(sa.summary(s2))
    ctx.need(A1 and A2, "setup_eliminate_* bind no attributes")

    def reads_of(func, seen=None):
        seen = seen if seen is not None else set()
        if func in seen:
            return set()
        seen.add(func)
        out = {a for n in ast.walk(func.node) if isinstance(n, ast.Attribute) and isinstance(n.ctx, ast.Load) for a in [self_attr(n)] if a}
        for c in self_calls(func.node.body):
            t = m.method(base, c.func.attr)
            if t is not None:
                out |= reads_of(t, seen)
        return out

    for lit in acc_f:
        ctx.instance(R)
        sb = branch_body(setup.node, fa, lit) or []
        order = [c.func.attr for c in self_calls(sb) if c.func.attr.startswith("setup_eliminate")]
        provided = set()
        for nme in order:
            provided |= set(sa.summary(m.method(base, nme)))
        lb = branch_body(ls.node, fa, lit)
        if lb is None:
            ctx.ob(R, ls.qname, f"formulation {lit!r}: linear_solve has a branch", False, "no branch", ls.node)
            continue
        read = {a for st in lb for n in ast.walk(st) if isinstance(n, ast.Attribute) and isinstance(n.ctx, ast.Load) for a in [self_attr(n)] if a}
        for c in self_calls(lb):
            t = m.method(base, c.func.attr)
            if t is not None and not c.func.attr.startswith("setup_"):
                read |= reads_of(t)
        needed = read & (A1 | A2)
        ctx.ob(R, ls.qname, f"formulation {lit!r}: every setup-defined attribute it reads is defined by the setup of that formulation", needed <= provided,
               f"reads {sorted(needed)}, setup branch calls {order} providing {sorted(provided)}; missing {sorted(needed - provided)}", ls.node)
        if "setup_eliminate_lagrange_multiplier" in order:
            need2 = reads_of(s2) & A1
            ok = "setup_eliminate_flux" in order and order.index("setup_eliminate_flux") < order.index("setup_eliminate_lagrange_multiplier")
            ctx.ob(R, setup.qname, f"formulation {lit!r}: flux setup precedes the Lagrange-multiplier setup (which reads {sorted(need2)})", ok or not need2, str(order), setup.node)
    ctx.floor(R, 3)


def rule_c(ctx, sa, fa, acc_f, ls):
    R = "C08.c"
    ctx.rule(R, "elimination and back-substitution use the same pieces (non-commutative normal forms of the matrix expressions): "
             "Schur complement = D . J^-1 . D^T with the D / DT pair cached together; reduced rhs = r_red - D . J^-1 . r_flux; "
             "back-substitution = J^-1 . (r_flux + DT . x_red); the J^-1 used is the third result of eliminate_flux of the same "
             "branch; scatter and gather index maps are the pair built together in setup")
    m = ctx.model
    base = m.cls(WAS, BASE)
    ef = m.method(base, "eliminate_flux")
    se = m.method(base, "setup_eliminate_flux")
    cf = m.method(base, "compute_flux_update")
    ctx.instance(R, 3)

    def env_of(f):
        env = {}
        for st in f.node.body:
            if isinstance(st, ast.Assign) and len(st.targets) == 1 and isinstance(st.targets[0], ast.Name):
                env[st.targets[0].id] = st.value
        return env

    def sym_slices(n):
        if isinstance(n, ast.Subscript):
            return "[" + norm(n) + "]"
        if isinstance(n, ast.Call) and norm(n.func) == "sps.diags":
            return "diags(" + norm(n.args[0]) + ")"
        return None

    # setup: D, DT pair
    env = env_of(se)
    attrs = {self_attr(st.targets[0]): st.value for st in se.node.body if isinstance(st, ast.Assign) and self_attr(st.targets[0])}
    conv = ToNC(env={k: v for k, v in env.items()}, symbolize=sym_slices)
    jac = se.node.body and [k for k, v in env.items() if norm(v).endswith("darcy_init.copy()")]
    D_nc = conv(attrs["D"]) if "D" in attrs else None
    DT_nc = ToNC(env={**env}, symbolize=lambda n: (conv(attrs["D"]) if norm(n) == "self.D" else sym_slices(n)))(attrs["DT"]) if "DT" in attrs and "D" in attrs else None
    ctx.ob(R, se.qname, "self.DT is the transpose of self.D", D_nc is not None and DT_nc is not None and DT_nc == D_nc.T(), f"D={D_nc!r} DT={DT_nc!r}", se.node)
    want_D = NC.sym(f"[{(jac or ['jacobian'])[0]}[self.reduced_system_slice, self.flux_slice]]")
    ctx.ob(R, se.qname, "self.D is the (reduced rows, flux columns) block of the Jacobian", D_nc == want_D, f"D={D_nc!r}", se.node)
    am_se = AM(se)
    jn = (jac or ["jacobian"])[0]
    se_ok = [am_se.has(se.node, f"J_inv = sps.diags(1.0 / {jn}.diagonal()[self.flux_slice])") is not None,
             am_se.has(se.node, "self.D = D.copy()") is not None,
             am_se.has(se.node, "self.reduced_jacobian = self.jacobian_subblock + schur_complement") is not None]
    s_J, s_D, s_S = (am_se.actual(k) or k for k in ("J_inv", "D", "schur_complement"))
    schur_s = ToNC(env={k: v for k, v in env.items() if k not in (s_J, s_D)}, symbolize=sym_slices)(env[s_S]) if s_S in env else None
    ctx.ob(R, se.qname, "setup Schur complement is D . J^-1 . D^T (D the block cached as self.D, J^-1 the inverse flux diagonal)", all(se_ok) and schur_s is not None
           and schur_s == NC.sym(s_D) @ NC.sym(s_J) @ NC.sym(s_D).T(), f"{se_ok} {schur_s!r}", se.node)
    ctx.ob(R, se.qname, "reduced Jacobian = constant sub-block + Schur complement", se_ok[2], norm(attrs.get("reduced_jacobian", ast.Constant(0))), se.node)
    # eliminate_flux: decided on the returned triple, with every once-bound local replaced by its definition
    pj, pr = ef.params[1], ef.params[2]
    conv = ToNC(env={}, symbolize=sym_slices)
    rets = [r.value for r in ast.walk(ef.node) if isinstance(r, ast.Return) and r.value is not None]
    ctx.need(len(rets) == 1 and isinstance(rets[0], ast.Tuple) and len(rets[0].elts) == 3, f"{ef.qname}: does not return one (reduced Jacobian, reduced rhs, J^-1) triple")
    e_RJ, e_RR, e_J = rets[0].elts
    J_txt = f"diags(1.0 / {pj}.diagonal()[self.flux_slice])"
    xJ = conv(expand(ef.node, e_J, helpers=True))
    J = NC.sym(J_txt)
    D, DT = NC.sym("self.D"), NC.sym("self.DT")
    ctx.ob(R, ef.qname, "J^-1 is the inverse of the diagonal of the flux block", xJ == J, repr(xJ), ef.node)
    xRJ = conv(expand(ef.node, e_RJ, helpers=True))
    ctx.ob(R, ef.qname, "Schur complement is self.D . J^-1 . self.DT", xRJ - NC.sym("self.jacobian_subblock") == D @ J @ DT, repr(xRJ), ef.node)
    ctx.ob(R, ef.qname, "reduced Jacobian = constant sub-block + Schur complement", xRJ == NC.sym("self.jacobian_subblock") + D @ J @ DT, repr(xRJ), ef.node)
    ok = False
    desc = ""
    if isinstance(e_RR, ast.Name):
        inits = [st for st in ast.walk(ef.node) if isinstance(st, ast.Assign) and len(st.targets) == 1 and norm(st.targets[0]) == e_RR.id]
        aug = [st for st in ast.walk(ef.node) if isinstance(st, ast.AugAssign) and norm(st.target) == e_RR.id]
        desc = f"{[norm(a) for a in inits + aug]}"
        ok = len(inits) == 1 and norm(inits[0].value) == f"{pr}[self.reduced_system_slice].copy()" and len(aug) == 1 and isinstance(aug[0].op, ast.Sub) \
            and conv(expand(ef.node, aug[0].value, helpers=True)) == D @ J @ NC.sym(f"[{pr}[self.flux_slice]]")
    ctx.ob(R, ef.qname, "reduced rhs = r[reduced] - D . J^-1 . r[flux]", ok, desc, ef.node)
    ctx.ob(R, ef.qname, "returns (reduced Jacobian, reduced rhs, J^-1)", True, "", ef.node)
    # compute_flux_update
    env = env_of(cf)
    ps, prr = cf.params[1], cf.params[2]
    rets = [r.value for r in ast.walk(cf.node) if isinstance(r, ast.Return)]
    got = ToNC(env=env, symbolize=sym_slices)(rets[0]) if rets else None
    want = NC.sym("self.matrix_flux_inv") @ (NC.sym(f"[{prr}[self.flux_slice]]") + DT @ NC.sym(f"[{ps}[self.reduced_system_slice]]"))
    ctx.ob(R, cf.qname, "flux update = J^-1 . (r[flux] + DT . x[reduced])", got == want, repr(got), cf.node)
    # linear_solve branches; the solution vector is the name every return of linear_solve hands back
    ret_names = {norm(r.value.elts[0] if isinstance(r.value, ast.Tuple) else r.value) for r in ast.walk(ls.node) if isinstance(r, ast.Return) and r.value is not None}
    ctx.need(len(ret_names) == 1 and next(iter(ret_names)).isidentifier(), f"{ls.qname}: returns are not a single solution name ({sorted(ret_names)})")
    SOL = next(iter(ret_names))
    for lit in acc_f:
        lb = branch_body(ls.node, fa, lit)
        if lb is None:
            continue
        calls = [c.func.attr for c in self_calls(lb)]
        if "compute_flux_update" not in calls:
            continue
        ctx.instance(R)
        idx = {nme: i for i, nme in reversed(list(enumerate(calls)))}
        ok_order = "eliminate_flux" in idx and idx["eliminate_flux"] < idx["compute_flux_update"]
        unpack = [st for st in lb if isinstance(st, ast.Assign) and isinstance(st.value, ast.Call) and norm(st.value.func) == "self.eliminate_flux"]
        ok_unpack = len(unpack) == 1 and isinstance(unpack[0].targets[0], ast.Tuple) and len(unpack[0].targets[0].elts) == 3 \
            and norm(unpack[0].targets[0].elts[2]) == "self.matrix_flux_inv"
        if not unpack:
            ctx.ob(R, ls.qname, f"formulation {lit!r}: J^-1 used for back-substitution is the third result of this branch's eliminate_flux", False,
                   "unpacking of self.eliminate_flux(...) not found in this branch", ls.node)
            continue
        ctx.ob(R, ls.qname, f"formulation {lit!r}: J^-1 used for back-substitution is the third result of this branch's eliminate_flux", ok_order and ok_unpack,
               f"calls {calls}", ls.node)
        args_e = [norm(a) for a in unpack[0].value.args] if unpack else []
        cfu = [c for c in self_calls(lb) if c.func.attr == "compute_flux_update"]
        args_c = [norm(a) for a in cfu[0].args] if cfu else []
        ctx.ob(R, ls.qname, f"formulation {lit!r}: elimination and back-substitution use the same right-hand side", len(args_e) == 2 and len(args_c) == 2 and args_e[1] == args_c[1],
               f"eliminate_flux{args_e} compute_flux_update{args_c}", ls.node)
        solves = [st for st in lb if isinstance(st, ast.Assign) and isinstance(st.value, ast.Call) and norm(st.value.func) == "self.linear_solver.solve"]
        if lit == "pressure" or any("fully_reduced" in norm(s) for s in solves):
            ok = len(solves) == 1 and norm(solves[0].targets[0]) == f"{SOL}[self.fully_reduced_system_indices_full]" and norm(solves[0].value.args[0]) == "self.fully_reduced_rhs"
            ctx.ob(R, ls.qname, f"formulation {lit!r}: reduced solution is scattered through fully_reduced_system_indices_full", ok, str([norm(s)[:90] for s in solves]), ls.node)
        else:
            ok = len(solves) == 1 and norm(solves[0].targets[0]) == f"{SOL}[self.reduced_system_slice]" and norm(solves[0].value.args[0]) == "self.reduced_rhs"
            ctx.ob(R, ls.qname, f"formulation {lit!r}: reduced solution is stored in the reduced-system slice", ok, str([norm(s)[:90] for s in solves]), ls.node)
    # the solution vector is only written through the pieces above
    allowed = {f"{SOL}[self.flux_slice]", f"{SOL}[self.reduced_system_slice]", f"{SOL}[self.fully_reduced_system_indices_full]", f"{SOL}[0:-1]", f"{SOL}[-1]"}
    for lit in acc_f:
        lb = branch_body(ls.node, fa, lit)
        if lb is None:
            continue
        for st in lb:
            for s_ in ast.walk(st):
                tgts = s_.targets if isinstance(s_, ast.Assign) else ([s_.target] if isinstance(s_, ast.AugAssign) else [])
                for t in tgts:
                    b = t
                    while isinstance(b, (ast.Subscript, ast.Attribute)):
                        b = b.value
                    if isinstance(t, (ast.Subscript, ast.Attribute)) and isinstance(b, ast.Name) and b.id == SOL:
                        ctx.ob(R, ls.qname, f"formulation {lit!r}: store `{norm(t)[:60]}` writes the solution through the solve / back-substitution index maps",
                               norm(t) in allowed, f"`{norm(s_)[:90]}` modifies the solution vector outside the elimination / back-substitution pieces built at setup", s_)
    sl = m.method(base, "setup_eliminate_lagrange_multiplier")
    am_sl = AM(sl)
    am_sl.syn = [{"np.concatenate", "np.hstack"}]   # index vectors are 1-d
    p_ok = am_sl.has(sl.node, "self.fully_reduced_system_indices_full = reduced_system_indices[self.fully_reduced_system_indices]") is not None \
        and am_sl.has(sl.node, "reduced_system_indices = np.concatenate([self.pressure_indices, self.lagrange_multiplier_indices])") is not None
    ctx.ob(R, sl.qname, "scatter map = reduced-system indices (pressure, then multiplier) gathered by the fully-reduced index map", p_ok, str(am_sl.show()), sl.node)
    el = m.method(base, "eliminate_lagrange_multiplier")
    am_el = AM(el)
    am_el.let("frr", f"{el.params[2]}[self.fully_reduced_system_indices].copy()")
    g_ok = am_el.has(el.node, "return (self.fully_reduced_jacobian, frr)") is not None and sum(1 for r in ast.walk(el.node) if isinstance(r, ast.Return)) == 1
    ctx.ob(R, el.qname, "fully reduced rhs gathers with fully_reduced_system_indices and is what is returned", g_ok, str(am_el.show()), el.node)
    dele = [norm(st.value) for st in el.node.body if isinstance(st, ast.Assign) and norm(st.targets[0]) == "self.fully_reduced_jacobian.data[:]"]
    ctx.ob(R, el.qname, "removed matrix entries are those identified at setup (rm_indices)", len(dele) == 1 and dele[0].endswith(", self.rm_indices)"), str(dele), el.node)
    ctx.floor(R, 4)


def rule_d(ctx, sa, fa, ta, acc_f, acc_t, setup, ls):
    R = "C08.d"
    ctx.rule(R, "cached solver reuse is explicit: in every (formulation, back-end) configuration in scope, when a fresh set-up is requested "
             "the `if setup_linear_solver:` block of the branch definitely calls a set-up method that binds self.linear_solver (and "
             "self.solver_options) before self.linear_solver.solve")
    n = 0
    FLAG_FORMS = ("not reuse_solver or not hasattr(self, 'linear_solver')", "not (reuse_solver and hasattr(self, 'linear_solver'))")
    flag = [s for s in ast.walk(ls.node) if isinstance(s, ast.Assign) and isinstance(s.targets[0], ast.Name) and norm(s.value) in FLAG_FORMS]
    flag_name = flag[0].targets[0].id if len(flag) == 1 else "setup_linear_solver"
    if len(flag) == 1 and sum(1 for s in ast.walk(ls.node) if isinstance(s, ast.Name) and isinstance(s.ctx, ast.Store) and s.id == flag_name) != 1:
        flag = []
    for f_lit in acc_f:
        lb = branch_body(ls.node, fa, f_lit)
        if lb is None:
            continue
        for t_lit in acc_t:
            if t_lit not in BACKENDS_IN_SCOPE:
                continue
            vocab = {fa: {f_lit}, ta: {t_lit}}
            d0 = CallDA(sa)
            if CallDA(sa).block(setup.node.body, set(), vocab) is None or (d0.block(ls.node.body, set(ls.params), vocab) is None and not d0.returns):
                continue
            blocks = [st for st in ast.walk(ast.Module(body=lb, type_ignores=[])) if isinstance(st, ast.If) and norm(st.test) == flag_name]
            n += 1
            ctx.instance(R)
            if len(blocks) != 1:
                ctx.ob(R, ls.qname, f"({f_lit}, {t_lit}): one `if setup_linear_solver:` block", False, f"{len(blocks)} blocks", ls.node)
                continue
            da = CallDA(sa)
            r = da.block(blocks[0].body, set(), vocab)
            got = r[0] if r is not None else set()
            ctx.ob(R, ls.qname, f"({f_lit}, {t_lit}): a fresh set-up binds linear_solver and solver_options", {"@linear_solver", "@solver_options"} <= got,
                   f"definitely bound: {sorted(got)}; calls {da.calls}", blocks[0])
    ctx.floor(R, 4)
    ctx.ob(R, ls.qname, "set-up is skipped only when reuse is requested and a solver exists (flag assigned once)", len(flag) == 1, norm(flag[0].value) if flag else "", ls.node)


def _fold_cg_options(m, f):
    """setup_cg_solver folded path-wise on a stand-in solver object: [(decisions, options dict)] with the user's option dictionary as the
    token LSO and the AMG preconditioner as the token PRECONDITIONER; None if it does not fold."""
    from ..fold import Folder, Obj, Opaque, Raised, Refuse, Sym, fold_paths

    def run(decide):
        LSO = Opaque("dict", "LSO")
        so = Obj("self", {"__class__": BASE, "options": {"linear_solver_options": LSO}, "amg_options": {"max_coarse": Opaque("int", "MAXCOARSE")},
                          "setup_amg_options": lambda a, k: None})
        fo = Folder(symbolic=True)
        fo.decider = decide
        fo.func_stack.append(f.node)
        fo.fold_all_methods = True
        prec = Opaque("prec", "PRECONDITIONER")
        hier = Obj("hierarchy", {"aspreconditioner": lambda a, k: prec})
        fo.overrides = {"pyamg.smoothed_aggregation_solver": lambda a, k: hier, "darsia.linalg.CG": lambda a, k: Obj("cg", {}), "warnings.filterwarnings": lambda a, k: None,
                        "warnings.catch_warnings": lambda a, k: Obj("cm", {})}
        fo.call(f.node, [so, Opaque("matrix", "MATRIX", {"shape": (Opaque("int", "NROWS"), Opaque("int", "NROWS"))})])
        return so.fields.get("solver_options")
    try:
        paths = fold_paths(run, max_paths=8)
    except Refuse:
        return None
    out = []
    for log, r, err in paths:
        if err is not None or not isinstance(r, dict):
            return None
        out.append((log, r))
    return out or None


def rule_e(ctx):
    R = "C08.e"
    ctx.rule(R, "the iterative back-ends stop on a relative criterion by default: the option dict handed to scipy's cg carries atol = "
             "linear_solver_options.get('atol', 0) -- with a non-zero default absolute tolerance a right-hand side of small norm is 'solved' "
             "by the zero vector, while the direct back-end is homogeneous in the right-hand side; and the AMG preconditioner is part of the "
             "options on every path")
    from ..fold import Opaque, Sym
    from ..terms import nf

    m = ctx.model
    f = m.method(m.cls(WAS, BASE), "setup_cg_solver")
    sem = _fold_cg_options(m, f)
    if sem is None:
        return _rule_e_syntactic(ctx)
    ctx.instance(R)

    def is_get(t, key, default):
        return isinstance(t, Sym) and t.attr == "get" and isinstance(t.recv, Opaque) and t.recv.label == "LSO" and len(t.args) == 2 and t.args[0] == key and (default is ... or t.args[1] == default)
    for log, opts in sem:
        where = (" on the path " + " and ".join(("" if b else "not ") + nf(c)[:40] for c, b in log)) if log else ""
        a = opts.get("atol")
        ctx.ob(R, f.qname, "cg: atol defaults to 0 (relative stopping only)" + where, is_get(a, "atol", 0), (f"atol = {nf(a)[:80]}" if (isinstance(a, int) or (isinstance(a, Sym) and a.attr == "get" and len(a.args) == 2)) else f"atol entry not found in a comparable form: {nf(a)[:60]}") if a is not None else "no atol entry", f.node,
               evidence=a is not None and isinstance(a, (int, Sym)) and not is_get(a, "atol", 0) and (not isinstance(a, Sym) or (a.attr == "get" and len(a.args) == 2)))
        r = opts.get("rtol")
        ctx.ob(R, f.qname, "cg: rtol is read from the option of that name" + where, is_get(r, "rtol", ...), f"rtol = {nf(r)[:80]}" if r is not None else "no rtol entry", f.node)
        M = opts.get("M")
        if isinstance(M, Opaque) and M.label == "PRECONDITIONER":
            ctx.ob(R, f.qname, "cg: the AMG preconditioner is handed to the Krylov solver" + where, True, "", f.node)
        elif M is None:
            ctx.ob(R, f.qname, "cg: the AMG preconditioner is handed to the Krylov solver" + where, False,
                   f"M is None{where}: plain conjugate gradients under the fixed iteration cap do not reach the tolerance for strongly varying weights, and the wrapper drops "
                   "scipy's convergence flag -- the unconverged iterate is returned as the solution", f.node, evidence=True)
        else:
            ctx.ob(R, f.qname, "cg: the AMG preconditioner is handed to the Krylov solver" + where, False, f"M = {nf(M)[:80]}: preconditioner not found", f.node)
    ctx.floor(R, 1)


def _rule_e_syntactic(ctx):
    R = "C08.e"
    m = ctx.model
    f = m.method(m.cls(WAS, BASE), "setup_cg_solver")
    ctx.instance(R)
    dicts = [s_ for s_ in ast.walk(f.node) if isinstance(s_, ast.Assign) and self_attr(s_.targets[0]) == "solver_options" and isinstance(s_.value, ast.Dict)]
    ctx.need(len(dicts) == 1, f"{f.qname}: assignment of self.solver_options = {{...}} not found")
    ent = {k.value: expand(f.node, v) for k, v in zip(dicts[0].value.keys, dicts[0].value.values) if isinstance(k, ast.Constant)}
    a = ent.get("atol")
    ok = isinstance(a, ast.Call) and isinstance(a.func, ast.Attribute) and a.func.attr == "get" and len(a.args) == 2 and isinstance(a.args[0], ast.Constant) and a.args[0].value == "atol" \
        and isinstance(a.args[1], ast.Constant) and a.args[1].value == 0 and norm(a.func.value) == "self.options.get('linear_solver_options', {})"
    ctx.ob(R, f.qname, "cg: atol defaults to 0 (relative stopping only)", ok, norm(a) if a is not None else "no atol entry", dicts[0])
    r = ent.get("rtol")
    ok = isinstance(r, ast.Call) and isinstance(r.func, ast.Attribute) and r.func.attr == "get" and len(r.args) == 2 and isinstance(r.args[0], ast.Constant) and r.args[0].value == "rtol"
    ctx.ob(R, f.qname, "cg: rtol is read from the option of that name", ok, norm(r) if r is not None else "no rtol entry", dicts[0])
    # the Krylov solver is capped at a fixed number of iterations and its convergence flag is dropped by the wrapper: it reaches the
    # tolerance of the other back-ends only with the AMG preconditioner, which must therefore be handed over on every path
    M = ent.get("M")
    if M is None:
        ctx.ob(R, f.qname, "cg: the AMG preconditioner is handed to the Krylov solver on every path", False, "option 'M' not found in self.solver_options", dicts[0])
    else:
        can_be_none = any(isinstance(x, ast.Constant) and x.value is None for x in ast.walk(M))
        is_prec = any(isinstance(x, ast.Call) and isinstance(x.func, ast.Attribute) and x.func.attr == "aspreconditioner" for x in ast.walk(M))
        if not can_be_none and not is_prec and isinstance(dicts[0].value.values[[k.value for k in dicts[0].value.keys if isinstance(k, ast.Constant)].index("M")], ast.Name):
            nm = dicts[0].value.values[[k.value for k in dicts[0].value.keys if isinstance(k, ast.Constant)].index("M")].id
            defs_ = [a_.value for a_ in ast.walk(f.node) if isinstance(a_, ast.Assign) and any(isinstance(t, ast.Name) and t.id == nm for t in a_.targets)]
            can_be_none = any(isinstance(x, ast.Constant) and x.value is None for d_ in defs_ for x in ast.walk(d_))
            is_prec = any(isinstance(x, ast.Call) and isinstance(x.func, ast.Attribute) and x.func.attr == "aspreconditioner" for d_ in defs_ for x in ast.walk(d_))
        if can_be_none:
            ctx.ob(R, f.qname, "cg: the AMG preconditioner is handed to the Krylov solver on every path", False,
                   f"M = {norm(M)[:110]} can be None: plain conjugate gradients under the fixed iteration cap do not reach the tolerance for strongly varying weights, and "
                   "the wrapper drops scipy's convergence flag -- the unconverged iterate is returned as the solution", dicts[0], evidence=True)
        else:
            ctx.ob(R, f.qname, "cg: the AMG preconditioner is handed to the Krylov solver on every path", is_prec, f"M = {norm(M)[:110]}: preconditioner not found", dicts[0])
    ctx.floor(R, 1)


def rule_f(ctx):
    R = "C08.f"
    ctx.rule(R, "a fresh set-up is fresh: each back-end set-up method (setup_direct_solver / setup_amg_solver / setup_cg_solver / "
             "setup_ksp_solver) builds what it binds from the matrix it is given -- hidden-state analysis with the set-up method as entry: "
             "no attribute that the method itself writes is read before it is written in the same call (a hierarchy or preconditioner "
             "kept from the previous matrix would be applied to the new one)")
    from .c16 import _report_state

    m = ctx.model
    base = m.cls(WAS, BASE)
    n = 0
    for name in ("setup_direct_solver", "setup_amg_solver", "setup_cg_solver", "setup_ksp_solver"):
        f = m.method(base, name)
        if f is None:
            continue
        n += 1
        ctx.instance(R)
        sa_ = StateAnalysis(m, base, [name])
        k_ = _report_state(ctx, R, sa_, name, f"a linear solve after {name}")
        ctx.ob(R, f.qname, f"{name}: hidden-state analysis completed", True, f"{k_} cross-call read(s), written attributes {sorted(sa_.call_written)}", f.node)
    ctx.floor(R, 3)


def rule_g(ctx):
    R = "C08.g"
    ctx.rule(R, "argument roles at linear_solve: the vector handed over as previous_solution (read by the pressure-only formulation to decide "
             "whether the pinned pressure is compatible) is an iterate, never the right-hand side -- in every function of the solver hierarchy "
             "the names passed as right-hand side to self.residual(rhs, solution) or built as the three-part [0 | M.mass_diff | 0] vector "
             "must not reach the previous_solution parameter")
    m = ctx.model
    base = m.cls(WAS, BASE)
    ls = m.method(base, "linear_solve")
    pnames = ls.params[1:]
    n = 0
    for k in m.subclasses(base):
        for f in k.methods.values():
            calls = [c for c in ast.walk(f.node) if isinstance(c, ast.Call) and norm(c.func) == "self.linear_solve"]
            if not calls:
                continue
            rhs_names, it_names = set(), set()
            for c in ast.walk(f.node):
                if isinstance(c, ast.Call) and norm(c.func) == "self.residual" and len(c.args) >= 2:
                    rhs_names.add(norm(c.args[0]))
                    it_names.add(norm(c.args[1]))
                elif isinstance(c, ast.Call) and norm(c.func) == "self.jacobian" and c.args:
                    it_names.add(norm(c.args[0]))
            for s_ in ast.walk(f.node):
                if isinstance(s_, ast.Assign) and isinstance(s_.targets[0], ast.Name) and isinstance(s_.value, ast.Call) and norm(s_.value.func) in ("np.concatenate", "np.hstack") \
                        and s_.value.args and isinstance(s_.value.args[0], (ast.List, ast.Tuple)) and len(s_.value.args[0].elts) == 3:
                    rhs_names.add(s_.targets[0].id)
            for c in calls:
                prev = c.args[2] if len(c.args) > 2 else next((kw.value for kw in c.keywords if kw.arg == pnames[2]), None)
                if prev is None:
                    continue
                n += 1
                ctx.instance(R)
                t = norm(prev)
                ctx.ob(R, f.qname, f"`{norm(c)[:60]}`: previous_solution is an iterate", t not in rhs_names - it_names,
                       f"`{t}` is the right-hand side in this function (first argument of self.residual / the assembled [0 | M.mass_diff | 0]): the pressure-only formulation "
                       "compares it with the pinned pressure and raises, which the solver loop swallows", c, evidence=True)
    ctx.floor(R, 1)


def rule_h(ctx):
    R = "C08.h"
    ctx.rule(R, "the shared fully reduced matrix is consistent at every solve: eliminate_lagrange_multiplier overwrites its data in the entry "
             "order fixed at set-up, so its index array must be the one of set-up as well -- either the indices are restored on every "
             "path, or no back-end for which the restore is skipped re-organises the matrix it is given in place (effect summaries of "
             "the solver wrappers and set-up methods)")
    from ..effects import Effects

    m = ctx.model
    base = m.cls(WAS, BASE)
    el = m.method(base, "eliminate_lagrange_multiplier")
    ctx.instance(R)
    data_w = [st for st in ast.walk(el.node) if isinstance(st, ast.Assign) and norm(st.targets[0]).startswith("self.fully_reduced_jacobian.data")]
    idx_w = [st for st in ast.walk(el.node) if isinstance(st, ast.Assign) and norm(st.targets[0]) == "self.fully_reduced_jacobian.indices"]
    if not data_w:
        ctx.ob(R, el.qname, "data of the shared fully reduced matrix is overwritten in place (entry order of set-up)", False, "in-place overwrite of self.fully_reduced_jacobian.data not found", el.node)
        ctx.floor(R, 1)
        return
    uncond = [st for st in idx_w if st in el.node.body]
    # matrix-modifying back-ends
    E = Effects(m)
    ctx.consult("darsia.utils.linalg")
    offenders = []
    cands = [f for k in m.mod("darsia.utils.linalg").classes.values() for f in k.methods.values()]
    cands += [f for name, f in base.methods.items() if name.startswith("setup_") and "solver" in name]
    for f in cands:
        for p_ in sorted(E.mutated(f, exclude=(f.params[0],) if f.params and f.cls is not None else ())):
            ev = E.events_on(f, p_)
            offenders.append((f, p_, ev[0] if ev else None))
    ctx.stat("solver_wrappers_scanned", len(cands))
    if uncond:
        ctx.ob(R, el.qname, "the index array of the shared fully reduced matrix is restored whenever its data is overwritten", True, "", uncond[0])
        for f, p_, ev in offenders:
            ctx.note(f"{R}: {f.short} modifies its matrix argument `{p_}` in place ({ev}); harmless while the indices are restored unconditionally")
    elif idx_w:
        conds = []
        cur = getattr(idx_w[0], "_parent", None)
        while cur is not None and cur is not el.node:
            if isinstance(cur, ast.If):
                conds.append(norm(cur.test)[:60])
            cur = getattr(cur, "_parent", None)
        ctx.ob(R, el.qname, "the index array of the shared fully reduced matrix is restored whenever its data is overwritten, or no back-end re-organises the matrix it is given", not offenders,
               f"the restore is conditional ({' and '.join(conds)}), and {offenders[0][0].short} modifies its matrix argument `{offenders[0][1]}` in place ({offenders[0][2]}): after the first set-up the "
               "data written in set-up order no longer matches the re-sorted indices -- a different matrix is solved from the second system on" if offenders else "", idx_w[0], evidence=True)
    else:
        ctx.ob(R, el.qname, "the index array of the shared fully reduced matrix is restored whenever its data is overwritten, or no back-end re-organises the matrix it is given", not offenders,
               f"the indices are never restored, and {offenders[0][0].short} modifies its matrix argument `{offenders[0][1]}` in place" if offenders else "", el.node, evidence=bool(offenders))
    ctx.floor(R, 1)


def rule_i(ctx, fa, ta, acc_f, acc_t, ls):
    R = "C08.i"
    ctx.rule(R, "iterative back-ends get the system they are made for: conjugate gradients and algebraic multigrid need a symmetric positive "
             "definite matrix, and the only such system linear_solve builds is the pure pressure matrix returned by "
             "eliminate_lagrange_multiplier -- the flux-eliminated system still carries the multiplier row and column (a saddle point). For "
             "every (formulation, back-end) pair with an amg / cg back-end that is not rejected explicitly, the matrix handed to the set-up "
             "method must be the first result of eliminate_lagrange_multiplier")
    for f_lit in acc_f:
        body = branch_body(ls.node, fa, f_lit)
        if body is None:
            continue
        # names / attributes bound to the first result of self.eliminate_lagrange_multiplier(...) in this branch
        spd = set()
        for st in body:
            for a in ast.walk(st):
                if isinstance(a, ast.Assign) and isinstance(a.value, ast.Call) and norm(a.value.func) == "self.eliminate_lagrange_multiplier":
                    t = a.targets[0]
                    if isinstance(t, (ast.Tuple, ast.List)) and t.elts:
                        spd.add(norm(t.elts[0]))
        rejected = any(isinstance(a, (ast.Assert, ast.Raise)) for st in body[:3] for a in ast.walk(st))
        for t_lit, meth in (("amg", "self.setup_amg_solver"), ("cg", "self.setup_cg_solver")):
            if t_lit not in acc_t:
                continue
            calls = [c for st in body for c in ast.walk(st) if isinstance(c, ast.Call) and norm(c.func) == meth and c.args]
            if not calls:
                if not rejected:
                    ctx.note(f"{R}: ({f_lit}, {t_lit}): no call of {meth} in the branch")
                continue
            ctx.instance(R)
            for c in calls:
                arg = norm(c.args[0])
                ctx.ob(R, ls.qname, f"formulation {f_lit!r}, back-end {t_lit!r}: the matrix handed to {meth.split('.')[-1]} is the pure pressure matrix", arg in spd,
                       f"`{norm(c)[:80]}` is given `{arg}`, which is not the result of eliminate_lagrange_multiplier "
                       f"({sorted(spd) or 'not called in this branch'}): the system still contains the Lagrange multiplier and is indefinite", c, evidence=True)
    ctx.floor(R, 2)


def rule_k(ctx, ls):
    R = "C08.k"
    ctx.rule(R, "every call of linear_solve returns an array of its own: the solution that is returned neither is an attribute of the solver "
             "object nor aliases one (a workspace kept on the object and handed out again makes the solution of system k change when system "
             "k+1 is solved -- the Newton / Bregman loops keep the previous iterate)")
    from ..effects import Effects

    E = Effects(ctx.model)
    ctx.instance(R)
    amap = {a: b for a, b in E.alias.get(ls, {}).items() if not a.startswith("self.")}
    bad = []
    for r in ast.walk(ls.node):
        if isinstance(r, ast.Return) and r.value is not None:
            vals = r.value.elts[:1] if isinstance(r.value, (ast.Tuple, ast.List)) and r.value.elts else [r.value]
            for v in vals:
                if ls.params and ls.params[0] in E.roots(v, ls, amap):
                    bad.append((r, norm(v)[:40]))
    ctx.ob(R, ls.qname, "the returned solution is not shared with the solver object", not bad,
           "; ".join(f"`{t}` may alias an attribute of self" for _, t in bad[:2]) + " -- the array handed to the caller is overwritten by the next solve", bad[0][0] if bad else ls.node, evidence=True)
    ctx.floor(R, 1)


def rule_l(ctx):
    R = "C08.l"
    ctx.rule(R, "the flux block that the reduced formulations eliminate is diagonal: eliminate_flux inverts jacobian.diagonal()[flux_slice] only, so every "
             "face mass matrix FVMass can hand out (for every accepted `lumping` value) must be built by a diagonal constructor; a consistent "
             "(non-lumped) mass matrix makes flux_reduced / pressure solve another system than full")
    m = ctx.model
    ctx.consult("darsia.utils.fv")
    f = m.func("darsia.utils.fv", "FVMass.__init__")
    DIAG = ("sps.diags", "sps.eye", "sps.identity", "sps.dia_matrix", "scipy.sparse.diags")
    # definitions of the local that becomes self.mat, outside statements that follow a raise in the same block (dead code)
    names = {norm(a.value) for a in ast.walk(f.node) if isinstance(a, ast.Assign) and any(norm(t) == "self.mat" for t in a.targets) and isinstance(a.value, ast.Name)}
    defs = []

    def visit(stmts):
        for st in stmts:
            if isinstance(st, ast.Raise):
                return   # what follows in this block is unreachable
            if isinstance(st, ast.Assign) and any(isinstance(t, ast.Name) and t.id in names for t in st.targets):
                defs.append(st)
            for fld in ("body", "orelse"):
                sub = getattr(st, fld, None)
                if isinstance(sub, list) and not isinstance(st, (ast.FunctionDef, ast.ClassDef)):
                    visit(sub)
    visit(f.node.body)
    ctx.need(defs, "FVMass.__init__: definitions of the mass matrix not found")
    for st in defs:
        ctx.instance(R)
        v = st.value
        while isinstance(v, ast.Call) and isinstance(v.func, ast.Attribute) and v.func.attr in ("tocsc", "tocsr", "asformat", "astype", "copy") :
            v = v.func.value
        if isinstance(v, ast.BinOp) and isinstance(v.op, ast.Mult):
            # scalar times matrix
            for side in (v.left, v.right):
                w = side
                while isinstance(w, ast.Call) and isinstance(w.func, ast.Attribute) and w.func.attr in ("tocsc", "tocsr", "asformat", "astype", "copy"):
                    w = w.func.value
                if isinstance(w, ast.Call) and norm(w.func) in DIAG:
                    v = w
        if isinstance(v, ast.Call) and norm(v.func) not in DIAG:
            # a helper of the class that returns the matrix: judged by its return expression
            t_ = m.resolve_call(v, f)
            if t_ is not None and hasattr(t_, "node") and isinstance(t_.node, ast.FunctionDef):
                rets_ = [r_.value for r_ in ast.walk(t_.node) if isinstance(r_, ast.Return) and r_.value is not None]
                if len(rets_) == 1:
                    v = expand(t_.node, rets_[0])
        diag = isinstance(v, ast.Call) and norm(v.func) in DIAG
        full = expand(f.node, st.value)
        offd = any(isinstance(x, ast.Call) and norm(x.func) in ("sps.coo_matrix", "sps.csc_matrix", "sps.csr_matrix", "sps.bmat", "sps.lil_matrix") for x in ast.walk(full))
        ctx.ob(R, f.qname, f"`{norm(st.targets[0])} = ...` is a diagonal matrix", diag and not offd,
               f"`{norm(st)[:110]}` builds a matrix with off-diagonal entries: the Schur complement of the reduced formulations uses its diagonal only" if offd else f"diagonal constructor not found in `{norm(st)[:80]}`", st, evidence=offd)
    ctx.floor(R, 2)


def rule_m(ctx):
    R = "C08.m"
    ctx.rule(R, "the direct back-end factorises with SuperLU's default (partial) pivoting: splu is called without pivoting options -- the full saddle-point "
             "system is indefinite, and a relaxed threshold (diag_pivot_thresh < 1) that is harmless for the Schur complements leaves an O(1) residual there, so "
             "the formulations no longer agree")
    m = ctx.model
    n = 0
    for f in m.cls(WAS, BASE).methods.values():
        for c in ast.walk(f.node):
            if isinstance(c, ast.Call) and norm(c.func).endswith("linalg.splu"):
                n += 1
                ctx.instance(R)
                opts = [k for k in c.keywords if k.arg in ("diag_pivot_thresh", "options", "permc_spec", "relax", "panel_size")]
                const_bad = [k for k in opts if k.arg == "diag_pivot_thresh" and isinstance(k.value, ast.Constant) and isinstance(k.value.value, (int, float)) and k.value.value < 1]
                ctx.ob(R, f.qname, f"`{norm(c)[:60]}` uses the default pivoting", not opts,
                       (f"diag_pivot_thresh={const_bad[0].value.value}: diagonal pivots are accepted whatever their size -- unstable for the indefinite full system" if const_bad else f"options {[k.arg for k in opts]} not found among the defaults"),
                       c, evidence=bool(const_bad))
    ctx.floor(R, 1)


def run(ctx):
    ctx.guard(rule_m, ctx)
    from .common import rule_abs_tolerance
    ctx.guard(rule_abs_tolerance, ctx, "C08.j", [f for f in ctx.model.cls(WAS, BASE).methods.values()] + [f for k in ctx.model.mod("darsia.utils.linalg").classes.values() for f in k.methods.values()], "all formulations must agree for every positive weighting and right-hand side")
    m = ctx.model
    ctx.consult(WAS)
    base = m.cls(WAS, BASE)
    sa = StateAnalysis(m, base, ["linear_solve"])
    fa, ta, acc_f, acc_t, setup, ls = rule_a(ctx, sa)
    ctx.guard(rule_b, ctx, sa, fa, acc_f, setup, ls)
    ctx.guard(rule_c, ctx, sa, fa, acc_f, ls)
    ctx.guard(rule_d, ctx, sa, fa, ta, acc_f, acc_t, setup, ls)
    ctx.guard(rule_e, ctx)
    ctx.guard(rule_f, ctx)
    ctx.guard(rule_g, ctx)
    ctx.guard(rule_h, ctx)
    ctx.guard(rule_i, ctx, fa, ta, acc_f, acc_t, ls)
    ctx.guard(rule_k, ctx, ls)
    ctx.guard(rule_l, ctx)
    # callers of linear_solve: a reused factorisation must belong to the matrix being solved (C04.g)
    from . import c04
    from .common import shared

    shared(ctx, "C08.c", c04.rule_c, why="the reduced formulations slice the divergence / constraint blocks out of the assembled operators: all formulations solve one system only if every assembled operator carries the same, unscaled, rows")
    shared(ctx, "C08.d", c04.rule_g, why="reuse_solver=True applies the cached factorisation to whatever matrix is passed: every caller must have set a fresh solver up for that matrix")
