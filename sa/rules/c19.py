"""C19 -- patching (narrow claim: conventions and table coherence; the tiling arithmetic is declined)."""
from __future__ import annotations

import ast

from ..algebra import NotPolynomial, Poly, ToPoly
from ..report import AnalysisError
from ..amatch import AM
from ..srcmodel import norm
from ..state import self_attr
from . import c02, c20

LEVEL = "other"
MOD = "darsia.image.patches"
TABLES = ["rois", "relative_rois_without_overlap", "patches", "global_centers_cartesian", "global_centers_voxels", "global_corners_cartesian", "global_corners_voxels", "local_corners_voxels"]


def table_comps(init):
    """{attr: (outer comprehension, inner comprehension, element)} for the 2d tables of Patches.__init__."""
    out = {}
    for s in ast.walk(init.node):
        if isinstance(s, (ast.Assign, ast.AnnAssign)):
            tgt = s.targets[0] if isinstance(s, ast.Assign) else s.target
            a = self_attr(tgt)
            if a in TABLES and s.value is not None:
                v = s.value
                if isinstance(v, ast.Call) and norm(v.func) == "np.array" and v.args:
                    v = v.args[0]
                if isinstance(v, ast.ListComp) and isinstance(v.elt, ast.ListComp):
                    out[a] = (v, v.elt, v.elt.elt, s)
    return out


def rule_a(ctx, init, tabs):
    R = "C19.a"
    ctx.rule(R, "one row/column convention: every per-patch table is a nested comprehension whose outer index runs over num_patches[0] (rows) "
             "and inner index over num_patches[1]; expressions on axis 0 use the outer index with pv[0]/ov[0], on axis 1 the inner index "
             "with pv[1]/ov[1]; __call__, set_image and assemble address patches[row][col] the same way (assemble: hstack inside, vstack outside)")
    m = ctx.model
    for name in TABLES:
        t = tabs.get(name)
        ctx.instance(R)
        if t is None:
            ctx.ob(R, init.qname, f"table {name} is a nested comprehension", False, "not found", init.node)
            continue
        outer, inner, elt, st = t
        i, j = norm(outer.generators[0].target), norm(inner.generators[0].target)
        ok = norm(outer.generators[0].iter) == "range(self.num_patches[0])" and norm(inner.generators[0].iter) == "range(self.num_patches[1])"
        its = (norm(outer.generators[0].iter), norm(inner.generators[0].iter))
        swapped = its == ("range(self.num_patches[1])", "range(self.num_patches[0])")
        # iteration over anything else than the two ranges (pre-computed per-axis lists, ...) is not read by this rule: undecided
        ctx.ob(R, init.qname, f"{name}: outer index over num_patches[0], inner over num_patches[1]", ok, f"{its[0]} / {its[1]}" if swapped else "", st, evidence=swapped)
        # axis discipline inside slices / corner pairs
        bad = []
        for e in ast.walk(elt):
            pair = None
            if isinstance(e, ast.Tuple) and len(e.elts) == 2 and all(isinstance(x, (ast.Call, ast.IfExp)) for x in e.elts):
                pair = e.elts
            elif isinstance(e, ast.List) and len(e.elts) == 2 and not any(isinstance(x, (ast.List, ast.Tuple)) for x in e.elts) and name.endswith("voxels"):
                pair = e.elts
            if pair is None:
                continue
            for ax, comp in enumerate(pair):
                names = {x.id for x in ast.walk(comp) if isinstance(x, ast.Name)}
                subs = {norm(x) for x in ast.walk(comp) if isinstance(x, ast.Subscript) and norm(x.value) in (NAMES["pv"], NAMES["ov"], NAMES["nv"])}
                wrong_idx = (j if ax == 0 else i) in names
                wrong_sub = any(sn.endswith(f"[{1 - ax}]") for sn in subs)
                if wrong_idx or wrong_sub:
                    bad.append(norm(comp)[:60])
        ctx.ob(R, init.qname, f"{name}: axis-0 components use ({i}, [0]) and axis-1 components ({j}, [1]) only", not bad, str(bad[:3]), st, evidence=bool(bad))
    ctx.floor(R, 8)
    k = m.cls(MOD, "Patches")
    for meth in ("__call__", "set_image"):
        f = m.method(k, meth)
        acc = sorted({norm(x) for x in ast.walk(f.node) if isinstance(x, ast.Subscript) and norm(x).startswith("self.patches[") and norm(x).count("[") == 2})
        am = AM(f)
        unp = am.has(f.node, "r, c = args") is not None
        ctx.ob(R, f.qname, "addresses self.patches[i][j] with (i, j) = args", unp and acc == [f"self.patches[{am.actual('r')}][{am.actual('c')}]"], f"{acc} {am.show()}", f.node)
    f = m.method(k, "assemble")
    # assemble is folded symbolically on a 2 x 3 grid of symbolic patches and ROIs: whatever way the stacking is written, the result must be
    # the block matrix [[P00[R00], P01[R01], P02[R02]], [P10[R10], P11[R11], P12[R12]]] (hstack / concatenate(axis=1) inside, vstack / axis=0 outside)
    from ..fold import Arr, Folder, Obj, Opaque, Raised, Refuse, Sym, _Return

    NR, NC = 2, 3
    me = Obj("self", {"num_patches": [NR, NC],
                      "relative_rois_without_overlap": [[Opaque("roi", f"R{r}{c}") for c in range(NC)] for r in range(NR)],
                      "patches": [[Obj(f"p{r}{c}", {"img": Opaque("arr", f"P{r}{c}")}) for c in range(NC)] for r in range(NR)],
                      "base": Obj("base", {"img": Obj("bimg", {"shape": (6, 9), "dtype": Opaque("dtype", "DT")})})})
    fo = Folder(symbolic=True)
    fo.func_stack.append(f.node)
    env = {f.params[0]: me}
    for pn in f.params[1:]:
        env[pn] = False
    from ..fold import fold_stmts, mentions_unknown
    res, skipped = fold_stmts(fo, f.node.body, env)

    def leaf(x):
        t = repr(x)
        return t[:-2] if t.endswith("()") else t

    def grid(x):
        """rows of leaves, or None"""
        if isinstance(x, Arr):
            return [] if not x.data else None
        if isinstance(x, Sym):
            nm = x.fn
            parts = None
            if x.args and isinstance(x.args[0], (list, tuple)):
                parts = list(x.args[0])
            axis = x.kw.get("axis") if hasattr(x, "kw") else None
            if nm in ("np.zeros", "np.empty") and x.args and isinstance(x.args[0], tuple) and x.args[0] and x.args[0][0] == 0:
                return []
            vertical = nm == "np.vstack" or (nm == "np.concatenate" and axis == 0)
            horizontal = nm == "np.hstack" or (nm == "np.concatenate" and axis == 1)
            if parts is not None and (vertical or horizontal):
                gs = [grid(p_) for p_ in parts]
                if any(g_ is None for g_ in gs):
                    return None
                if vertical:
                    return [row for g_ in gs for row in g_]
                if all(len(g_) == 1 for g_ in gs):
                    return [[l_ for g_ in gs for l_ in g_[0]]]
                return None
            if not x.args and "[" in nm:
                return [[leaf(x)]]
        return None

    img_arg = None
    if isinstance(res, Sym):
        img_arg = res.kw.get("img") if res.kw else (res.args[0] if res.args else None)
    got = grid(img_arg) if img_arg is not None else None
    want = [[f"P{r}{c}[<opaque roi R{r}{c}>]" for c in range(NC)] for r in range(NR)]
    if got is None or (got != want and (skipped or mentions_unknown(img_arg))):
        ctx.ob(R, f.qname, "assemble: columns are concatenated horizontally inside, rows vertically outside, patches[row][col] throughout", False,
               "block structure of the assembled array not found by the symbolic fold" + (f" ({len(skipped)} statement(s) outside the folding language, first: {skipped[0][1]})" if skipped else ""), f.node, evidence=False)
    else:
        ctx.ob(R, f.qname, "assemble: columns are concatenated horizontally inside, rows vertically outside, patches[row][col] throughout", got == want,
               f"a 2 x 3 patch grid is assembled as {got}; re-assembly needs {want}", f.node, evidence=True)
    # exact re-assembly includes the data type: an empty array that seeds the concatenation takes part in numpy's dtype promotion, so it
    # must carry the base image's dtype (a float64 seed turns integer / float32 images into float64)
    seeds = [c for c in ast.walk(f.node) if isinstance(c, ast.Call) and norm(c.func) in ("np.zeros", "np.empty", "np.ones", "np.array", "np.full")
             and isinstance(getattr(c, "_parent", None), ast.Assign)]
    stacked = {x.id for c in ast.walk(f.node) if isinstance(c, ast.Call) and norm(c.func) in ("np.vstack", "np.hstack", "np.concatenate", "np.stack") for x in ast.walk(c) if isinstance(x, ast.Name)}
    for c in seeds:
        tgt = c._parent.targets[0]
        if isinstance(tgt, ast.Name) and tgt.id in stacked:
            dt = next((norm(k.value) for k in c.keywords if k.arg == "dtype"), None)
            ctx.ob(R, f.qname, f"the array `{tgt.id}` that seeds the concatenation has the base image's dtype", dt in ("self.base.img.dtype", "self.base.dtype"),
                   f"`{norm(c)[:80]}` has dtype {dt or 'float64 (numpy default)'}: the assembled image is promoted to it", c, evidence=True)
    ctx.ob(R, f.qname, "the assembled array is wrapped with the base image's type and metadata", isinstance(res, Sym) and res.fn.startswith("type(self.base)") and bool(res.kw), repr(res)[:80], f.node)


def rule_b(ctx, init, tabs):
    R = "C19.b"
    ctx.rule(R, "a patch is the sub-image at its ROI: patches[i][j] = self.base.subregion(self.rois[i][j]); ROI stops may exceed the extent, so "
             "the patch's metadata is right only if subregion bounds the selection (the C02.a obligations are re-evaluated here)")
    t = tabs.get("patches")
    ctx.instance(R)
    ok = False
    if t is not None:
        outer, inner, elt, st = t
        i, j = norm(outer.generators[0].target), norm(inner.generators[0].target)
        ok = norm(elt) == f"self.base.subregion(self.rois[{i}][{j}])"
    ctx.ob(R, init.qname, "patches[i][j] = base.subregion(rois[i][j])", ok, norm(t[2]) if t else "", init.node, evidence=False)
    n0 = len(ctx.obs)
    c02.rule_ab(ctx)
    for o in ctx.obs[n0:]:
        o.rule = R + "/" + o.rule
    ctx.floor(R, 1)


def corner_list(elt):
    """The literal list of four [a, b] corners inside a table element (np.array([...]) [+ origin])."""
    for e in ast.walk(elt):
        if isinstance(e, ast.List) and len(e.elts) == 4 and all(isinstance(x, ast.List) and len(x.elts) == 2 for x in e.elts):
            return e
    return None


def rule_c(ctx, init, tabs):
    R = "C19.c"
    ctx.rule(R, "advertised tables agree with each other (polynomial normal forms with min(...) terms as atoms): local corners = global voxel "
             "corners - corner 0; voxel and Cartesian corner tables list the corners in the same order with rows <-> -y and columns <-> +x as "
             "the axis table prescribes for 'ij'; Cartesian centres = Cartesian corner 0 + half a patch; voxel centres are the voxels of the "
             "Cartesian centres; tables the property compares must be derived from the same patch size")
    need = ["global_corners_voxels", "local_corners_voxels", "global_corners_cartesian", "global_centers_cartesian", "global_centers_voxels"]
    ctx.need(all(n in tabs for n in need), f"corner/centre tables not found: {[n for n in need if n not in tabs]}")

    def atom(n):
        if isinstance(n, ast.Call) and norm(n.func) == "min":
            return "min(" + ",".join(norm(a) for a in n.args) + ")"
        return None

    conv = ToPoly(atomize=atom)

    def corners(name):
        outer, inner, elt, st = tabs[name]
        cl = corner_list(elt)
        ctx.need(cl is not None, f"{name}: four-corner literal not found")
        i, j = norm(outer.generators[0].target), norm(inner.generators[0].target)
        try:
            return [(conv(c.elts[0]), conv(c.elts[1])) for c in cl.elts], i, j, st
        except NotPolynomial as e:
            raise AnalysisError(f"{name}: corner expression outside the polynomial language: {e}")

    gv, i, j, st_gv = corners("global_corners_voxels")
    lv, _, _, st_lv = corners("local_corners_voxels")
    gc, ic, jc, st_gc = corners("global_corners_cartesian")
    ctx.instance(R, 3)
    ok = all(lv[c][0] == gv[c][0] - gv[0][0] and lv[c][1] == gv[c][1] - gv[0][1] for c in range(4))
    ctx.ob(R, init.qname, "local voxel corners = global voxel corners - corner 0, for all four corners", ok, f"local {lv} global {gv}", st_lv)
    # order / orientation agreement: unclip min(nv, (k+1)*pv) -> (k+1)*pv
    I, J = Poly.atom(i), Poly.atom(j)
    pv0, pv1 = Poly.atom(f"{NAMES['pv']}[0]"), Poly.atom(f"{NAMES['pv']}[1]")

    def unclip(p):
        for a in list(p.atoms()):
            if a.startswith("min("):
                inner = a[4:-1].split(",", 1)[1]
                p = p.subst(a, ToPoly()(ast.parse(inner, mode="eval").body))
        return p
    rows = [unclip(r) for r, _ in gv]
    cols = [unclip(c) for _, c in gv]
    T_i, _, _ = c20.extract_tables(ctx)
    xrow = T_i[("x", "ij")][1]  # (matrix position, reversed)
    yrow = T_i[("y", "ij")][1]
    m0, m1 = Poly.atom(f"{NAMES['pdm']}[0]"), Poly.atom(f"{NAMES['pdm']}[1]")
    ok = True
    desc = []
    for c in range(4):
        vox = (rows[c], cols[c])
        # Cartesian x comes from matrix axis xrow[0], sign -1 if reversed; likewise y
        mult = {0: (rows[c] / pv0), 1: (cols[c] / pv1)}
        size = {0: m0, 1: m1}
        want_x = mult[xrow[0]] * size[xrow[0]] * (-1 if xrow[1] else 1)
        want_y = mult[yrow[0]] * size[yrow[0]] * (-1 if yrow[1] else 1)
        gx = gc[c][0].subst(ic, I).subst(jc, J)
        gy = gc[c][1].subst(ic, I).subst(jc, J)
        if not (gx == want_x and gy == want_y):
            ok = False
            desc.append(f"corner {c}: voxel multipliers {mult[0]!r},{mult[1]!r}; Cartesian ({gx!r}, {gy!r}) expected ({want_x!r}, {want_y!r})")
    ctx.ob(R, init.qname, "voxel and Cartesian corner tables list the same corners in the same order (rows <-> -y, columns <-> +x per the axis table)", ok, "; ".join(desc)[:300], st_gc)
    add_origin = any(isinstance(b, ast.BinOp) and isinstance(b.op, ast.Add) and "self.base.origin" in norm(b.right) for b in ast.walk(tabs["global_corners_cartesian"][2]))
    ctx.ob(R, init.qname, "Cartesian corners are offset by the base image's origin", add_origin, "", st_gc, evidence=False)
    # centres
    outer, inner, elt, st = tabs["global_centers_cartesian"]
    ci, cj = norm(outer.generators[0].target), norm(inner.generators[0].target)
    lst = [e for e in ast.walk(elt) if isinstance(e, ast.List) and len(e.elts) == 2 and not any(isinstance(x, ast.List) for x in e.elts)]
    ok = False
    if lst:
        cx, cy = conv(lst[0].elts[0]).subst(ci, I).subst(cj, J), conv(lst[0].elts[1]).subst(ci, I).subst(cj, J)
        g0x, g0y = gc[0][0].subst(ic, I).subst(jc, J), gc[0][1].subst(ic, I).subst(jc, J)
        half = Poly.const(1) / Poly.const(2)
        ok = cx == g0x + m1 * half * (1 if not xrow[1] else -1) if xrow[0] == 1 else False
        ok = ok and cy == g0y + m0 * half * (-1 if yrow[1] else 1)
    ctx.ob(R, init.qname, "Cartesian centres = Cartesian corner 0 + half a patch along +x and -y", ok and "self.base.origin" in norm(elt), norm(elt)[:120], st, evidence=False)
    outer, inner, elt, st = tabs["global_centers_voxels"]
    vi, vj = norm(outer.generators[0].target), norm(inner.generators[0].target)
    ctx.ob(R, init.qname, "voxel centres are the voxels of the Cartesian centres in the base coordinate system", norm(elt) == f"self.base.coordinatesystem.voxel(self.global_centers_cartesian[{vi}, {vj}])", norm(elt), st)
    # provenance of the patch size
    env = {norm(s.targets[0]): s.value for s in ast.walk(init.node) if isinstance(s, ast.Assign) and isinstance(s.targets[0], ast.Name)}
    PV = NAMES["pv"]
    pv_src = env.get(norm(env[PV])) if PV in env and isinstance(env[PV], ast.Name) else env.get(PV)
    lossy = pv_src is not None and any(isinstance(c, ast.Call) and norm(c.func).endswith("coordinatesystem.num_voxels") for c in ast.walk(pv_src))
    cart_from_vox = any("coordinatesystem.coordinate(" in norm(tabs[n][2]) for n in ("global_corners_cartesian",))
    ctx.instance(R)
    ctx.ob(R, init.qname, "Cartesian and voxel corner tables are derived from the same patch size", (not lossy) or cart_from_vox,
           "the voxel tables use pv = ceil(patch_dimensions_metric / voxel_size) (coordinatesystem.num_voxels) and clip at the border, the Cartesian "
           "tables use patch_dimensions_metric = dimensions / num_patches directly: the two can only agree when the extent is divisible by the patch count",
           tabs["global_corners_cartesian"][3])
    ctx.floor(R, 4)


def _num_voxels_calls(m, init, grid=(2, 3)):
    """Constructor folded statement-wise on a 2 x 3 patch grid with the coordinate system's own num_voxels folded on every call:
    [(length term, axis argument, result term)]."""
    from ..fold import Folder, Obj, Opaque, Raised, Refuse, Sym

    calls = []
    nvf = m.func("darsia.image.coordinatesystem", "CoordinateSystem.num_voxels")
    cs = Obj("CS", {"__class__": "CoordinateSystem", "voxel": lambda a, k: Sym("VOX", a, k), "coordinate": lambda a, k: Sym("COORD", a, k), "axes": "xy", "dim": 2, "indexing": "ij",
                    "voxel_size": {"x": Opaque("f", "hx"), "y": Opaque("f", "hy")}, "shape": (Opaque("int", "N0"), Opaque("int", "N1"))})

    def nv(a, k):
        length = k.get("length", a[0] if a else None)
        axis = k.get("axis", a[1] if len(a) > 1 else None)
        sub = Folder(symbolic=True)
        sub.func_stack.append(nvf.node)
        sub.fold_all_methods = True
        try:
            r = sub.call(nvf.node, [cs] + list(a), dict(k))
        except (Refuse, Raised):
            r = None
        calls.append((length, axis, r))
        return r if r is not None else Sym("NV", a, k)
    cs.fields["num_voxels"] = nv
    fo = Folder(symbolic=True)
    fo.func_stack.append(init.node)
    fo.fold_all_methods = True
    base = Obj("base", {"space_dim": 2, "time_dim": 0, "dimensions": [Opaque("f", "D0"), Opaque("f", "D1")], "indexing": "ij", "coordinatesystem": cs,
                        "num_voxels": [Opaque("int", "N0"), Opaque("int", "N1")], "origin": Opaque("coord", "ORIGIN"), "subregion": lambda a, k: Sym("SUB", a, k)})
    so = Obj("self", {"__class__": "Patches"})
    p = init.params
    env = {p[0]: so, p[1]: base, p[2]: list(grid)}
    if len(p) > 3:
        env[p[3]] = {"rel_overlap": Opaque("f", "REL")}
    from ..fold import fold_stmts
    fold_stmts(fo, init.node.body, env)
    calls.append(("__env__", env, so))
    return calls


def rule_e(ctx, init):
    R = "C19.e"
    ctx.rule(R, "per-axis quantities stay per axis: every two-entry list the constructor computes for the patched matrix axes (patch size, overlap, "
             "centre offsets in voxels or metres) has an entry k that depends on the image extent / voxel size of axis k only -- an entry that "
             "mixes both axes (a maximum over the axes, a swapped pair) moves interiors away from the advertised corners for elongated patches")
    from ..terms import nf

    m = ctx.model
    # 3 x 4 patches: a list of two entries is then a list over the two patched axes, never a list over the patches along one axis
    sem = _num_voxels_calls(m, init, grid=(3, 4))
    envs = [x for x in sem if x and x[0] == "__env__"]
    if not envs:
        ctx.ob(R, init.qname, "per-axis lists depend on their own axis only", False, "fold of the constructor not found", init.node)
        ctx.floor(R, 1)
        return
    _, env, so = envs[0]
    cand = {}
    for name, v in list(env.items()) + [(f"self.{a}", v) for a, v in so.fields.items()]:
        if isinstance(v, list) and len(v) == 2 and not name.startswith("__") and all(not isinstance(x, (list, tuple, dict)) for x in v):
            cand[name] = v
    n = 0
    from ..fold import mentions_unknown
    for name, v in sorted(cand.items()):
        if mentions_unknown(v):
            continue   # derives from a statement outside the folding language: nothing to judge
        texts = [nf(x) for x in v]
        if not any(tok in t for t in texts for tok in ("D0", "D1", "N0", "N1", "hx", "hy")):
            continue
        n += 1
        ctx.instance(R)
        # matrix axis 0 <-> D0, N0, hy ; matrix axis 1 <-> D1, N1, hx
        foreign = [(0, [tok for tok in ("D1", "N1", "hx") if tok in texts[0]]), (1, [tok for tok in ("D0", "N0", "hy") if tok in texts[1]])]
        bad = [(k, toks) for k, toks in foreign if toks]
        ctx.ob(R, init.qname, f"`{name}`: entry k depends on axis k only", not bad,
               "; ".join(f"entry {k} = {texts[k][:70]} mentions {toks} of the other axis" for k, toks in bad), init.node, evidence=True)
    ctx.floor(R, 2)


def rule_d(ctx, init):
    R = "C19.d"
    ctx.rule(R, "physical lengths along matrix axis i become voxel counts through the voxel size of the Cartesian axis of i (C20 tables): the "
             "constructor is folded on a 2 x 3 grid with CoordinateSystem.num_voxels folded on every call; each resulting count must be "
             "ceil(length / voxel size of 'y') for lengths along matrix axis 0 and of 'x' for matrix axis 1, with no absolute tolerance on the length")
    import re as _re

    from ..fold import Arr
    from ..terms import nf

    m = ctx.model
    sem = _num_voxels_calls(m, init)
    decided, undecided = 0, []
    for length, axis, res in [x for x in sem if not (x and x[0] == "__env__")]:
        comps = res.flat() if isinstance(res, Arr) else (list(res) if isinstance(res, (list, tuple)) else [res])
        lens = length.flat() if isinstance(length, Arr) else (list(length) if isinstance(length, (list, tuple)) else [length])
        if res is None or len(comps) != len(lens):
            undecided.append(f"num_voxels({nf(length)[:40]}, {axis!r}) -> {nf(res)[:60]}")
            continue
        for ln, rc in zip(lens, comps):
            tl, tr = nf(ln), nf(rc)
            which = [i for i in (0, 1) if f"D{i}" in tl]
            if len(which) != 1:
                undecided.append(f"length {tl[:40]}")
                continue
            i = which[0]
            want_h, other_h = ("hy", "hx") if i == 0 else ("hx", "hy")
            ctx.instance(R)
            if other_h in tr and want_h not in tr:
                decided += 1
                ctx.ob(R, init.qname, f"a length along matrix axis {i} ({tl[:40]}) is converted with the voxel size of Cartesian axis {'y' if i == 0 else 'x'!r}", False,
                       f"the count is {tr[:100]}: the voxel size of the other axis is used -- wrong voxel counts for non-square voxels", init.node, evidence=True)
            elif tr == f"np.ceil(({tl} / {want_h})).astype(int)" or tr == f"np.ceil({tl} / {want_h}).astype(int)":
                decided += 1
                ctx.ob(R, init.qname, f"a length along matrix axis {i} ({tl[:40]}) is converted with the voxel size of Cartesian axis {'y' if i == 0 else 'x'!r}", True, "", init.node)
            else:
                lits = [float(x) for x in _re.findall(r"(?<![\w.])(\d+\.?\d*e-\d+|0\.0+\d+)", tr)] + [int(a_) / int(b_) for a_, b_ in _re.findall(r"Fraction\((\d+), (\d+)\)", tr)]
                if want_h in tr and any(0 < v < 1e-3 for v in lits):
                    decided += 1
                    ctx.ob(R, init.qname, f"a length along matrix axis {i} ({tl[:40]}) is converted to ceil(length / voxel size) without an absolute tolerance", False,
                           f"the count is {tr[:110]}: a fixed small length is taken off before the division -- for voxels of that size (micrometre scale) a patch loses a voxel and the "
                           "last rows / columns of the image belong to no patch", init.node, evidence=True)
                else:
                    undecided.append(f"count {tr[:80]}")
    if undecided and not any(not o.ok for o in ctx.obs if o.rule == R):
        ctx.ob(R, init.qname, "every length is converted to voxels along the Cartesian axis of its matrix axis", False, "conversion not found in a comparable form: " + "; ".join(undecided[:2]), init.node)
    ctx.instance(R, 0)
    ctx.floor(R, 2)


NAMES = {}


def fold_tables(init, ctx_node=None):
    """Statement-wise symbolic fold of the constructor on a 2 x 3 patch grid of a symbolic 2-d image (statements outside the folding
    language are skipped): {table name: term}."""
    from ..fold import Folder, Obj, Opaque, Raised, Refuse, Sym

    fo = Folder(symbolic=True)
    fo.func_stack.append(ctx_node if ctx_node is not None else init.node)   # names resolve as in the repository's constructor
    fo.fold_all_methods = True
    cs = Obj("CS", {"num_voxels": lambda a, k: Sym("NV", a, k), "voxel": lambda a, k: Sym("VOX", a, k), "coordinate": lambda a, k: Sym("COORD", a, k)})
    base = Obj("base", {"space_dim": 2, "time_dim": 0, "dimensions": [Opaque("f", "D0"), Opaque("f", "D1")], "indexing": "ij", "coordinatesystem": cs,
                        "num_voxels": [Opaque("int", "N0"), Opaque("int", "N1")], "origin": Opaque("coord", "ORIGIN"), "subregion": lambda a, k: Sym("SUB", a, k)})
    so = Obj("self", {"__class__": "Patches"})
    p = init.params
    env = {p[0]: so, p[1]: base, p[2]: [2, 3]}
    if len(p) > 3:
        env[p[3]] = {"rel_overlap": Opaque("f", "REL")}
    from ..fold import fold_stmts, mentions_unknown
    fold_stmts(fo, init.node.body, env)
    return {k: v for k, v in so.fields.items() if k in TABLES and not mentions_unknown(v)}


def same_term(a, b):
    """Equal normal forms, or -- entry by entry -- equal polynomials over the non-arithmetic sub-terms."""
    from ..fold import Arr, Sym
    from ..terms import nf

    if nf(a) == nf(b):
        return True
    a = a.data if isinstance(a, Arr) else a
    b = b.data if isinstance(b, Arr) else b
    if isinstance(a, (list, tuple)) and isinstance(b, (list, tuple)):
        return len(a) == len(b) and all(same_term(x, y) for x, y in zip(a, b))
    if isinstance(a, slice) and isinstance(b, slice):
        return all(same_term(x, y) for x, y in ((a.start or 0, b.start or 0), (a.stop, b.stop), (a.step or 1, b.step or 1)))
    if isinstance(a, Sym) and isinstance(b, Sym) and a.fn == b.fn and a.fn in ("SUB", "VOX", "COORD", "np.array", "np.asarray") and len(a.args) == len(b.args) and set(a.kw) == set(b.kw):
        return all(same_term(x, y) for x, y in zip(a.args, b.args)) and all(same_term(a.kw[k], b.kw[k]) for k in a.kw)
    try:
        atomize = lambda n: norm(n) if isinstance(n, (ast.Call, ast.Subscript, ast.Attribute)) else None  # noqa: E731
        pa = ToPoly(atomize=atomize)(ast.parse(nf(a), mode="eval").body)
        pb = ToPoly(atomize=atomize)(ast.parse(nf(b), mode="eval").body)
        return pa == pb
    except (NotPolynomial, SyntaxError, ValueError):
        return False


def run(ctx):
    ctx.consult(MOD)
    init = real_init = ctx.model.func(MOD, "Patches.__init__")
    tc = table_comps(init)
    plain = len(tc) == len(TABLES) and all(norm(o.generators[0].iter) == "range(self.num_patches[0])" and norm(i_.generators[0].iter) == "range(self.num_patches[1])"
                                           for o, i_, _e, _s in tc.values())
    if not plain:
        # the tables are not written as nested comprehensions any more: if, folded on a 2 x 3 grid, each of them has the term of the
        # documented construction, the rules below are applied to that construction instead (it computes the same tables)
        from ..srcmodel import reference_func
        from .c19_reference import REFERENCE_INIT

        ref = reference_func(init, REFERENCE_INIT)
        got, want = fold_tables(init), fold_tables(ref, init.node)
        ctx.need(set(want) == set(TABLES), f"C19 reference construction does not fold ({sorted(set(TABLES) - set(want))})")
        diff = [t for t in TABLES if t not in got or not same_term(got[t], want[t])]
        ctx.stat("tables_equal_to_documented_construction", len(TABLES) - len(diff))
        if not diff:
            init = ref
    # the short local names of the constructor are located through the attributes that mirror them / their defining expressions
    am = AM(init)
    found = [am.has(init.node, t) is not None for t in (
        "self.nv = nv", "self.pv = pv", "self.ov = ov", "nv = self.base.num_voxels", "indexing = self.base.indexing",
        "pdm = [self.base.dimensions[i] / self.num_patches[i] for i in range(self.num_active_spatial_axes)]")]
    ctx.need(all(found), f"Patches.__init__: nv/pv/ov/indexing/patch size definitions not found ({found})")
    NAMES.clear()
    NAMES.update({k: am.actual(k) or k for k in ("nv", "pv", "ov", "indexing", "pdm")})
    tabs = table_comps(init)
    ctx.guard(rule_a, ctx, init, tabs)
    ctx.guard(rule_b, ctx, init, tabs)
    ctx.guard(rule_c, ctx, init, tabs)
    # semantic folds: always of the code as it is, never of the documented construction
    ctx.guard(rule_d, ctx, real_init)
    ctx.guard(rule_e, ctx, real_init)
