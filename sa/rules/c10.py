"""C10 -- every correction honours the copy / in-place / array / series contract (structural clauses)."""
from __future__ import annotations

import ast

from ..amatch import AM
from ..effects import Effects
from ..report import AnalysisError
from ..srcmodel import norm
from ..state import self_attr
from .c02 import _time_split

LEVEL = "other"
BASE = "darsia.corrections.basecorrection"
IMG = "darsia.image.image"


def concrete_corrections(m):
    base = m.cls(BASE, "BaseCorrection")
    return base, [k for k in m.subclasses(base, strict=True)]


def fold_workflow(f):
    """Symbolic fold of BaseCorrection.__call__ for every combination of input kind, overwrite flag, series flag, presence of
    correct_array_series and scalar flag (three time slices).  Returns {"a": [...], "c": [...], "views": [...]} -- disagreements
    with the documented workflow (a), with the per-slice series clause (c), and the correct_array calls of the non-overwrite runs that
    receive a view of the input data -- or None when the method leaves the folding language."""
    from ..fold import Folder, Obj, Opaque, Raised, Refuse, Sym

    out = {"a": [], "c": [], "views": [], "undecided": []}
    NT = 3

    def run(kind, ow, series=False, has=False, scalar=True):
        fo = Folder(symbolic=True)
        fo.func_stack.append(f.node)
        fo.fold_all_methods = True
        # the abstract / overridable hooks stay symbols (the base class bodies are placeholders)
        fo.overrides = {nm: (lambda a, k, nm=nm: Sym(nm, a, k)) for nm in ("self.correct_metadata", "self.correct_array", "self.correct_array_series")}
        fields = {"__class__": "BaseCorrection"}
        if has:
            fields["correct_array_series"] = Opaque("callable", "self.correct_array_series")
        if kind == "array":
            inp = Opaque("ndarray", "IN")
        else:
            inp = Obj("image", {"__class__": "Image", "img": Opaque("arr", "DATA"), "series": series, "scalar": scalar, "time_num": NT, "space_dim": Opaque("int", "SD")})
        r = fo.call(f.node, [Obj("self", fields), inp, ow])
        return r, [repr(t) for t in fo.trace], inp

    try:
        for ow in (True, False):
            r, tr, inp = run("array", ow)
            want = "self.correct_array(<opaque ndarray IN>)" if ow else "self.correct_array(IN.copy())"
            if repr(r) != want:
                if not ow and repr(r) == "self.correct_array(<opaque ndarray IN>)":
                    out["a"].append("array input, overwrite=False: the correction is applied to the caller's array itself (no copy)")
                else:
                    out["undecided"].append(f"array input, overwrite={ow}: returns {r!r}")
        for ow in (True, False):
            for series, has, scalar in ((False, False, True), (False, True, True), (True, True, True), (True, True, False), (True, False, True), (True, False, False)):
                r, tr, inp = run("image", ow, series, has, scalar)
                case = f"image input, overwrite={ow}, series={series}, correct_array_series {'present' if has else 'absent'}, scalar={scalar}"
                data = "<opaque arr DATA>" if ow else "DATA.copy()"
                if not series:
                    wants = [f"self.correct_array({data})"]
                elif has:
                    wants = [f"self.correct_array_series({data})"]
                else:
                    tail = "" if scalar else ", :"
                    wants = [f"np.stack([{', '.join(f'self.correct_array({base}[..., {t}{tail}]())' for t in range(NT))}], axis=<opaque int SD>)" for base in ("DATA", "DATA.copy()")]
                if ow:
                    got = repr(inp.fields.get("img"))
                    ret_ok = r is inp
                    upd = "image.update_metadata(self.correct_metadata(image.metadata()))" in tr
                    if not ret_ok:
                        out["a"].append(f"{case}: returns {r!r}, not the input object")
                    if not upd:
                        out["undecided"].append(f"{case}: update_metadata(correct_metadata(metadata())) not seen")
                else:
                    if not (isinstance(r, Sym) and r.fn == "type(image)" and len(r.args) == 1 and set(r.kw) == {"**"}):
                        return None
                    got = repr(r.args[0])
                    merged = repr(r.kw["**"])
                    if merged == "dictmerge(image.metadata(), self.correct_metadata(image.metadata()))":
                        pass  # {**metadata(), **declared updates}: the updates override
                    elif merged == "dictmerge(self.correct_metadata(image.metadata()), image.metadata())":
                        out["a"].append(f"{case}: the copy is built from {{**declared updates, **metadata()}}: the input's metadata overrides the correction's declared updates")
                    elif repr(r.kw["**"]) != "image.metadata()" or "image.metadata().update(self.correct_metadata(image.metadata()))" not in tr:
                        if repr(r.kw["**"]) == "image.metadata()" and not any(".update(" in t or "correct_metadata" in t for t in tr):
                            out["a"].append(f"{case}: the copy is built from the input's metadata without the declared updates")
                        else:
                            out["undecided"].append(f"{case}: metadata {r.kw['**']!r}")
                    if repr(inp.fields.get("img")) != "<opaque arr DATA>" or any(t.startswith("image.update_metadata(") for t in tr):
                        out["a"].append(f"{case}: the input image is modified although overwrite is False")
                    out["views"].extend(t for t in tr if t.startswith("self.correct_array") and ("(DATA[" in t or "(<opaque arr DATA>" in t) and t not in out["views"])
                if got not in wants:
                    if not ow and got in [w.replace("DATA.copy()", "<opaque arr DATA>") for w in wants]:
                        out["a"].append(f"{case}: the correction is applied to the input's own data (no copy): {got}")
                    elif (series and not has) and got.startswith("np.stack(") and got.count("self.correct_array(") == NT and "axis=<opaque int SD>" not in got:
                        out["c"].append(f"{case}: slices are stacked along another axis than space_dim: {got[-60:]}")
                    else:
                        out["undecided"].append(f"{case}: corrected data is {got}")
    except (Refuse, Raised):
        return None
    return out


def rule_a(ctx):
    R = "C10.a"
    ctx.rule(R, "the shared workflow implements copy vs overwrite: arrays -- overwrite returns correct_array(input), otherwise "
             "correct_array(input.copy()); images -- data is image.img (overwrite) or a copy, overwrite rebinds image.img, calls "
             "update_metadata(meta_update) and returns the very object, otherwise returns type(image)(img, **(metadata() updated by "
             "correct_metadata)); no subclass overrides __call__")
    m = ctx.model
    ctx.consult(BASE)
    base, subs = concrete_corrections(m)
    f = m.method(base, "__call__")
    p, ow = f.params[1], f.params[2]
    ctx.instance(R)
    over = [k.name for k in subs if "__call__" in k.methods]
    ctx.ob(R, base.qname, "no correction overrides the shared __call__ workflow", not over, str(over), base.node)
    ctx.stat("correction_classes", len(subs))
    top = [st for st in f.node.body if isinstance(st, ast.If)]
    recognised = len(top) == 1 and norm(top[0].test) == f"isinstance({p}, np.ndarray)" and top[0].orelse and isinstance(top[0].orelse[0], ast.If) \
        and norm(top[0].orelse[0].test) == f"isinstance({p}, darsia.Image)"
    # named contradiction: the corrected data are stored into the buffer of the input (`input[...] = result`, np.copyto(input, result)): the
    # result is converted to the input's dtype on the store -- a float result written into an integer array is truncated
    for st in ast.walk(f.node):
        tgt = None
        if isinstance(st, ast.Assign) and isinstance(st.targets[0], ast.Subscript) and norm(st.targets[0].value) in (p, f"{p}.img") and norm(st.targets[0].slice) in ("...", ":", "slice(None, None, None)"):
            tgt = st.targets[0]
        elif isinstance(st, ast.Expr) and isinstance(st.value, ast.Call) and norm(st.value.func) == "np.copyto" and st.value.args and norm(st.value.args[0]) in (p, f"{p}.img"):
            tgt = st.value.args[0]
        if tgt is not None:
            ctx.ob(R, f.qname, "corrected data are returned / re-bound, not stored into the input's buffer", False,
                   f"`{norm(st)[:80]}` writes the result into the caller's array: it is cast to that array's dtype (integer images lose the float result of colour / illumination "
                   "corrections), so the overwrite result differs from the non-overwrite one", st, evidence=True)
    sem = fold_workflow(f)
    if sem is not None and sem["undecided"] and not (sem["a"] or sem["c"]):
        sem = None  # data / metadata terms this rule cannot compare with the documented ones: left to the syntactic rules
    if sem is not None and (not recognised or not sem["undecided"]):
        # restructured workflow: decided by the symbolic fold over all input cases
        ctx.ob(R, f.qname, "workflow folded over input kind x overwrite x series x correct_array_series x scalar agrees with the documented one", not sem["a"], "; ".join(sem["a"][:3]), f.node, evidence=True)
        ctx.floor(R, 1)
        from ..amatch import helper_closure

        return f, [s_ for h in helper_closure(f) for s_ in h.node.body], sem
    ctx.need(len(top) == 1, "BaseCorrection.__call__: expected one top-level dispatch on the input kind")
    if sem is not None:
        ctx.ob(R, f.qname, "workflow folded over input kind x overwrite x series x correct_array_series x scalar agrees with the documented one", not sem["a"], "; ".join(sem["a"][:3]), f.node, evidence=True)
    arr_b, img_b = top[0].body, (top[0].orelse[0].body if top[0].orelse and isinstance(top[0].orelse[0], ast.If) else [])
    ctx.ob(R, f.qname, "dispatch: ndarray first, then darsia.Image", norm(top[0].test) == f"isinstance({p}, np.ndarray)" and top[0].orelse and norm(top[0].orelse[0].test) == f"isinstance({p}, darsia.Image)", norm(top[0].test), top[0])
    # array branch
    ok = False
    if len(arr_b) == 1 and isinstance(arr_b[0], ast.If) and norm(arr_b[0].test) == ow:
        t = [norm(s) for s in arr_b[0].body]
        e = [norm(s) for s in arr_b[0].orelse]
        ok = t == [f"{p} = self.correct_array({p})", f"return {p}"] and e == [f"return self.correct_array({p}.copy())"]
    ctx.ob(R, f.qname, "arrays: overwrite -> correct_array(input); otherwise correct_array(input.copy())", ok, "", f.node)
    # image branch
    am = AM(f)
    d_ok = am.find(img_b, f"img = {p}.img if {ow} else {p}.img.copy()") is not None
    ctx.ob(R, f.qname, "images: working data is image.img when overwriting, a copy otherwise", d_ok, str(am.show()), f.node)
    mu_ok = am.find(img_b, f"meta_update = self.correct_metadata({p}.metadata())") is not None
    fin = [s for s in img_b if isinstance(s, ast.If) and norm(s.test) == ow]
    ok1 = ok2 = False
    if fin:
        ok1 = am.eq_block(fin[-1].body, [f"{p}.img = img", f"{p}.update_metadata(meta_update)", f"return {p}"])
        ok2 = am.eq_block(fin[-1].orelse, [f"meta = {p}.metadata()", "meta.update(meta_update)", f"return type({p})(img, **meta)"])
    ctx.ob(R, f.qname, "images, overwrite: rebinds image.img, updates metadata, returns the same object", ok1, "", f.node)
    ctx.ob(R, f.qname, "images, copy: returns type(image)(corrected data, **metadata() + declared updates)", ok2, "", f.node)
    ctx.ob(R, f.qname, "metadata updates come from correct_metadata(image.metadata())", mu_ok, "", f.node)
    # the single-image path corrects the working data
    single = am.has(ast.Module(body=img_b, type_ignores=[]), "img = self.correct_array(img)")
    ctx.ob(R, f.qname, "single images: the working data goes through correct_array", single is not None, "", f.node)
    ctx.floor(R, 1)
    return f, img_b, sem


def rule_b(ctx, E, f, img_b, sem=None):
    R = "C10.b"
    ctx.rule(R, "a non-overwrite call cannot write through to the input: every correct_array / correct_array_series call on the image path "
             "that receives (a view of) image.img rather than the working copy is paired with the effect summaries of all concrete "
             "corrections; a violation needs such a site AND a correction whose correct_array closure mutates its array parameter")
    m = ctx.model
    p = f.params[1]
    base, subs = concrete_corrections(m)
    sites = []
    for st in img_b:
        for c in ast.walk(st):
            if isinstance(c, ast.Call) and norm(c.func) in ("self.correct_array", "self.correct_array_series") and c.args:
                a = c.args[0]
                b = a
                while isinstance(b, (ast.Subscript,)):
                    b = b.value
                if norm(b) == f"{p}.img":
                    sites.append(c)
    if sem is not None and not sites:
        # the folded non-overwrite runs show which correct_array calls receive (a view of) the input data
        sites = [ast.parse(v.replace("<opaque arr DATA>", "DATA").replace("]()", "]"), mode="eval").body for v in sem["views"]]
    mutators = []
    n_cls = 0
    for k in subs:
        ca = m.method(k, "correct_array")
        if ca is None or ca.cls is base:
            continue
        n_cls += 1
        ctx.instance(R)
        arrp = ca.params[1] if len(ca.params) > 1 else None
        mut = arrp in E.mut.get(ca, set())
        ev = [e for e in E.events_on(ca, arrp)][:2]
        ctx.ob(R, k.qname, f"{k.name}.correct_array does not write into its array argument", not mut or not sites,
               f"mutation events: {ev}; the shared workflow hands it a view of the input image at {[norm(s)[:60] for s in sites]}", ca.node)
        if mut:
            mutators.append(k.name)
    ctx.floor(R, 10)
    # with overwrite fixed to False (dead branches pruned) the shared workflow itself must not have a mutation event rooted at the input
    ovw = next((x for x in f.params if x == "overwrite"), None)
    if ovw is not None:
        ev, _ = E.analyse_with(f, {ovw: False})
        mine = [e for e in ev if e.root == p]
        ctx.ob(R, f.qname, "with overwrite=False the workflow does not modify the input image", not mine,
               "; ".join(str(e) for e in mine[:2])[:260] + " -- the caller's image is changed although a copy was asked for", f.node, evidence=True)
    for s in sites:
        ctx.note(f"C10.b: {norm(s)[:70]} passes a view of the input image on the non-overwrite path (harmless today: no correction writes into its argument; mutating classes: {mutators})")
    ctx.stat("view_sites", len(sites))


def rule_c(ctx, f, img_b, sem=None):
    R = "C10.c"
    ctx.rule(R, "series = per-slice: the series branch applies correct_array to img[..., t] (scalar) / img[..., t, :] (vector) for t in "
             "range(time_num) and re-stacks on axis=space_dim")
    p = f.params[1]
    ctx.instance(R)
    if sem is not None:
        ctx.ob(R, f.qname, "series without correct_array_series: np.stack([correct_array(img[..., t(, :)]) for t in range(time_num)], axis=space_dim) (folded, 3 slices)",
               not sem["c"], "; ".join(sem["c"][:2]), f.node, evidence=True)
        ctx.floor(R, 1)
        return
    loops = [l for st in img_b for l in ast.walk(st) if isinstance(l, ast.For)]
    ok = len(loops) == 1 and norm(loops[0].iter) == f"range({p}.time_num)"
    ctx.ob(R, f.qname, "one loop over range(image.time_num)", ok, str([norm(l.iter) for l in loops]), f.node)
    if loops:
        t = norm(loops[0].target)
        split = [n for n in ast.walk(loops[0]) if isinstance(n, ast.If) and _time_split(n) is not None]
        ok = False
        if len(split) == 1:
            a, b = _time_split(split[0])
            ok = all(len(s.slice.elts) == 2 and norm(s.slice.elts[1]) == t for s in a) and all(len(s.slice.elts) == 3 and norm(s.slice.elts[1]) == t and norm(s.slice.elts[2]) == ":" for s in b)
        ctx.ob(R, f.qname, "scalar slices are [..., t], vector slices [..., t, :]", ok, "", f.node)
        app = [norm(c.func) for c in ast.walk(loops[0]) if isinstance(c, ast.Call) and norm(c.func).endswith(".append")]
        inner = [norm(c.func) for c in ast.walk(loops[0]) if isinstance(c, ast.Call) and norm(c.func) == "self.correct_array"]
        ctx.ob(R, f.qname, "every slice goes through correct_array and is collected in order", len(app) == 2 and len(set(app)) == 1 and len(inner) == 2, f"{app} {inner}", f.node)
    st = [norm(c) for s in img_b for c in ast.walk(s) if isinstance(c, ast.Call) and norm(c.func) == "np.stack"]
    ctx.ob(R, f.qname, "slices are re-stacked on axis=space_dim", len(st) == 1 and st[0].endswith(f", axis={p}.space_dim)"), str(st), f.node)
    ctx.floor(R, 1)


def rule_d(ctx):
    R = "C10.d"
    ctx.rule(R, "inactive configurations short-circuit: every correction whose constructor closure stores self.active branches on it in "
             "correct_array, returns its input (or a dtype conversion of it) on the inactive branch, and reads no other attribute of "
             "self on the way there")
    m = ctx.model
    base, subs = concrete_corrections(m)
    n = 0
    for k in subs:
        stores = False
        for kk in m.mro(k):
            for g in kk.methods.values():
                if g.name in ("correct_array", "__call__"):
                    continue
                if any(isinstance(s, ast.Assign) and any(self_attr(t) == "active" for t in s.targets) for s in ast.walk(g.node)):
                    stores = True
        if not stores:
            continue
        ca = m.method(k, "correct_array")
        if ca is None or ca.cls is base:
            continue
        n += 1
        ctx.instance(R)
        ctx.consult(ca.module.name)
        arrp = ca.params[1]
        body = [s for s in ca.node.body if not (isinstance(s, ast.Expr) and isinstance(s.value, ast.Constant))]
        guard = None
        pre_reads = []
        for s in body:
            if isinstance(s, ast.If) and norm(s.test) in ("self.active", "not self.active"):
                guard = s
                break
            pre_reads += [self_attr(x) for x in ast.walk(s) if isinstance(x, ast.Attribute) and self_attr(x)]
        if guard is None:
            ctx.ob(R, ca.qname, f"{k.name}: correct_array consults the active flag", False,
                   f"the constructor stores self.active but correct_array never reads it: an inactive {k.name} still applies (or fails on attributes only set when active)", ca.node, evidence=True)
            continue
        ctx.ob(R, ca.qname, f"{k.name}: correct_array consults the active flag", True, "", guard)
        inactive = guard.orelse if norm(guard.test) == "self.active" else guard.body
        rets = [r for s in inactive for r in ast.walk(s) if isinstance(r, ast.Return)]
        ok = False
        if len(rets) == 1 and rets[0].value is not None:
            v = rets[0].value
            names = {x.id for x in ast.walk(v) if isinstance(x, ast.Name)} - {"np", "skimage"}
            reads = [self_attr(x) for x in ast.walk(v) if isinstance(x, ast.Attribute) and self_attr(x)]
            ok = names == {arrp} and not reads
        if not inactive and norm(guard.test) == "self.active":
            # `if self.active: ...` without else: falls through to the statements after the guard
            after = body[body.index(guard) + 1:]
            rets = [r for s in after for r in ast.walk(s) if isinstance(r, ast.Return)]
            ok = len(rets) == 1 and norm(rets[0].value) == arrp
        ctx.ob(R, ca.qname, f"{k.name}: the inactive branch returns the input (at most converted), reading nothing else", ok and not pre_reads,
               f"returns {[norm(r.value) for r in rets]}, attributes read before the guard {pre_reads}", guard)
    ctx.floor(R, 4)


def rule_f(ctx, E):
    R = "C10.f"
    ctx.rule(R, "results are not shared with the correction object: the array returned by correct_array of every concrete correction neither "
             "aliases an attribute of self nor is stored into one (a buffer kept on the object and handed out again makes every slice of a "
             "series, and every earlier result, the same array)")
    m = ctx.model
    base, subs = concrete_corrections(m)
    n = 0
    for k in subs:
        ca = m.method(k, "correct_array")
        if ca is None or ca.cls is base:
            continue
        n += 1
        ctx.instance(R)
        amap = E.alias.get(ca, {})
        rets = [r for r in ast.walk(ca.node) if isinstance(r, ast.Return) and r.value is not None]
        shared = []
        # attributes of self are read as state of self even when this call (re)assigned them a fresh array: the object keeps them
        amap = {a: b for a, b in amap.items() if not a.startswith("self.")}
        for r in rets:
            roots = E.roots(r.value, ca, amap)
            if ca.params and ca.params[0] in roots:
                shared.append(f"`{norm(r)[:60]}` may alias state of self")
            if isinstance(r.value, ast.Name):
                for s in ast.walk(ca.node):
                    if isinstance(s, ast.Assign) and isinstance(s.value, ast.Name) and s.value.id == r.value.id and any(
                            isinstance(b, ast.Attribute) and isinstance(b.value, ast.Name) and b.value.id == ca.params[0] for t in s.targets for b in [t if not isinstance(t, ast.Subscript) else t.value]):
                        shared.append(f"`{norm(s)[:60]}` keeps the returned array on the object")
        ctx.ob(R, ca.qname, f"{k.name}.correct_array returns an array that is not shared with the object", not shared, "; ".join(shared[:3]), ca.node)
    ctx.floor(R, 10)


def rule_g(ctx, E):
    R = "C10.g"
    ctx.rule(R, "metadata updates are declared, not written into the input: correct_metadata of every correction class returns its updates and does "
             "not modify the objects held by the metadata it is given -- BaseCorrection.__call__ passes image.metadata(), a shallow copy whose "
             "lists (dimensions, date, time) and arrays (origin) are the input image's own; an in-place write into one of them changes the "
             "input although overwrite=False")
    m = ctx.model
    seen = set()
    for mod in m.modules.values():
        for k in mod.classes.values():
            f = k.methods.get("correct_metadata")
            if f is None or f in seen or len(f.params) < 2:
                continue
            seen.add(f)
            ctx.instance(R)
            p_ = f.params[1]
            bad = []
            for ev in E.events_on(f, p_):
                nd = ev.node
                # `metadata[key] = value` / metadata.update(...) / metadata.pop(...) act on the dictionary itself (a fresh shallow copy)
                if isinstance(nd, ast.Assign) and all(isinstance(t, ast.Subscript) and isinstance(t.value, ast.Name) and t.value.id == p_ for t in nd.targets):
                    continue
                if isinstance(nd, ast.Expr) and isinstance(nd.value, ast.Call) and isinstance(nd.value.func, ast.Attribute) and isinstance(nd.value.func.value, ast.Name) \
                        and nd.value.func.value.id == p_ and nd.value.func.attr in ("update", "pop", "setdefault", "clear"):
                    continue
                if isinstance(nd, ast.Call) and isinstance(nd.func, ast.Attribute) and isinstance(nd.func.value, ast.Name) and nd.func.value.id == p_ and nd.func.attr in ("update", "pop", "setdefault", "clear"):
                    continue
                bad.append(ev)
            ctx.ob(R, f.qname, f"{k.name}.correct_metadata does not write into the objects held by its `{p_}` argument", not bad,
                   "; ".join(str(e)[:140] for e in bad[:2]) + " -- these objects belong to the input image", bad[0].node if bad else f.node, evidence=True)
    ctx.floor(R, 3)


def rule_e(ctx):
    R = "C10.e"
    ctx.rule(R, "construction-time corrections run in order, in place: Image.__init__ iterates `transformations` in list order and calls "
             "each with overwrite=True on self")
    m = ctx.model
    ctx.consult(IMG)
    f = m.func(IMG, "Image.__init__")
    ctx.instance(R)
    loops = [l for l in ast.walk(f.node) if isinstance(l, ast.For) and norm(l.iter) == "transformations"]
    ok = False
    if len(loops) == 1:
        t = norm(loops[0].target)
        calls = [norm(c) for c in ast.walk(loops[0]) if isinstance(c, ast.Call) and norm(c.func) == t]
        ok = calls == [f"{t}(self, overwrite=True)"]
    ctx.ob(R, f.qname, "for t in transformations: t(self, overwrite=True)", ok, "", f.node)
    if len(loops) == 1:
        # every entry of the list is applied: the only tests on the way to the call ask whether the entry is callable at all; a test that reads
        # the entry's own state (an `active` flag, a configuration) makes construction differ from calling the correction, which decides itself
        t = norm(loops[0].target)
        tests = [n.test for n in ast.walk(loops[0]) if isinstance(n, (ast.If, ast.IfExp))] + [n.test for n in ast.walk(loops[0]) if isinstance(n, ast.While)]
        state_reads = []
        for tst in tests:
            for x in ast.walk(tst):
                if isinstance(x, ast.Attribute) and norm(x.value) == t:
                    state_reads.append(f"{t}.{x.attr}")
                elif isinstance(x, ast.Call) and norm(x.func) == "getattr" and x.args and norm(x.args[0]) == t and len(x.args) > 1:
                    state_reads.append(f"getattr({t}, {norm(x.args[1])})")
        ctx.ob(R, f.qname, "no entry of `transformations` is skipped because of its own state", not state_reads,
               f"a test inside the loop reads {sorted(set(state_reads))}: whether the correction runs at construction is decided by Image.__init__, not by the correction -- "
               "Image(arr, transformations=[c]) and c(Image(arr)) differ for such an entry (an inactive colour correction still converts the data type)", loops[0], evidence=True)
    ctx.floor(R, 1)


def rule_h(ctx):
    R = "C10.h"
    ctx.rule(R, "a correction is a function of its configuration and the array it is given: hidden-state analysis of every concrete correction with "
             "correct_array as entry -- whatever correct_array keeps on the object (index maps, warps) is keyed on everything it was computed from, so a "
             "second array of another shape / depth is not corrected with the maps of the first")
    from ..state import StateAnalysis

    EXEMPT = {"CurvatureCorrection": "the pre-computed pixel grid is the documented purpose of the cache (one object per camera set-up and image shape; C18.d treats it likewise)"}
    m = ctx.model
    base, subs = concrete_corrections(m)
    n = 0
    for k in subs:
        ca = m.method(k, "correct_array")
        if ca is None or ca.cls is base:
            continue
        if k.name in EXEMPT:
            ctx.note(f"{R}: {k.name} exempt: {EXEMPT[k.name]}")
            continue
        n += 1
        ctx.instance(R)
        sa = StateAnalysis(m, k, ["correct_array"])
        seen = set()
        for f, nd, a, kind, an, chain in sa.cross_call_reads():
            key = (f.qname, a, nd.text())
            if key in seen:
                continue
            seen.add(key)
            ok, why = sa.justify(f, nd, a, kind)
            ctx.ob(R, f.qname, f"{k.name}: read of self.{a} in `{nd.text()[:60]}` does not depend on earlier calls", ok,
                   f"{why}. What an earlier array left on the object is applied to this one", an, evidence=True)
        ctx.ob(R, k.qname, f"{k.name}: correct_array analysed for state kept between calls ({sorted(sa.call_written)})", True, "", k.node)
    ctx.floor(R, 8)


def run(ctx):
    ctx.guard(rule_h, ctx)
    E = Effects(ctx.model)
    f, img_b, sem = rule_a(ctx)
    ctx.guard(rule_b, ctx, E, f, img_b, sem)
    ctx.guard(rule_c, ctx, f, img_b, sem)
    ctx.guard(rule_d, ctx)
    ctx.guard(rule_e, ctx)
    ctx.guard(rule_f, ctx, E)
    ctx.guard(rule_g, ctx, E)
    # BaseCorrection.__call__ visits range(image.time_num) slices: the series clause rests on Image keeping time_num = number of slices
    from . import c02
    from .common import shared

    from . import c01 as _c01
    shared(ctx, "C10.d", _c01.rule_b, why="transformation-based corrections with neutral parameters return the input only if CoordinateSystem.coordinate / voxel are mutually inverse in every dimension")
    shared(ctx, "C10.c", c02.rule_c, why="the per-slice loop of the correction workflow runs over image.time_num")
    shared(ctx, "C10.c", c02.rule_d, why="the per-slice loop of the correction workflow runs over image.time_num")
