"""C02 -- extracted sub-images keep their data and placement (structural clauses)."""
from __future__ import annotations

import ast

from .. import cfg as C
from ..amatch import AM
from ..flow import expand, rename
from ..report import AnalysisError
from ..srcmodel import norm

LEVEL = "other"
IMG = "darsia.image.image"
ARI = "darsia.image.arithmetics"
IDX = "darsia.image.indexing"


def _gen_slice_form(value, selfname="self"):
    """Classify a definition of the voxel-slices tuple.

    Returns 'clipped' for tuple(slice(max(0, lo), min(hi, self.num_voxels[d])) for d in ...),
    'indices' for tuple(slice(*sl.indices(self.num_voxels[d])) for d, sl in enumerate(...)),
    None otherwise."""
    v = value
    if isinstance(v, ast.Call) and isinstance(v.func, ast.Name) and v.func.id == "tuple" and v.args:
        v = v.args[0]
    if not isinstance(v, (ast.GeneratorExp, ast.ListComp)):
        return None
    e = v.elt
    if not (isinstance(e, ast.Call) and isinstance(e.func, ast.Name) and e.func.id == "slice"):
        return None
    if len(e.args) == 1 and isinstance(e.args[0], ast.Starred):
        c = e.args[0].value
        if (isinstance(c, ast.Call) and isinstance(c.func, ast.Attribute) and c.func.attr == "indices" and len(c.args) == 1
                and norm(c.args[0]).startswith(f"{selfname}.num_voxels[")):
            return "indices"
        return None
    if len(e.args) == 2:
        lo, hi = e.args
        lo_ok = (isinstance(lo, ast.Call) and norm(lo.func) == "max" and any(isinstance(a, ast.Constant) and a.value == 0 for a in lo.args))
        hi_ok = (isinstance(hi, ast.Call) and norm(hi.func) == "min" and any(norm(a).startswith(f"{selfname}.num_voxels[") for a in hi.args))
        if lo_ok and hi_ok:
            return "clipped"
        # a re-definition that maps an existing selection element-wise (for sl in <tuple>) but whose bounds are not the element's own
        # start / stop: the requested block is altered after it was fixed
        gen = v.generators[0]
        tgt = [x.id for x in ast.walk(gen.target) if isinstance(x, ast.Name)]
        if tgt and any(isinstance(x, ast.Attribute) and x.attr in ("start", "stop") and isinstance(x.value, ast.Name) and x.value.id in tgt for x in ast.walk(e)):
            own = [f"{t}.start" for t in tgt] + [f"{t}.stop" for t in tgt]
            if not (norm(lo) in own and norm(hi) in own and norm(lo).endswith(".start") and norm(hi).endswith(".stop")):
                return "altered"
            return "identity"
    return None


def rule_ab(ctx):
    Ra, Rb = "C02.a", "C02.b"
    ctx.rule(Ra, "Image.subregion: every definition of the slice tuple that reaches the data subscript and the origin / "
             "opposite-voxel computations is bounded to the image extent (clip form max(0,.)/min(.,num_voxels) or "
             "slice.indices(num_voxels)); a raw caller-supplied slice must not reach them, because numpy clips and "
             "resolves negative bounds silently while the coordinate computation does not")
    ctx.rule(Rb, "one selection feeds data, origin and extent: the same definitions of the slice tuple reach self.img[...], "
             "origin_voxel and opposite_voxel; origin/opposite are coordinatesystem.coordinate of them; dimensions[m] is the "
             "|opposite-origin| component at interpret_indexing('ijk'[m], 'xyz'[:dim]).pos; the result is type(self)(img, "
             "**metadata()) with only dimensions and origin overridden")
    m = ctx.model
    ctx.consult(IMG)
    f = m.func(IMG, "Image.subregion")
    from . import c02sem

    cmp_ = c02sem.compare(f)
    ctx.stat("subregion_cases_folded", sum(1 for c in cmp_ if c[2] is True))
    if cmp_ and all(c[2] is True for c in cmp_):
        # decided on the folded method: for every kind of region argument, in 2 and 3 dimensions, the result term (data block, origin,
        # dimensions, metadata) has the normal form of the documented construction
        ctx.instance(Ra, 3)
        ctx.floor(Ra, 3)
        ctx.instance(Rb)
        ctx.floor(Rb, 1)
        for what in ("data self.img[...]", "origin voxel (.start)", "opposite voxel (.stop)"):
            ctx.ob(Ra, f.qname, f"{what}: the selection that reaches it is bounded to the image (slice.indices of the clipped box; folded for slices, open slices, "
                   "VoxelArray and CoordinateArray regions in 2 and 3 dimensions)", True, "", f.node)
        for what in ("the same selection feeds data, origin voxel and opposite voxel", "origin = coordinatesystem.coordinate(origin voxel)",
                     "opposite = coordinatesystem.coordinate(opposite voxel)", "dimensions[m] = extent[interpret_indexing('ijk'[m], 'xyz'[:dim]).pos] for m in range(space_dim)",
                     "result is type(self)(img=self.img[selection], **metadata()) with only dimensions and origin overridden"):
            ctx.ob(Rb, f.qname, what + " (folded; term equals the documented construction)", True, "", f.node)
        return
    # named contradiction on the folded terms: a box defined by points (VoxelArray / CoordinateArray) may lie partly outside the image; its
    # lower bound has to be clipped at 0 *before* slice.indices(), which resolves a negative bound from the end of the axis instead of clipping
    import re as _re
    for label, dim, eq, got in cmp_ or []:
        if eq is False and label in ("VoxelArray", "CoordinateArray") and isinstance(got, str):
            raw = _re.findall(r"slice_start\((?!max\(0, )(np\.min\([^()]*(?:\([^()]*\)[^()]*)*\))", got)
            if raw:
                ctx.ob(Ra, f.qname, f"subregion({label}) in {dim}d: the lower bound of the point-defined box is clipped at 0 before it is normalised", False,
                       f"`{raw[0][:60]}` reaches slice.indices() unclipped: for a box that overhangs the low-index side the negative bound is resolved from the end of the axis "
                       "(numpy semantics), the sub-image is empty or taken from the wrong place", f.node, evidence=True)
    if cmp_ and any(c[2] is True for c in cmp_) and not any(c[2] is False for c in cmp_):
        # part of the cases has the documented normal form, the rest leaves the folding language (e.g. a vectorised bounding box): the
        # method no longer has the statement shape the syntactic rules below read, so they are not applied; the undecided cases are reported
        ctx.instance(Ra, 3)
        ctx.floor(Ra, 3)
        ctx.instance(Rb)
        ctx.floor(Rb, 1)
        for label, dim, eq, why in cmp_:
            ctx.ob(Rb, f.qname, f"subregion({label}) in {dim}d: data block, origin, dimensions and metadata equal the documented construction (folded)", eq is True,
                   "" if eq is None else why[:200], f.node)
        return
    g = C.CFG(f.node)
    IN, _ = C.reaching_definitions(g, f.params)
    ctx.stat("cfg_nodes", len(g.nodes))
    # locate the uses
    data_node = None
    sel = None
    for n in g.nodes:
        if n.kind == "stmt":
            for s in ast.walk(n.stmt):
                if isinstance(s, ast.Subscript) and norm(s.value) == "self.img" and isinstance(s.slice, ast.Name):
                    data_node, sel = n, s.slice.id
    ctx.need(data_node is not None, "Image.subregion: data subscript self.img[<name>] not found")
    use_nodes = {"data self.img[...]": data_node}
    for n in g.nodes:
        if n.kind == "stmt" and isinstance(n.stmt, ast.Assign):
            for comp in ast.walk(n.stmt.value):
                if isinstance(comp, (ast.ListComp, ast.GeneratorExp)):
                    it = comp.generators[0].iter
                    names = {x.id for x in ast.walk(it) if isinstance(x, ast.Name)}
                    attrs = {x.attr for x in ast.walk(comp.elt) if isinstance(x, ast.Attribute)}
                    if sel in names and "start" in attrs:
                        use_nodes["origin voxel (.start)"] = n
                    if sel in names and "stop" in attrs:
                        use_nodes["opposite voxel (.stop)"] = n
    ctx.need(len(use_nodes) == 3, f"Image.subregion: origin/opposite voxel computations over `{sel}` not found ({sorted(use_nodes)})")
    ctx.instance(Ra, len(use_nodes))
    ctx.floor(Ra, 3)
    defsets = {}
    for label, n in use_nodes.items():
        ds = sorted(i for nme, i in IN.get(n.id, ()) if nme == sel)
        defsets[label] = ds
        for i in ds:
            dn = g.nodes[i]
            if dn.kind == "entry":
                form, text = "raw", f"parameter {sel}"
            elif isinstance(dn.stmt, (ast.Assign, ast.AnnAssign)):
                val = dn.stmt.value
                text = dn.text()[:90]
                if isinstance(val, ast.Constant) and val.value is None:
                    # infeasible here (the dispatch defines one of voxels/coordinates); a None selection
                    # cannot be sliced at all, so it can never yield a wrong result
                    continue
                if isinstance(val, ast.Name):
                    form = "raw"
                else:
                    form = _gen_slice_form(val)
                    if form is None:
                        raise AnalysisError(f"Image.subregion: definition `{text}` of the slice tuple is not a recognised form")
            else:
                raise AnalysisError(f"Image.subregion: unexpected definition of `{sel}` at {dn!r}")
            if form == "altered":
                ctx.ob(Ra, f.qname, f"{label}: the selection is not reshaped after it was fixed [{' '.join(text.split())[:60]}]", False,
                       "the bounds of the (already normalised) selection are replaced by other values: the extracted block is not the requested one", dn.stmt)
                continue
            ctx.ob(Ra, f.qname, f"{label}: reaching definition of the slice tuple is bounded [{' '.join(text.split())[:60]}]",
                   form in ("clipped", "indices", "identity"),
                   f"the caller's slices reach the {label} unnormalised (form {form}): a stop beyond the extent or a negative bound gives "
                   "dimensions/origin that disagree with the extracted block", dn.stmt if dn.stmt is not None else f.node,
                   path=[f"L{x.line}: {x.text()[:80]}" for x in (g.path(dn, n) or [])][:12])
    ctx.instance(Rb)
    ctx.floor(Rb, 1)
    same = len({tuple(v) for v in defsets.values()}) == 1
    ctx.ob(Rb, f.qname, "the same definitions of the selection reach data, origin voxel and opposite voxel", same, str(defsets), data_node.stmt)
    # origin / opposite via the coordinate system
    def through_coordinate(label):
        """The voxel list built over .start/.stop is the argument of self.coordinatesystem.coordinate (directly or through one local)."""
        st = use_nodes[label].stmt
        comp = next(c for c in ast.walk(st.value) if isinstance(c, (ast.ListComp, ast.GeneratorExp)))
        par = getattr(comp, "_parent", None)
        if isinstance(par, ast.Call) and norm(par.func) == "self.coordinatesystem.coordinate" and par.args and par.args[0] is comp:
            return True
        if st.value is comp and isinstance(st.targets[0], ast.Name):
            nm = st.targets[0].id
            calls = [c for c in ast.walk(f.node) if isinstance(c, ast.Call) and norm(c.func) == "self.coordinatesystem.coordinate" and [norm(a) for a in c.args] == [nm]]
            return len(calls) == 1
        return False
    ctx.ob(Rb, f.qname, "origin = coordinatesystem.coordinate(origin voxel)", through_coordinate("origin voxel (.start)"), "", f.node)
    ctx.ob(Rb, f.qname, "opposite = coordinatesystem.coordinate(opposite voxel)", through_coordinate("opposite voxel (.stop)"), "", f.node)
    # the start/stop comprehensions substitute the full extent for None only
    for label, attr, dflt in (("origin voxel (.start)", "start", "0"), ("opposite voxel (.stop)", "stop", "self.num_voxels[")):
        st = use_nodes[label].stmt
        comp = next(c for c in ast.walk(st.value) if isinstance(c, (ast.ListComp, ast.GeneratorExp)))
        e = comp.elt
        ok = (isinstance(e, ast.IfExp) and norm(e.test).endswith(f".{attr} is None") and norm(e.body).startswith(dflt) and norm(e.orelse).endswith(f".{attr}")) \
            or norm(e).endswith(f".{attr}")
        ctx.ob(Rb, f.qname, f"{label}: the slice's own {attr} (full extent when None)", ok, norm(e), st)
    if True:
        # Cartesian extent: the one |a - b| whose operands expand to coordinate(stop voxels) and coordinate(start voxels)
        def expanded(label):
            st = use_nodes[label].stmt
            comp = next(c for c in ast.walk(st.value) if isinstance(c, (ast.ListComp, ast.GeneratorExp)))
            return f"self.coordinatesystem.coordinate({norm(expand(f.node, comp))})"
        eo, ep = expanded("origin voxel (.start)"), expanded("opposite voxel (.stop)")
        cd = []
        for s_ in ast.walk(f.node):
            if isinstance(s_, ast.Assign) and len(s_.targets) == 1 and isinstance(s_.targets[0], ast.Name) and isinstance(s_.value, ast.Call) \
                    and norm(s_.value.func) in ("np.absolute", "np.abs") and len(s_.value.args) == 1 and isinstance(s_.value.args[0], ast.BinOp) and isinstance(s_.value.args[0].op, ast.Sub):
                l, r = norm(expand(f.node, s_.value.args[0].left)), norm(expand(f.node, s_.value.args[0].right))
                if {l, r} == {eo, ep}:
                    cd.append(s_.targets[0].id)
        # what is stored as 'dimensions' is evaluated symbolically per dimension: the extent |opposite - origin| (wherever it is named or
        # written in place) is replaced by a symbolic Cartesian vector [E0, E1, E2]; the result must be that vector in matrix order
        from ..fold import Folder, Raised, Refuse
        from ..algebra import Poly
        from . import c20

        T_i, _, _ = c20.extract_tables(ctx)
        ext_forms = {f"np.abs({ep} - {eo})", f"np.abs({eo} - {ep})"}

        class ExtSub(ast.NodeTransformer):
            hits = 0

            def generic_visit(self, n):
                if isinstance(n, ast.expr) and not isinstance(n, (ast.Constant,)):
                    try:
                        if norm(expand(f.node, n)) in ext_forms:
                            ExtSub.hits += 1
                            return ast.copy_location(ast.Name(id="__EXT__", ctx=ast.Load()), n)
                    except Exception:
                        pass
                return super().generic_visit(n)

        dstores = [n for n in ast.walk(f.node) if isinstance(n, ast.Assign) and isinstance(n.targets[0], ast.Subscript) and isinstance(n.targets[0].slice, ast.Constant)
                   and n.targets[0].slice.value == "dimensions"]
        verdicts, why = [], ""
        if len(dstores) == 1:
            dval = dstores[0].value
            # statements that build the stored value when it is a local: its assignments and the loops that append to it
            builders = []
            if isinstance(dval, ast.Name):
                for st in f.node.body:
                    touches = any((isinstance(x, ast.Name) and x.id == dval.id and isinstance(x.ctx, ast.Store)) or
                                  (isinstance(x, ast.Call) and isinstance(x.func, ast.Attribute) and x.func.attr in ("append", "extend", "insert") and norm(x.func.value) == dval.id)
                                  for x in ast.walk(st))
                    if touches:
                        builders.append(st)
            # plus the definitions of the locals those statements read (dependency closure over the top-level statements, in program order)
            changed = True
            while changed:
                changed = False
                have = {id(b) for b in builders}
                from ..flow import clone as _cl

                needed = {x.id for st in builders + [dval] for x in ast.walk(ExtSub().visit(_cl(st))) if isinstance(x, ast.Name) and isinstance(x.ctx, ast.Load)} - {"self", "np", "darsia", "__EXT__"}
                for st in f.node.body:
                    if id(st) in have or not isinstance(st, (ast.Assign, ast.AnnAssign, ast.AugAssign, ast.For)):
                        continue
                    stored = {x.id for x in ast.walk(st) if isinstance(x, ast.Name) and isinstance(x.ctx, ast.Store)}
                    if stored & needed and not (isinstance(st, ast.Assign) and norm(expand(f.node, st.value)) in ext_forms):
                        builders.append(st)
                        changed = True
                builders.sort(key=lambda st: st.lineno)
            for d in (1, 2, 3):
                ExtSub.hits = 0
                from ..flow import clone

                stmts = [ExtSub().visit(clone(st)) for st in builders]
                expr = ExtSub().visit(clone(dval))
                for x in stmts + [expr]:
                    ast.fix_missing_locations(x)
                if ExtSub.hits == 0:
                    why = "the extent |opposite - origin| does not flow into what is stored as 'dimensions'"
                    verdicts.append(None)
                    continue
                fo = Folder()
                fo.func_stack.append(f.node)
                from ..fold import Obj

                env = {"self": Obj("self", {"space_dim": d, "indexing": "ijk"[:d]}), "__EXT__": [Poly.atom(f"E{c}") for c in range(d)]}
                try:
                    for st in stmts:
                        fo.stmt(st, env)
                    got = fo.ev(expr, env)
                    got = list(got.data) if hasattr(got, "data") else list(got)
                    want = [Poly.atom(f"E{T_i[('ijk'[m_], 'xyz'[:d])][1][0]}") for m_ in range(d)]
                    verdicts.append(got == want)
                    if got != want:
                        why = f"dim {d}: 'dimensions' = {got!r}, the axis table prescribes {want!r} (matrix axis m takes the extent of its own Cartesian axis)"
                except (Refuse, Raised, TypeError, ValueError) as e:
                    verdicts.append(None)
                    why = f"computation of 'dimensions' not found to be foldable: {e}"
        if verdicts and all(v is True for v in verdicts):
            ctx.ob(Rb, f.qname, "dimensions[m] = extent[interpret_indexing('ijk'[m], 'xyz'[:dim]).pos] for m in range(space_dim)", True, "", f.node)
        elif any(v is False for v in verdicts):
            ctx.ob(Rb, f.qname, "dimensions[m] = extent[interpret_indexing('ijk'[m], 'xyz'[:dim]).pos] for m in range(space_dim)", False, why, dstores[0], evidence=True)
        else:
            ctx.ob(Rb, f.qname, "dimensions[m] = extent[interpret_indexing('ijk'[m], 'xyz'[:dim]).pos] for m in range(space_dim)", False, why or "store of metadata['dimensions'] not found", f.node)
    # result construction
    rets = [n for n in ast.walk(f.node) if isinstance(n, ast.Return) and n.value is not None]
    ctx.need(len(rets) == 1, "Image.subregion: expected a single return")
    r = rets[0].value
    am = AM(f)
    ok_meta = am.has(f.node, "metadata = self.metadata()") is not None
    ok = ok_meta and am.eq(r, "type(self)(img=img, **metadata)")
    ctx.ob(Rb, f.qname, "result is type(self)(img=<extracted block>, **metadata)", ok, norm(r), rets[0])
    mname = am.actual("metadata") or "metadata"
    over = sorted(n.targets[0].slice.value for n in ast.walk(f.node) if isinstance(n, ast.Assign) and isinstance(n.targets[0], ast.Subscript)
                  and norm(n.targets[0].value) == mname and isinstance(n.targets[0].slice, ast.Constant))
    ctx.ob(Rb, f.qname, "only 'dimensions' and 'origin' are overridden in the metadata", over == ["dimensions", "origin"], str(over), f.node)
    ctx.ob(Rb, f.qname, "metadata is the parent's metadata()", ok_meta, "", f.node)


def _time_split(node):
    """For an If / IfExp on <X>.scalar whose branches subscript <Y>.img[..., ...]: (scalar_sub, vector_sub)."""
    test = node.test
    neg = False
    if isinstance(test, ast.UnaryOp) and isinstance(test.op, ast.Not):
        test, neg = test.operand, True
    if not (isinstance(test, ast.Attribute) and test.attr == "scalar"):
        return None
    def subs(part):
        out = []
        nodes = part if isinstance(part, list) else [part]
        for p in nodes:
            for s in ast.walk(p):
                if (isinstance(s, ast.Subscript) and isinstance(s.value, ast.Attribute) and s.value.attr == "img"
                        and isinstance(s.slice, ast.Tuple) and s.slice.elts and isinstance(s.slice.elts[0], ast.Constant) and s.slice.elts[0].value is Ellipsis):
                    out.append(s)
        return out
    a, b = subs(node.body), subs(node.orelse)
    if neg:
        a, b = b, a
    def is_time(s):
        return len(s.slice.elts) > 1 and norm(s.slice.elts[1]) not in ("np.newaxis", "None")
    a, b = [s for s in a if is_time(s)], [s for s in b if is_time(s)]
    if not a or not b:
        return None  # not a two-sided time-axis split (the floor guards against sites disappearing)
    return a, b


def rule_c(ctx):
    R = "C02.c"
    ctx.rule(R, "time-axis idiom, package-wide: wherever a branch on <image>.scalar addresses the time axis, the scalar "
             "branch subscripts img[..., t] and the vector branch img[..., t, :] with the same t; in time_slice / "
             "time_interval the same t also indexes self.date and self.time; re-stacking uses axis=space_dim")
    m = ctx.model
    n_sites = 0
    for f in m.all_funcs():
        for node in ast.walk(f.node):
            if isinstance(node, (ast.If, ast.IfExp)):
                sp = _time_split(node)
                if sp is None:
                    continue
                a, b = sp
                n_sites += 1
                ctx.instance(R)
                ctx.consult(f.module.name)
                okA = all(len(s.slice.elts) == 2 for s in a) and len(a) >= 1
                okB = all(len(s.slice.elts) == 3 and isinstance(s.slice.elts[2], ast.Slice) and s.slice.elts[2].lower is None
                          and s.slice.elts[2].upper is None for s in b) and len(b) >= 1
                ta = {norm(s.slice.elts[1]) for s in a}
                tb = {norm(s.slice.elts[1]) for s in b if len(s.slice.elts) > 1}
                key = f"scalar-split #{n_sites - sum(1 for _ in [])}"
                site = f"{norm(node.test)} split on {sorted(ta | tb)}"
                ctx.ob(R, f.qname, f"{site}: scalar branch uses img[..., t]", okA, str([norm(s) for s in a]), node)
                ctx.ob(R, f.qname, f"{site}: vector branch uses img[..., t, :]", okB, str([norm(s) for s in b]), node)
                ctx.ob(R, f.qname, f"{site}: both branches address the same time index", ta == tb and len(ta) == 1, f"{ta} vs {tb}", node)
    # six sites were confirmed by hand on the pinned tree; the floor leaves room for two of them to be rewritten without the idiom (a helper
    # that builds the index tuple), which is then judged by the folds of the functions concerned
    ctx.floor(R, 4)
    ctx.stat("time_axis_split_sites", n_sites)
    # time_slice / time_interval: same index for data, date, time
    for name in ("Image.time_slice", "Image.time_interval"):
        f = m.func(IMG, name)
        tparam = f.params[1]
        idx = {"img": set(), "date": set(), "time": set()}
        for s in ast.walk(f.node):
            if isinstance(s, ast.Subscript) and isinstance(s.value, ast.Attribute) and norm(s.value.value) == "self" and s.value.attr in idx:
                sl = s.slice
                if s.value.attr == "img":
                    if isinstance(sl, ast.Tuple) and len(sl.elts) >= 2:
                        idx["img"].add(norm(sl.elts[1]))
                else:
                    idx[s.value.attr].add(norm(sl))
        ctx.ob(R, f.qname, "data, date and time are indexed by the method's own time argument",
               idx["img"] == {tparam} and idx["date"] == {tparam} and idx["time"] == {tparam}, str(idx), f.node)
        rets = [n for n in ast.walk(f.node) if isinstance(n, ast.Return) and n.value is not None]
        ok = all(isinstance(r.value, ast.Call) and norm(r.value.func) == "type(self)" for r in rets) and rets
        ctx.ob(R, f.qname, "result is type(self)(img=..., **metadata)", bool(ok), "", f.node)
    ts = m.func(IMG, "Image.time_slice")
    am = AM(ts)
    ok = am.has(ts.node, "metadata = self.metadata()") is not None and am.has(ts.node, "metadata['series'] = False") is not None
    ctx.ob(R, ts.qname, "time_slice marks the result as a single image (series=False)", ok, str(am.show()), ts.node)
    # re-stacking on the time axis
    n_stack = 0
    for f in m.all_funcs():
        for c in ast.walk(f.node):
            if isinstance(c, ast.Call) and norm(c.func) == "np.stack":
                ax = next((norm(k.value) for k in c.keywords if k.arg == "axis"), None)
                if ax is None:
                    continue
                if ax.endswith("space_dim"):
                    n_stack += 1
    ctx.stat("np.stack_on_time_axis", n_stack)


def rule_d(ctx):
    R = "C02.d"
    ctx.rule(R, "append keeps order: data slices are slices(self) + slices(image); dates and relative times are "
             "concatenated self first; time_num grows by image.time_num; the stack axis is space_dim; "
             "stack() folds append over the list in index order starting from the first image")
    m = ctx.model
    f = m.func(IMG, "Image.append")
    other = f.params[1]
    ctx.instance(R)
    # absence of a time / an offset is `None`, never falsiness: 0 and 0.0 are legitimate relative times and offsets
    def truth_operands(fn):
        out = []
        for x in ast.walk(fn.node):
            tests = []
            if isinstance(x, (ast.If, ast.IfExp, ast.While)):
                tests.append(x.test)
            elif isinstance(x, ast.BoolOp):
                tests.extend(x.values)
            elif isinstance(x, ast.UnaryOp) and isinstance(x.op, ast.Not):
                tests.append(x.operand)
            elif isinstance(x, ast.Return) and x.value is not None and fn.name.startswith(("_is_", "is_")):
                tests.append(x.value)
            for t in tests:
                while isinstance(t, ast.UnaryOp) and isinstance(t.op, ast.Not):
                    t = t.operand
                out.append(t)
        return out
    opt = [p_ for p_ in f.params[2:] if p_ == "offset"]
    for t in truth_operands(f):
        if isinstance(t, ast.Name) and t.id in opt:
            ctx.ob(R, f.qname, f"the optional `{t.id}` is tested with `is None`", False, f"`{t.id}` is used as a truth value: an offset of 0 is treated as 'no offset given' and the relative times are dropped", t, evidence=True)
    isn = m.mod(IMG).classes["Image"].methods.get("_is_none")
    if isn is not None:
        prm = isn.params[-1]
        bad = [t for t in truth_operands(isn) if (isinstance(t, ast.Name) and t.id == prm) or
               (isinstance(t, ast.Call) and norm(t.func) in ("all", "any", "bool") and any(isinstance(x, ast.Name) and x.id == prm for x in ast.walk(t)))]
        ctx.ob(R, isn.qname, "_is_none decides by comparison with None only (a time of 0 is a time)", not bad,
               f"`{norm(bad[0])[:60]}` is a truth-value test: a list of times that contains 0 counts as 'no time'" if bad else "", bad[0] if bad else isn.node, evidence=True)
    # slices
    st = [n for n in ast.walk(f.node) if isinstance(n, ast.Call) and norm(n.func) == "np.stack"]
    stacked = expand(f.node, st[0].args[0]) if len(st) == 1 and st[0].args else None
    ok = isinstance(stacked, ast.BinOp) and isinstance(stacked.op, ast.Add) and isinstance(stacked.left, ast.Call) and isinstance(stacked.right, ast.Call) \
        and [norm(a) for a in stacked.left.args] == ["self"] and [norm(a) for a in stacked.right.args] == [other] and norm(stacked.left.func) == norm(stacked.right.func)
    ctx.ob(R, f.qname, "data slices: slice_image(self) + slice_image(image) is what is stacked", ok, norm(stacked)[:120] if stacked is not None else "", f.node)
    st = [n for n in ast.walk(f.node) if isinstance(n, ast.Call) and norm(n.func) == "np.stack"]
    ctx.ob(R, f.qname, "stacked on axis=self.space_dim", len(st) == 1 and any(k.arg == "axis" and norm(k.value) == "self.space_dim" for k in st[0].keywords),
           str([norm(s) for s in st]), f.node)
    # what is stored is the stack itself: a conversion to the dtype the series had before (self.dtype / self.img.dtype / original_dtype) is a
    # named contradiction -- appended data that does not fit (float into uint8, float64 into float32) no longer equals the original slice
    for asg in ast.walk(f.node):
        if isinstance(asg, ast.Assign) and any(norm(t) == "self.img" for t in asg.targets):
            v = expand(f.node, asg.value)
            casts = [c for c in ast.walk(v) if isinstance(c, ast.Call) and ((isinstance(c.func, ast.Attribute) and c.func.attr == "astype" and c.args) or any(k.arg == "dtype" for k in c.keywords))]
            own = []
            for c in casts:
                tgt = c.args[0] if isinstance(c.func, ast.Attribute) and c.func.attr == "astype" and c.args else next(k.value for k in c.keywords if k.arg == "dtype")
                if norm(tgt) in ("self.dtype", "self.img.dtype", "self.original_dtype") or norm(tgt).startswith("self.img.dtype"):
                    own.append(norm(c)[:90])
            if any(isinstance(c, ast.Call) and norm(c.func) == "np.stack" for c in ast.walk(v)):
                ctx.ob(R, f.qname, "the stack of slices is stored as it is (numpy's common dtype of the slices)", not own,
                       f"`{own[0] if own else ''}` converts the stacked slices to the dtype of the series so far: appended data that does not fit that dtype is truncated or rounded, "
                       "so slicing the series no longer returns the image that was appended", asg, evidence=True)
    # the same contradiction with a pre-allocated array: what becomes self.img is allocated with the dtype of the series so far and the new
    # slices are stored into it
    for asg in ast.walk(f.node):
        if isinstance(asg, ast.Assign) and any(norm(t) == "self.img" for t in asg.targets) and isinstance(asg.value, ast.Name):
            for d_ in ast.walk(f.node):
                if isinstance(d_, ast.Assign) and any(isinstance(t, ast.Name) and t.id == asg.value.id for t in d_.targets) and isinstance(d_.value, ast.Call) \
                        and norm(d_.value.func) in ("np.empty", "np.zeros", "np.full", "np.ones", "np.empty_like", "np.zeros_like"):
                    dt = next((expand(f.node, k.value) for k in d_.value.keywords if k.arg == "dtype"), None)
                    like_self = norm(d_.value.func).endswith("_like") and d_.value.args and "self." in norm(expand(f.node, d_.value.args[0]))
                    own = (dt is not None and "self." in norm(dt) and "dtype" in norm(dt)) or (like_self and dt is None)
                    ctx.ob(R, f.qname, "the array that receives the appended slices has numpy's common dtype of all slices", not own,
                           f"`{norm(d_)[:100]}` allocates the extended series with the dtype of the series so far: slices of another dtype are cast on the store "
                           "(float data appended to an integer series is truncated), so slicing the series no longer returns the image that was appended", d_, evidence=True)
    texts = [norm(n) for n in ast.walk(f.node) if isinstance(n, (ast.Assign, ast.AugAssign, ast.Expr))]
    ctx.ob(R, f.qname, "dates: self first, then image", f"self.date = self.date + {other}.date" in texts and f"self.date.append({other}.date)" in texts
           or any(t.startswith("self.date = ") and t.index("self.date", 11) < t.index(f"{other}.date") for t in texts if f"{other}.date" in t and t.count("self.date") > 1),
           str([t for t in texts if "date" in t][:6]), f.node)
    # the time / date bookkeeping is folded symbolically (statements outside the folding language are skipped): for list- and scalar-valued
    # times of the appended image, set_time must receive self's times followed by the image's times plus offset, and the lists that self
    # held before (which derived images may share) must not have been modified in place
    from ..fold import Folder, Obj, Opaque, Raised, Refuse

    for case in ("list", "scalar"):
        T = [Opaque("t", "T0"), Opaque("t", "T1")]
        D = [Opaque("d", "D0"), Opaque("d", "D1")]
        me = Obj("self", {"time": T, "date": D, "time_num": 2, "time_dim": 1, "series": True})
        oth = Obj("image", {"time": [Opaque("t", "U0"), Opaque("t", "U1")] if case == "list" else Opaque("float", "U"),
                            "date": [Opaque("d", "E0"), Opaque("d", "E1")] if case == "list" else Opaque("d", "E"), "time_num": 2 if case == "list" else 1})
        fo = Folder(symbolic=True)
        fo.func_stack.append(f.node)
        env = {f.params[0]: me, other: oth}
        if len(f.params) > 2:
            env[f.params[2]] = Opaque("float", "OFF")
        for st_ in f.node.body:
            try:
                fo.stmt(st_, env)
            except (Refuse, Raised):
                pass
        calls = [repr(t) for t in fo.trace if repr(t).startswith("self.set_time(")]
        us = ["U0", "U1"] if case == "list" else ["U"]
        tag = "t" if case == "list" else "float"
        want = "self.set_time([<opaque t T0>, <opaque t T1>, " + ", ".join(f"+(<opaque {tag} {u}>, <opaque float OFF>)" for u in us) + "])"
        if not calls:
            ctx.ob(R, f.qname, f"relative times ({case}-valued image.time): self's times first, image's (plus offset) appended, and that list is what is stored", False, "call self.set_time(<times>) not found by the symbolic fold", f.node)
        else:
            ctx.ob(R, f.qname, f"relative times ({case}-valued image.time): self's times first, image's (plus offset) appended, and that list is what is stored", calls == [want],
                   f"set_time receives {calls}", f.node, evidence=True)
        ctx.ob(R, f.qname, f"({case}) the time list self held before is not modified in place", me.fields.get("time") is T and len(T) == 2 or (me.fields.get("time") is not T and len(T) == 2),
               f"the list object of self.time now holds {T!r}: every image sharing it (sub-images get the same list through metadata()) sees the appended entries", f.node, evidence=True)
        ctx.ob(R, f.qname, f"({case}) the date list self held before is not modified in place", len(D) == 2,
               f"the list object of self.date now holds {D!r}", f.node, evidence=True)
    tn = [n for n in ast.walk(f.node) if isinstance(n, (ast.Assign, ast.AugAssign)) and any(norm(t) == "self.time_num" for t in (n.targets if isinstance(n, ast.Assign) else [n.target]))]
    tn_ok = [norm(n) for n in tn] in ([f"self.time_num += {other}.time_num"], [f"self.time_num = self.time_num + {other}.time_num"], [f"self.time_num = {other}.time_num + self.time_num"])
    ctx.ob(R, f.qname, "time_num grows by image.time_num", tn_ok, f"time_num is updated by {[norm(n) for n in tn]}" if tn else "update of self.time_num not found", f.node, evidence=bool(tn))
    ctx.ob(R, f.qname, "the result is a series", "self.series = True" in texts, "", f.node)
    # the inner slicing helper lists time slices in increasing order
    helper = [n for n in ast.walk(f.node) if isinstance(n, ast.FunctionDef) and n is not f.node]
    ok = False
    for h in helper:
        for lc in ast.walk(h):
            if isinstance(lc, ast.ListComp) and norm(lc.generators[0].iter).startswith("range(") and norm(lc.generators[0].iter).endswith(".time_num)"):
                ok = True
    ctx.ob(R, f.qname, "time slices are listed for i in range(time_num)", ok, "", f.node)
    s = m.func(ARI, "stack")
    ctx.consult(ARI)
    ctx.instance(R)
    p = s.params[0]
    loops = [n for n in ast.walk(s.node) if isinstance(n, ast.For)]
    ok = False
    if len(loops) == 1 and isinstance(loops[0].target, ast.Name):
        k = loops[0].target.id
        it = norm(loops[0].iter)
        body = [norm(b) for b in loops[0].body]
        ok = it == f"range(1, len({p}))" and len(body) == 1 and body[0].endswith(f".append({p}[{k}])")
    first = [norm(n.value) for n in ast.walk(s.node) if isinstance(n, ast.Assign)]
    ctx.ob(R, s.qname, "stack appends images[1:], in index order, to (a copy of) images[0]", ok and any(v.startswith(f"{p}[0]") for v in first),
           f"loop {[norm(l.iter) for l in loops]} init {first}", s.node)
    ctx.floor(R, 2)


def run(ctx):
    ctx.guard(rule_ab, ctx)
    ctx.guard(rule_c, ctx)
    ctx.guard(rule_d, ctx)
    # a physical box is turned into a voxel box by CoordinateSystem.voxel / coordinate: the placement clauses rest on those maps
    from . import c01
    from .common import shared

    shared(ctx, "C02.b", c01.rule_a, why="the extents of a sub-image are carried from Cartesian to matrix order through interpret_indexing: the table must be a signed bijection whose 'xyz' rows invert its 'ijk' rows")
    shared(ctx, "C02.b", c01.rule_b, why="subregion(CoordinateArray) and the sub-image's origin go through CoordinateSystem.voxel / coordinate")
    ctx.guard(shared, ctx, "C02.b", c01.rule_d, why="origin and opposite corner of a sub-image are built by the point factories and the voxel conversions: no truncation toward zero, no rounding of coordinates on the way")
