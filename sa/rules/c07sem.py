"""Symbolic model of Grid._setup for C07: the method is folded once per space dimension (1, 2, 3) with a symbolic shape; the
resulting attribute terms and the recorded array stores are compared -- in normal form (sa.terms.nf) -- with the terms obtained by
folding the *documented* construction below in the same way.  Equal normal forms mean equal values for every shape; unequal
normal forms mean nothing (the syntactic rules of c07.py then give their own verdict)."""
from __future__ import annotations

import ast

from ..fold import Arr, Folder, Obj, Opaque, Raised, Refuse, Sym, escapes
from ..terms import nf

# the documented numbering, bottom-up from shape and dim
NUMBERING = """
self.num_cells = np.prod(self.shape)
self.cell_index = np.arange(self.num_cells, dtype=int).reshape(self.shape, order='F')
self.faces_shape = [np.array(self.shape) - np.eye(self.dim, dtype=int)[d] for d in range(self.dim)]
self.num_faces_per_axis = [np.prod(s) for s in self.faces_shape]
self.num_faces = np.sum(self.num_faces_per_axis)
self.faces = [sum(self.num_faces_per_axis[:d]) + np.arange(self.num_faces_per_axis[d], dtype=int) for d in range(self.dim)]
self.face_index = [self.faces[d].reshape(self.faces_shape[d], order='F') for d in range(self.dim)]
self.interior_faces = [np.ravel(self.face_index[d][tuple(slice(None) if k == d else slice(1, -1) for k in range(self.dim))], 'F') for d in range(self.dim)]
self.exterior_faces = [np.sort(np.array(list(set(self.faces[d]) - set(self.interior_faces[d])))) for d in range(self.dim)]
"""

# the property leaves the slice on the normal axis open (the outer layer of every *other* axis must be excluded): second admissible form
NUMBERING_B = NUMBERING.replace("slice(None) if k == d else slice(1, -1)", "slice(1, -1)")

# the documented connectivity, given the numbering
CONNECTIVITY = """
self.connectivity = np.zeros((self.num_faces, 2), dtype=int)
self.reverse_connectivity = -np.ones((self.dim, self.num_cells, 2), dtype=int)
for d in range(self.dim):
    self.connectivity[self.faces[d], 0] = np.ravel(self.cell_index[(slice(None),) * d + (slice(None, -1),)], 'F')
    self.connectivity[self.faces[d], 1] = np.ravel(self.cell_index[(slice(None),) * d + (slice(1, None),)], 'F')
    self.reverse_connectivity[d, np.ravel(self.cell_index[(slice(None),) * d + (slice(1, None),)], 'F'), 0] = self.faces[d]
    self.reverse_connectivity[d, np.ravel(self.cell_index[(slice(None),) * d + (slice(None, -1),)], 'F'), 1] = self.faces[d]
"""

CORNER_TABLE = "self.cell_corner_indices = np.zeros((self.num_faces, 2, 2 ** (self.dim - 1)), dtype=int)"


class Run:
    def __init__(self, so, trace):
        self.so, self.trace = so, trace

    def field(self, name):
        return self.so.fields.get(name)

    def stores(self, container):
        """nf of every recorded store into the given container object (identity), as (index, value) pairs."""
        out = []
        for t in self.trace:
            if isinstance(t, Sym) and t.fn == "setitem" and t.args[0] is container:
                out.append(t)
        return out


def _fresh(dim):
    return Obj("self", {"__class__": "Grid", "dim": dim, "shape": Opaque("tuple", "SHAPE"), "voxel_size": Opaque("arr", "VS")})


def fold_setup(f, dim):
    fo = Folder(symbolic=True)
    fo.func_stack.append(f.node)
    fo.fold_all_methods = True
    so = _fresh(dim)
    try:
        fo.call(f.node, [so])
    except (Refuse, Raised):
        return None
    return Run(so, fo.trace)


def fold_reference(src, dim, base=None):
    """Fold documented construction `src` on a fresh object (or on a copy of the attributes of `base`)."""
    so = _fresh(dim)
    if base is not None:
        so.fields.update(base.fields)
    fo = Folder(symbolic=True)
    fo.block(ast.parse(src).body, {"self": so})
    return Run(so, fo.trace)


class GridModel:
    """Folds of Grid._setup and of the documented construction for dim 1, 2, 3 (None when any fold leaves the folding language)."""

    def __init__(self, f):
        self.actual, self.numbering, self.numbering_b, self.connect = {}, {}, {}, {}
        self.ok = True
        for dim in (1, 2, 3):
            a = fold_setup(f, dim)
            if a is None:
                self.ok = False
                return
            self.actual[dim] = a
            try:
                self.numbering[dim] = fold_reference(NUMBERING, dim)
                self.numbering_b[dim] = fold_reference(NUMBERING_B, dim)
                self.connect[dim] = fold_reference(CONNECTIVITY + CORNER_TABLE, dim, base=a.so)
            except (Refuse, Raised) as e:  # the documented construction itself must fold: otherwise the engine is broken
                raise RuntimeError(f"C07 reference construction does not fold: {e}")

    def same_field(self, name, ref="numbering"):
        """True when the attribute has the documented term for every dimension; (False, dim, actual, wanted) otherwise."""
        for dim in (1, 2, 3):
            a = self.actual[dim].field(name)
            refs = [getattr(self, ref)[dim].field(name)] + ([self.numbering_b[dim].field(name)] if ref == "numbering" else [])
            if a is None or nf(a) not in [nf(r) for r in refs]:
                return (False, dim, nf(a) if a is not None else "<unset>", nf(refs[0]))
        return (True,)

    def same_stores(self, name):
        """The stores into attribute `name` are, as a set, the documented ones, for every dimension."""
        for dim in (1, 2, 3):
            a, r = self.actual[dim], self.connect[dim]
            ca, cr = a.field(name), r.field(name)
            if ca is None:
                return (False, dim, "<unset>", "")
            if escapes(a.trace, ca):
                return (False, dim, "the table is handed to a call that was not folded", "")
            sa = sorted((nf(t.args[1]), nf(t.args[2])) for t in a.stores(ca))
            sr = sorted((nf(t.args[1]), nf(t.args[2])) for t in r.stores(cr))
            if sa != sr:
                extra = [x for x in sa if x not in sr]
                missing = [x for x in sr if x not in sa]
                return (False, dim, f"not documented: {extra[:2]}", f"missing: {missing[:2]}")
            if len(sa) != len({s[0] for s in sa}):
                return (False, dim, "one index is stored more than once", "")
        return (True,)

    def corner_tables(self):
        """({dim: corners}, {(dim, d, side): {n: corner}}) read off the folded object: cell_corners and every store into
        cell_corner_indices, with array-valued stores spread over the trailing axes.  None when a store has another form."""
        corners, stores = {}, {}
        for dim in (1, 2, 3):
            a = self.actual[dim]
            cc = a.field("cell_corners")
            if not isinstance(cc, Arr):
                return None
            try:
                corners[dim] = [[int(x) for x in row] for row in cc.data]
            except (TypeError, ValueError):
                return None
            faces = a.field("faces")
            table = a.field("cell_corner_indices")
            if not isinstance(faces, list) or table is None:
                return None
            fnf = [nf(x) for x in faces]
            for t in a.stores(table):
                idx, val = t.args[1], t.args[2]
                idx = idx if isinstance(idx, tuple) else (idx,)
                if not idx or nf(idx[0]) not in fnf or not all(isinstance(i, int) and not isinstance(i, bool) for i in idx[1:]) or len(idx) > 3:
                    return None
                if fnf.count(nf(idx[0])) != 1:
                    return None
                d = fnf.index(nf(idx[0]))
                v = val.data if isinstance(val, Arr) else val

                def spread(prefix, v):
                    if len(prefix) == 2:
                        if isinstance(v, bool) or not isinstance(v, int):
                            if hasattr(v, "denominator") and v.denominator == 1:
                                v = int(v)
                            else:
                                raise ValueError
                        stores.setdefault((dim, d, prefix[0]), {})[prefix[1]] = v
                        return
                    if not isinstance(v, list):
                        raise ValueError
                    for i, x in enumerate(v):
                        spread(prefix + (i,), x)
                try:
                    spread(tuple(idx[1:]), v)
                except ValueError:
                    return None
        return corners, stores
