"""C04 -- Wasserstein solvers: consistent results and honest status (structural clauses)."""
from __future__ import annotations

import ast

from .. import cfg as C
from ..flow import expand
from ..report import AnalysisError
from ..srcmodel import norm

LEVEL = "other"
WAS = "darsia.measure.wasserstein"
SOLVERS = ("WassersteinDistanceNewton", "WassersteinDistanceBregman")


# ---- helpers --------------------------------------------------------------------------------

def find_iteration(cfg):
    """(loop head, try stmt, handler nodes, handler break nodes, criterion break nodes)."""
    for n in cfg.nodes:
        if n.kind != "for":
            continue
        tries = [s for s in n.stmt.body if isinstance(s, ast.Try)]
        if len(tries) != 1:
            continue
        tr = tries[0]
        hs = [h for h in tr.handlers if h.type is None or (isinstance(h.type, ast.Name) and h.type.id in C.CATCH_ALL)]
        if not hs:
            continue
        hbreaks, cbreaks = [], []
        for x in cfg.nodes:
            if x.kind != "break":
                continue
            chain = []
            cur = x.stmt
            while cur is not None:
                par = getattr(cur, "_parent", None)
                chain.append((par, cur))
                if isinstance(par, (ast.For, ast.While)):
                    break
                cur = par
            if not chain or chain[-1][0] is not n.stmt:
                continue  # break of another loop
            in_handler = any(isinstance(par, ast.ExceptHandler) and par in tr.handlers for par, _ in chain)
            in_body = any(par is tr and child in tr.body for par, child in chain)
            if in_handler:
                hbreaks.append(x)
            elif in_body:
                cbreaks.append(x)
        hnodes = [x for x in cfg.nodes if x.kind == "handler" and x.stmt in tr.handlers]
        return n, tr, hnodes, hbreaks, cbreaks
    return None


def propagate_from(cfg, start, init, transfer, join):
    """Forward dataflow from `start` with state `init` (state *after* start)."""
    from collections import deque

    IN = {}
    work = deque()
    for s, lab in start.succ:
        IN[s.id] = init
        work.append(s)
    while work:
        n = work.popleft()
        out = transfer(n, IN[n.id])
        for s, lab in n.succ:
            old = IN.get(s.id)
            new = out if old is None else join(old, out)
            if old is None or new != old:
                IN[s.id] = new
                work.append(s)
    return IN


def returned_info(cfg, fnode):
    """[(return node, status expr E, dict node)] for returns `D, S, info`."""
    out = []
    dicts = {}
    for n in cfg.nodes:
        if n.kind == "stmt" and isinstance(n.stmt, ast.Assign) and isinstance(n.stmt.value, ast.Dict) and isinstance(n.stmt.targets[0], ast.Name):
            for k, v in zip(n.stmt.value.keys, n.stmt.value.values):
                if isinstance(k, ast.Constant) and k.value == "converged":
                    dicts.setdefault(n.stmt.targets[0].id, []).append((n, v))
    for n in cfg.nodes:
        if n.kind == "return" and isinstance(n.stmt.value, ast.Tuple) and len(n.stmt.value.elts) == 3:
            third = n.stmt.value.elts[2]
            if isinstance(third, ast.Name) and third.id in dicts:
                out.append((n, dicts[third.id]))
            elif isinstance(third, ast.Dict):
                here = [(n, v) for k, v in zip(third.keys, third.values) if isinstance(k, ast.Constant) and k.value == "converged"]
                if here:
                    out.append((n, here))
    return out


# ---- C04.a ----------------------------------------------------------------------------------

def rule_a(ctx):
    R = "C04.a"
    ctx.rule(R, "a failed run cannot be reported converged: for every _solve, the expression stored under 'converged' must be "
             "able to tell the exception-handler exit of the iteration loop from the stopping-criterion exit -- some free "
             "variable has different reaching definitions along the two exits (reaching definitions over the CFG with "
             "exception edges), or the status is a constant False on the handler path")
    m = ctx.model
    ctx.consult(WAS)
    for cname in SOLVERS:
        f = m.func(WAS, f"{cname}._solve")
        g = C.CFG(f.node)
        ctx.stat("cfg_nodes", len(g.nodes))
        it = find_iteration(g)
        ctx.need(it is not None, f"{f.qname}: iteration loop with a catch-all handler not found")
        head, tr, hnodes, hbreaks, cbreaks = it
        ctx.need(hbreaks and cbreaks, f"{f.qname}: handler exit / criterion exit of the iteration loop not found")
        infos = returned_info(g, f.node)
        ctx.need(infos, f"{f.qname}: no `return distance, solution, info` with a 'converged' status")
        ctx.instance(R)
        RD_IN, RD_OUT = C.reaching_definitions(g, f.params)

        def transfer(n, s):
            ds = C.defs_of(n)
            if not ds:
                return s
            kill = {nme for nme, k in ds if k in ("def", "del")}
            s2 = {(nme, i) for nme, i in s if nme not in kill}
            for nme, k in ds:
                if k != "del":
                    s2.add((nme, n.id))
            return frozenset(s2)

        for ret, dlist in infos:
            for dnode, E in dlist:
                # only the info dict that can be reached from the loop exits matters
                reach_h = propagate_from(g, hbreaks[0], RD_OUT.get(hbreaks[0].id, frozenset()), transfer, lambda a, b: a | b)
                if dnode.id not in reach_h:
                    continue
                names = sorted({x.id for x in ast.walk(E) if isinstance(x, ast.Name)})
                distinguishable = []
                via_h = {}
                for hb in hbreaks:
                    st = propagate_from(g, hb, RD_OUT.get(hb.id, frozenset()), transfer, lambda a, b: a | b).get(dnode.id, frozenset())
                    for v in names:
                        via_h.setdefault(v, set()).update(i for nme, i in st if nme == v)
                via_c = {}
                for cb in cbreaks:
                    st = propagate_from(g, cb, RD_OUT.get(cb.id, frozenset()), transfer, lambda a, b: a | b).get(dnode.id, frozenset())
                    for v in names:
                        via_c.setdefault(v, set()).update(i for nme, i in st if nme == v)
                for v in names:
                    if via_h.get(v, set()) != via_c.get(v, set()):
                        distinguishable.append(v)
                const_false = isinstance(E, ast.Constant) and E.value is False
                path = g.path(hbreaks[0], dnode) or []
                ctx.ob(R, f.qname, "status expression distinguishes the failure exit from the stopping-criterion exit",
                       bool(distinguishable) or const_false,
                       f"'converged': {norm(E)} -- every variable of it ({names}) has the same reaching definitions after the "
                       f"`except` exit (L{hbreaks[0].line}) and after the criterion exit (L{cbreaks[0].line}); a failure of the inner "
                       "step at iteration k is therefore reported exactly like a criterion exit at iteration k (converged for every k < num_iter-1)",
                       dnode.stmt, path=[f"L{x.line}: {x.text()[:80]}" for x in path][:12])
    ctx.floor(R, 2)


# ---- C04.b ----------------------------------------------------------------------------------

FLUX_SL = "self.flux_slice"
NEUTRAL_SLICES = {"self.pressure_slice", "self.lagrange_multiplier_slice"}


def _is_flux_view(e):
    return isinstance(e, ast.Subscript) and norm(e.slice) == FLUX_SL and isinstance(e.value, ast.Name)


def _copy_of(e):
    """Name whose copy the expression is, or None."""
    if isinstance(e, ast.Call):
        if isinstance(e.func, ast.Attribute) and e.func.attr == "copy" and not e.args:
            return e.func.value
        if norm(e.func) in ("np.copy", "copy.copy", "copy.deepcopy", "np.array") and e.args:
            return e.args[0]
    return None


class Coherence:
    """Must-analysis of 'the distance D is the l1 dissipation of the flux carried by S / F'."""

    def __init__(self, cfg):
        self.cfg = cfg

    def kill(self, s, pred):
        return {f for f in s if not pred(f)}

    def rebind(self, s, name):
        """`name` is bound to a new object."""
        def hit(f):
            k = f[0]
            if k == "coh":  # (coh, carrier, D)
                return f[1] == name or f[2] == name
            if k == "view":  # (view, F, S)
                return f[1] == name or f[2] == name
            if k == "snap":  # (snap, T, alias)
                return f[1] == name
            return False
        return self.kill(s, hit)

    def mutate(self, s, name):
        """in-place change of the array `name`: everything derived from its content dies."""
        views = {f[1] for f in s if f[0] == "view" and f[2] == name} | {name}
        owners = {f[2] for f in s if f[0] == "view" and f[1] == name}
        touched = views | owners
        def hit(f):
            if f[0] == "coh":
                return f[1] in touched
            if f[0] == "snap":
                return f[2] in touched
            return False
        return self.kill(s, hit)

    def gen_distance(self, s, D, arg):
        s = self.kill(s, lambda f: (f[0] == "coh" and f[2] == D))
        s = self.kill(s, lambda f: f[0] == "snap" and False)
        if isinstance(arg, ast.Name):
            s.add(("coh", arg.id, D))
            for f in list(s):
                if f[0] == "view" and f[1] == arg.id:
                    s.add(("coh", f[2], D))
        elif _is_flux_view(arg):
            s.add(("coh", arg.value.id, D))
        return s

    def assign_name(self, s, tgt, val):
        # D = self.l1_dissipation(X)
        if isinstance(val, ast.Call) and norm(val.func) == "self.l1_dissipation" and len(val.args) == 1:
            s = self.rebind(s, tgt)
            return self.gen_distance(s, tgt, val.args[0])
        # F = S[self.flux_slice]
        if _is_flux_view(val):
            S = val.value.id
            inherited = [f[2] for f in s if f[0] == "coh" and f[1] == S]
            s = self.rebind(s, tgt)
            s.add(("view", tgt, S))
            for D in inherited:
                s.add(("coh", tgt, D))
            return s
        # S2 = S.copy()
        c = _copy_of(val)
        if isinstance(c, ast.Name) or _is_flux_view(c):
            src = c.id if isinstance(c, ast.Name) else c.value.id
            inherited = [f[2] for f in s if f[0] == "coh" and f[1] == src]
            s = self.rebind(s, tgt)
            for D in inherited:
                s.add(("coh", tgt, D))
            return s
        # D2 = D  /  S2 = S (alias)
        if isinstance(val, ast.Name):
            src = val.id
            as_d = [f[1] for f in s if f[0] == "coh" and f[2] == src]
            as_c = [f[2] for f in s if f[0] == "coh" and f[1] == src]
            s = self.rebind(s, tgt)
            for car in as_d:
                s.add(("coh", car, tgt))
            for D in as_c:
                s.add(("coh", tgt, D))
                s.add(("view", tgt, src))
            return s
        # T = (S.copy(), D) / (F, D)
        if isinstance(val, ast.Tuple) and len(val.elts) == 2 and isinstance(val.elts[1], ast.Name):
            a, d = val.elts
            c = _copy_of(a)
            car = c.id if isinstance(c, ast.Name) else (a.id if isinstance(a, ast.Name) else None)
            ok = car is not None and ("coh", car, d.id) in s
            s = self.rebind(s, tgt)
            if ok:
                s.add(("snap", tgt, None if c is not None else car))
            return s
        return self.rebind(s, tgt)

    def transfer(self, n, s):
        s = set(s)
        st = n.stmt
        if st is None:
            return frozenset(s)
        if n.kind == "for":
            for nme, k in C.targets_of(st.target):
                s = self.rebind(s, nme)
            return frozenset(s)
        if n.kind in ("with", "handler", "def"):
            for nme, k in C.defs_of(n):
                s = self.rebind(s, nme)
            return frozenset(s)
        if n.kind != "stmt":
            return frozenset(s)
        if isinstance(st, ast.Assign) and len(st.targets) == 1:
            t, v = st.targets[0], st.value
            if isinstance(t, ast.Name):
                return frozenset(self.assign_name(s, t.id, v))
            if isinstance(t, ast.Tuple):
                # S, D = T  (restore)   /   S, x = call(...)
                names = [e.id if isinstance(e, ast.Name) else None for e in t.elts]
                restore = isinstance(v, ast.Name) and len(names) == 2 and None not in names and any(f[0] == "snap" and f[1] == v.id for f in s)
                for nme in names:
                    if nme:
                        s = self.rebind(s, nme)
                if restore:
                    s.add(("coh", names[0], names[1]))
                return frozenset(s)
            if isinstance(t, ast.Subscript) and isinstance(t.value, ast.Name):
                S = t.value.id
                sl = norm(t.slice)
                if sl in NEUTRAL_SLICES:
                    return frozenset(s)
                if sl == FLUX_SL:
                    c = _copy_of(v)
                    src = c.id if isinstance(c, ast.Name) else (v.id if isinstance(v, ast.Name) else None)
                    inherited = [f[2] for f in s if f[0] == "coh" and f[1] == src] if src else []
                    s = self.mutate(s, S)
                    for D in inherited:
                        s.add(("coh", S, D))
                    return frozenset(s)
                return frozenset(self.mutate(s, S))
            if isinstance(t, ast.Subscript):
                b = t
                while isinstance(b, (ast.Subscript, ast.Attribute)):
                    b = b.value
                if isinstance(b, ast.Name):
                    return frozenset(self.mutate(s, b.id))
            return frozenset(s)
        if isinstance(st, ast.AugAssign):
            b = st.target
            while isinstance(b, (ast.Subscript, ast.Attribute)):
                b = b.value
            if isinstance(b, ast.Name):
                if isinstance(st.target, ast.Name):
                    # x += v : in-place for arrays, rebinding for scalars -- both invalidate
                    s = self.mutate(s, b.id)
                    s = self.kill(s, lambda f: f[0] == "coh" and f[2] == b.id)
                else:
                    s = self.mutate(s, b.id)
            return frozenset(s)
        for nme, k in C.defs_of(n):
            s = self.rebind(s, nme) if k != "mutate" else self.mutate(s, nme)
        return frozenset(s)


def rule_b(ctx):
    R = "C04.b"
    ctx.rule(R, "the reported distance is the cost of the returned flux on every exit, including every exceptional exit of the "
             "iteration: relational must-dataflow over the CFG with exception edges; facts 'D = l1_dissipation(flux of S)' are "
             "generated by l1_dissipation calls on S's flux view, copied by .copy()/snapshot tuples/restores, and killed by "
             "any re-definition or in-place mutation of the carrier; at each `return D, S, info` the fact coh(S, D) must hold "
             "on all paths")
    m = ctx.model
    for cname in SOLVERS:
        f = m.func(WAS, f"{cname}._solve")
        g = C.CFG(f.node)
        co = Coherence(g)
        IN, OUT = C.solve_forward(g, frozenset(), co.transfer, lambda a, b: a & b)
        rets = [n for n in g.nodes if n.kind == "return" and isinstance(n.stmt.value, ast.Tuple) and len(n.stmt.value.elts) == 3]
        ctx.need(rets, f"{f.qname}: no `return distance, solution, info`")
        for r in rets:
            ctx.instance(R)
            D, S = r.stmt.value.elts[0], r.stmt.value.elts[1]
            ctx.need(isinstance(D, ast.Name) and isinstance(S, ast.Name), f"{f.qname}: returned distance/solution are not plain names")
            fact = ("coh", S.id, D.id)
            st = IN.get(r.id)
            if st is None:
                continue
            ok = fact in st
            path = []
            if not ok:
                path = _witness(g, IN, OUT, r, fact, co)
            ctx.ob(R, f.qname, f"`{r.text()[:60]}`: {D.id} is the l1 dissipation of the flux of {S.id} on every path", ok,
                   f"on the path shown, `{S.id}` (or the flux it is rebuilt from) was re-defined or changed in place after `{D.id}` was last "
                   "computed from it, or the distance was never computed from this iterate (initial value / failed first iteration)",
                   r.stmt, path=path)
    ctx.floor(R, 3)


def _witness(g, IN, OUT, ret, fact, co):
    """Backward walk along predecessors whose contribution lacks the fact."""
    path = [ret]
    cur = ret
    seen = {ret.id}
    while True:
        nxt = None
        for p, lab in cur.pred:
            if p.id in seen or p.id not in IN:
                continue
            contrib = (IN[p.id] & OUT.get(p.id, IN[p.id])) if lab == "exc" else OUT.get(p.id)
            if contrib is not None and fact not in contrib:
                nxt = (p, lab)
                if lab == "exc":
                    break
        if nxt is None:
            break
        cur = nxt[0]
        seen.add(cur.id)
        path.append(cur)
        if fact in IN.get(cur.id, frozenset()):
            break  # this node killed it
        if len(path) > 60:
            break
    return [f"L{x.line}: {x.text()[:90]}" for x in reversed(path) if x.stmt is not None][-14:]


def loop_nodes(g, head):
    """Ids of the CFG nodes inside the loop of `head` (reachable from the true edge without leaving through false/break)."""
    body = set()
    work = [s for s, lab in head.succ if lab == "true"]
    while work:
        n = work.pop()
        if n.id in body or n is head:
            continue
        body.add(n.id)
        for s, lab in n.succ:
            if n.kind == "break":
                continue
            work.append(s)
    # nodes reachable only after leaving the loop must be excluded: everything reachable from the false edge without
    # passing the head again is outside -- compute and subtract
    outside = set()
    work = [s for s, lab in head.succ if lab == "false"] + [s for n in g.nodes if n.kind == "break" and n.id in body for s, _ in n.succ]
    while work:
        n = work.pop()
        if n.id in outside or n is head:
            continue
        outside.add(n.id)
        work += [s for s, _ in n.succ]
    return body - outside


def rule_f(ctx):
    R = "C04.f"
    ctx.rule(R, "the iterate restored after a failure is the last valid one: every snapshot restored in the exception handler of the "
             "iteration loop is (re)taken inside the loop before the guarded step -- all its reaching definitions lie in the loop body; a "
             "snapshot taken once before the loop would hand back the initial iterate after a failure at any later iteration")
    m = ctx.model
    for cname in SOLVERS:
        f = m.func(WAS, f"{cname}._solve")
        g = C.CFG(f.node)
        it = find_iteration(g)
        ctx.need(it is not None, f"{f.qname}: iteration loop not found")
        head, tr, hnodes, hbreaks, cbreaks = it
        inside = loop_nodes(g, head)
        RD, _ = C.reaching_definitions(g, f.params)
        restores = []
        for h in tr.handlers:
            for s in ast.walk(h):
                if isinstance(s, ast.Assign) and isinstance(s.targets[0], ast.Tuple) and isinstance(s.value, ast.Name):
                    restores.append(s)
        ctx.instance(R)
        if not restores:
            ctx.ob(R, f.qname, "the handler restores a snapshot of the last valid iterate", False,
                   "no `S, D = snapshot` in the exception handler: after a failing step the partially updated iterate is returned", tr)
            continue
        for s in restores:
            n = g.node_of(s)
            defs = [i for nme, i in RD.get(n.id, ()) if nme == s.value.id]
            outside = [g.nodes[i] for i in defs if i not in inside]
            ctx.ob(R, f.qname, f"snapshot `{s.value.id}` restored by the handler is taken anew in every iteration", bool(defs) and not outside,
                   f"definition(s) outside the loop reach the restore: {[f'L{x.line}: {x.text()[:60]}' for x in outside]}: a failure at iteration k > 0 returns an older iterate than the last valid one", s)
    ctx.floor(R, 2)


def rule_g(ctx):
    R = "C04.g"
    ctx.rule(R, "a cached factorisation is only reused for the matrix it was set up for: for every linear_solve call that may pass "
             "reuse_solver=True, each definition of its matrix argument inside the iteration loop is followed on every path to that call "
             "by a linear_solve of the same matrix with reuse_solver False; the reuse expression is False or `<loop index> > 0`")
    m = ctx.model
    for cname in SOLVERS:
        f = m.func(WAS, f"{cname}._solve")
        g = C.CFG(f.node)
        it = find_iteration(g)
        ctx.need(it is not None, f"{f.qname}: iteration loop not found")
        head = it[0]
        loopvar = norm(head.stmt.target)
        inside = loop_nodes(g, head)
        RD, _ = C.reaching_definitions(g, f.params)
        calls = []
        for n in g.nodes:
            if n.kind == "stmt":
                for c in ast.walk(n.stmt):
                    if isinstance(c, ast.Call) and norm(c.func) == "self.linear_solve" and c.args:
                        r = next((k.value for k in c.keywords if k.arg == "reuse_solver"), c.args[3] if len(c.args) > 3 else None)
                        fresh = r is None or (isinstance(r, ast.Constant) and r.value is False)
                        calls.append((n, c, fresh, r))
        ctx.instance(R)
        def conjuncts(e):
            return [x for v in e.values for x in conjuncts(v)] if isinstance(e, ast.BoolOp) and isinstance(e.op, ast.And) else [e]
        first_false = (f"0 < {loopvar}", f"1 <= {loopvar}", f"{loopvar} != 0", "False")
        for n, c, fresh, r in calls:
            if fresh:
                continue
            ctx.ob(R, f.qname, f"reuse expression `{norm(r)}` is False on the first iteration", any(norm(x) in first_false for x in conjuncts(r)),
                   f"`{norm(r)}` can be true in iteration 0, when no solver has been set up for this matrix yet", c, evidence=True)
        # dataflow: for each in-loop definition of a matrix name, is a fresh solve of that name passed before any reusing solve?
        for n, c, fresh, r in calls:
            if fresh or not isinstance(c.args[0], ast.Name):
                continue
            M = c.args[0].id
            for nme, i in RD.get(n.id, ()):
                if nme != M or i not in inside:
                    continue
                d = g.nodes[i]
                # the reuse flag is switched off by the very condition under which the matrix is re-assembled: `if U: M = ...` with
                # reuse_solver = ... and not U (U bound once per iteration, before both)
                negated = {norm(x.operand) for x in conjuncts(r) if isinstance(x, ast.UnaryOp) and isinstance(x.op, ast.Not)}
                guards = set()
                cur = d.stmt
                while cur is not None and cur is not head.stmt:
                    par = getattr(cur, "_parent", None)
                    if isinstance(par, ast.If) and cur in par.body and isinstance(par.test, ast.Name):
                        guards.add(par.test.id)
                    cur = par
                switched = False
                for u in guards & negated:
                    stores = [x for x in ast.walk(head.stmt) if isinstance(x, ast.Name) and x.id == u and isinstance(x.ctx, ast.Store)]
                    if len(stores) == 1 and stores[0].lineno < d.stmt.lineno and stores[0].lineno < c.lineno:
                        switched = True
                if switched:
                    ctx.ob(R, f.qname, f"matrix `{M}` re-assembled at `{d.text()[:50]}` gets a fresh solver before `linear_solve({M}, reuse_solver={norm(r)})`", True, "", c)
                    continue
                fresh_nodes = {x.id for x, cc, fr, _ in calls if fr and isinstance(cc.args[0], ast.Name) and cc.args[0].id == M}
                # path from the definition to the reusing call avoiding fresh solves (and avoiding re-definitions of M)
                redefs = {x.id for x in g.nodes if x.id != d.id and any(nm == M and k == "def" for nm, k in C.defs_of(x))}
                if d.id in fresh_nodes:
                    continue
                avoid = [g.nodes[j] for j in (fresh_nodes | redefs) if j != n.id]
                pth = g.path(d, n, avoid=avoid)
                ctx.ob(R, f.qname, f"matrix `{M}` re-assembled at `{d.text()[:50]}` gets a fresh solver before `linear_solve({M}, reuse_solver={norm(r)})`", pth is None,
                       "a path from the re-assembly to the reusing solve passes no linear_solve with reuse_solver=False: the stale factorisation of the previous matrix is applied to the new system",
                       c, path=[f"L{x.line}: {x.text()[:80]}" for x in (pth or [])][:12])
    ctx.floor(R, 2)


# ---- C04.c ----------------------------------------------------------------------------------

def rule_c(ctx):
    R = "C04.c"
    ctx.rule(R, "every 3x3 block system assembled with sps.bmat in the solver hierarchy carries the same mass-balance and "
             "constraint rows: block row 1 = [self.div, None, -self.pressure_constraint.T], block row 2 = [None, "
             "self.pressure_constraint, None], block (0,1) = -self.div.T; both _solve build the right-hand side as "
             "[0_faces | mass_matrix_cells . mass_diff | 0]; the residual subtracts broken_darcy . solution")
    m = ctx.model
    base = m.cls(WAS, "VariationalWassersteinDistance")
    n = 0
    for k in m.subclasses(base):
        for f in k.methods.values():
            for c0 in ast.walk(f.node):
                c = c0
                if isinstance(c, ast.Call) and norm(c.func).startswith("self.") and norm(c.func) != "self.linear_solve":
                    # a system assembled by a one-expression helper of the class: judged at the call site, with the arguments in place
                    inl = expand(f.node, c, helpers=True)
                    if isinstance(inl, ast.Call) and norm(inl.func) == "sps.bmat":
                        c = inl
                        c._parent = getattr(c0, "_parent", None)
                        c.lineno = c0.lineno
                if isinstance(c, ast.Call) and norm(c.func) == "sps.bmat" and c.args and isinstance(c.args[0], ast.List):
                    rows = c.args[0].elts
                    if len(rows) != 3 or not all(isinstance(r, ast.List) and len(r.elts) == 3 for r in rows):
                        continue  # the 2x2 flux-pressure helper of the KSP path is not a solver system
                    n += 1
                    ctx.instance(R)
                    r1 = [norm(e) for e in rows[1].elts]
                    r2 = [norm(e) for e in rows[2].elts]
                    b01 = norm(rows[0].elts[1])
                    b02 = norm(rows[0].elts[2])
                    ctx.ob(R, f.qname, f"system #{n} `{_assigned_name(c)}`: mass-balance row is [div, None, -pressure_constraint.T]",
                           r1 == ["self.div", "None", "-self.pressure_constraint.T"], str(r1), c)
                    ctx.ob(R, f.qname, f"system #{n} `{_assigned_name(c)}`: constraint row is [None, pressure_constraint, None]",
                           r2 == ["None", "self.pressure_constraint", "None"], str(r2), c)
                    ctx.ob(R, f.qname, f"system #{n} `{_assigned_name(c)}`: flux row couples to the pressure through -div.T only",
                           b01 == "-self.div.T" and b02 == "None", f"{b01}, {b02}", c)
                    # the assembled operator is used as it is: a factor on the whole block matrix rescales the divergence and constraint rows,
                    # which the reduced formulations slice out of the initial operator and reuse for every later system
                    par = getattr(c0, "_parent", None)
                    scaled = isinstance(par, ast.BinOp) and isinstance(par.op, (ast.Mult, ast.Div, ast.MatMult))
                    ctx.ob(R, f.qname, f"system #{n} `{_assigned_name(c)}`: the assembled block operator is not rescaled as a whole", not scaled,
                           f"`{norm(par)[:80]}`: mass-balance and constraint rows are scaled along with the flux block" if scaled else "", c0, evidence=True)
    ctx.floor(R, 6)
    for cname in SOLVERS:
        f = m.func(WAS, f"{cname}._solve")
        # the right-hand side is located by shape: the one three-part np.concatenate whose middle part is the weighted mass difference
        rhs = [s for s in ast.walk(f.node) if isinstance(s, ast.Assign) and isinstance(s.targets[0], ast.Name) and isinstance(s.value, ast.Call)
               and norm(s.value.func) in ("np.concatenate", "np.hstack") and s.value.args and isinstance(s.value.args[0], (ast.List, ast.Tuple)) and len(s.value.args[0].elts) == 3]
        # (np.hstack of one-dimensional parts is np.concatenate; the three parts are checked to be vectors by form below)
        ok = False
        if len(rhs) == 1:
            nm = rhs[0].targets[0].id
            parts = [norm(e) for e in rhs[0].value.args[0].elts]
            n_store = sum(1 for x in ast.walk(f.node) if isinstance(x, ast.Name) and isinstance(x.ctx, ast.Store) and x.id == nm)
            used = any(isinstance(c, ast.Call) and norm(c.func) == "self.linear_solve" and len(c.args) > 1 and nm in {x.id for x in ast.walk(c.args[1]) if isinstance(x, ast.Name)} for c in ast.walk(f.node))
            ok = (parts[0].startswith("np.zeros(self.grid.num_faces") and parts[1] == f"self.mass_matrix_cells @ {f.params[1]}"
                  and parts[2].startswith("np.zeros(1") and n_store == 1 and used)
        ctx.ob(R, f.qname, "rhs = [0_faces | mass_matrix_cells . mass_diff | 0], assigned once and passed to linear_solve", ok, norm(rhs[0].value)[:160] if rhs else "", f.node)
    oc = m.func(WAS, "VariationalWassersteinDistance.optimality_conditions")
    rets = [norm(r.value) for r in ast.walk(oc.node) if isinstance(r, ast.Return)]
    ctx.ob(R, oc.qname, "residual = rhs - broken_darcy . solution - flux block", len(rets) == 1 and rets[0].startswith(f"{oc.params[1]} - self.broken_darcy @ {oc.params[2]} - self.flux_embedding @ "),
           str(rets)[:160], oc.node)


def _assigned_name(call):
    p = getattr(call, "_parent", None)
    if isinstance(p, ast.Assign):
        return norm(p.targets[0])
    return "?"


# ---- C04.d ----------------------------------------------------------------------------------

def rule_d(ctx):
    R = "C04.d"
    ctx.rule(R, "auxiliary outputs derive from the returned solution: in __call__ the values stored under 'flux', 'pressure', "
             "'transport_density', 'weighted_flux' are backward-sliced to the `solution` component of the _solve result through "
             "flux_slice / pressure_slice; pressure reshape and the ravel of the mass difference use Fortran order like the grid numbering")
    m = ctx.model
    f = m.func(WAS, "VariationalWassersteinDistance.__call__")
    ctx.instance(R)
    env = {}
    for st in f.node.body:
        if isinstance(st, ast.Assign) and len(st.targets) == 1:
            t = st.targets[0]
            if isinstance(t, ast.Name):
                env[t.id] = st.value
            elif isinstance(t, ast.Tuple):
                for i, e in enumerate(t.elts):
                    if isinstance(e, ast.Name):
                        env[e.id] = ("unpack", i, st.value)
    sol = [k for k, v in env.items() if isinstance(v, tuple) and v[1] == 1 and norm(v[2].func) == "self._solve"]
    ctx.need(len(sol) == 1, "__call__: `distance, solution, info = self._solve(...)` not found")
    S = sol[0]

    def slice_of(name, depth=0):
        """set of root descriptions a local derives from"""
        v = env.get(name)
        if v is None or depth > 6:
            return {name}
        if isinstance(v, tuple):
            return {f"{norm(v[2].func)}[{v[1]}]"}
        out = set()
        for x in ast.walk(v):
            if isinstance(x, ast.Name) and x.id in env and x.id != name:
                out |= slice_of(x.id, depth + 1)
            elif isinstance(x, ast.Subscript) and isinstance(x.value, ast.Name) and x.value.id == S:
                out.add(f"{S}[{norm(x.slice)}]")
        return out

    info_dicts = [c for c in ast.walk(f.node) if isinstance(c, ast.Call) and norm(c.func).endswith(".update") and c.args and isinstance(c.args[0], ast.Dict)]
    ctx.need(info_dicts, "__call__: info.update({...}) not found")
    d = info_dicts[0].args[0]
    entries = {k.value: v for k, v in zip(d.keys, d.values) if isinstance(k, ast.Constant)}
    want = {"flux": {f"{S}[self.flux_slice]"}, "pressure": {f"{S}[self.pressure_slice]"}, "transport_density": {f"{S}[self.flux_slice]"}, "weighted_flux": {f"{S}[self.flux_slice]"}}
    for key, roots in want.items():
        v = entries.get(key)
        got = slice_of(v.id) if isinstance(v, ast.Name) else set()
        got = {g for g in got if g.startswith(S + "[")}
        ctx.ob(R, f.qname, f"info['{key}'] derives from {sorted(roots)} of the returned solution", got == roots, f"derives from {sorted(got)}", v if v is not None else f.node)
    pv = entries.get("pressure")
    pdef = env.get(pv.id) if isinstance(pv, ast.Name) else None
    ctx.ob(R, f.qname, "pressure is reshaped in Fortran order", pdef is not None and not isinstance(pdef, tuple) and "order='F'" in norm(pdef) and ".reshape(self.grid.shape" in norm(pdef),
           norm(pdef) if pdef is not None and not isinstance(pdef, tuple) else "", f.node)
    from ..flow import expand
    sc = [c for c in ast.walk(f.node) if isinstance(c, ast.Call) and norm(c.func) == "self._solve" and len(c.args) == 1]
    arg = norm(expand(f.node, sc[0].args[0])) if len(sc) == 1 else ""
    dm = f"{f.params[2]}.img - {f.params[1]}.img"
    ctx.ob(R, f.qname, "mass difference is flattened in Fortran order", arg in (f"np.ravel({dm}, 'F')", f"np.ravel({dm}, order='F')", f"({dm}).ravel('F')", f"({dm}).ravel(order='F')", f"({dm}).flatten('F')", f"({dm}).flatten(order='F')"), arg, f.node)
    ctx.ob(R, f.qname, "mass difference is destination minus source", dm in arg and arg.count(".img") == 2, arg, f.node)
    # reported arrays keep their value: a name reported in the info dictionary is not handed to a method that modifies that argument in
    # place (effect summaries) -- `weighted_flux = self.cell_weighted_flux(flux)` with an in-place scaling reports the weighted flux twice
    from ..effects import Effects
    from ..flow import bind_call

    E = Effects(m)
    reported = {}
    for c in ast.walk(f.node):
        if isinstance(c, ast.Dict):
            for k_, v_ in zip(c.keys, c.values):
                if isinstance(k_, ast.Constant) and isinstance(v_, ast.Name):
                    reported[v_.id] = k_.value
    for c in ast.walk(f.node):
        if not isinstance(c, ast.Call):
            continue
        g = m.resolve_call(c, f)
        if g is None or not hasattr(g, "node") or not isinstance(g.node, ast.FunctionDef):
            continue
        b = bind_call(c, g.node, skip_first=getattr(g, "cls", None) is not None and isinstance(c.func, ast.Attribute))
        if not b:
            continue
        for prm, a_ in b.items():
            if isinstance(a_, ast.Name) and a_.id in reported:
                ctx.ob(R, f.qname, f"info['{reported[a_.id]}'] (`{a_.id}`) is not modified by `{norm(c.func)}`", prm not in E.mut.get(g, set()),
                       f"{g.short} modifies its parameter `{prm}` in place: the array reported as '{reported[a_.id]}' changes after it was computed", c, evidence=True)
    ctx.floor(R, 1)


# ---- C04.e ----------------------------------------------------------------------------------

def enum_members(m, name):
    c = m.cls(WAS, name)
    return [t.id for st in c.node.body if isinstance(st, ast.Assign) for t in st.targets if isinstance(t, ast.Name)]


def dispatch_chain(fnode, attr, enum):
    """Top-level if/elif chain on self.<attr>: (members handled, has terminating raise, branch bodies)."""
    cands = [n for n in ast.walk(fnode) if isinstance(n, ast.If) and f"self.{attr}" in norm(n.test)]
    heads = [n for n in cands if not (isinstance(getattr(n, "_parent", None), ast.If) and n in n._parent.orelse and n._parent in cands)]
    for st in heads[:1]:
        if True:
            handled, bodies = [], []
            cur = st
            while True:
                handled += [x.attr for x in ast.walk(cur.test) if isinstance(x, ast.Attribute) and isinstance(x.value, ast.Name) and x.value.id == enum]
                bodies.append(cur.body)
                if len(cur.orelse) == 1 and isinstance(cur.orelse[0], ast.If):
                    cur = cur.orelse[0]
                    continue
                term = any(isinstance(s, ast.Raise) for s in cur.orelse)
                return handled, term, bodies, st
    return None


def rule_e(ctx):
    R = "C04.e"
    ctx.rule(R, "mode dispatch is exhaustive: every member of L1Mode has a branch in transport_density and every member of "
             "MobilityMode in _compute_face_weight, the chains end in `raise`, and the names used after the chain are "
             "assigned on every branch")
    m = ctx.model
    for fname, attr, enum, n_after in (("transport_density", "l1_mode", "L1Mode", 2), ("_compute_face_weight", "mobility_mode", "MobilityMode", 2)):
        f = m.func(WAS, f"VariationalWassersteinDistance.{fname}")
        members = enum_members(m, enum)
        ch = dispatch_chain(f.node, attr, enum)
        ctx.need(ch is not None, f"{f.qname}: dispatch chain on self.{attr} not found")
        handled, term, bodies, node = ch
        ctx.instance(R)
        ctx.ob(R, f.qname, f"every {enum} member has a branch", set(members) <= set(handled), f"members {members}, handled {handled}", node)
        ctx.ob(R, f.qname, f"no branch for a non-member of {enum}", set(handled) <= set(members), f"handled {handled}", node)
        ctx.ob(R, f.qname, "chain ends in raise", term, "", node)
        per_branch = []
        for b in bodies:
            assigned = set()
            for s in b:
                for x in ast.walk(s):
                    if isinstance(x, ast.Assign):
                        for t in x.targets:
                            assigned |= {nme for nme, k in C.targets_of(t) if k == "def"}
            per_branch.append(assigned)
        # names read after the chain that some branch assigns: each must be assigned by every branch
        blk = getattr(node, "_parent", None)
        sibs = []
        for fld in ("body", "orelse", "finalbody"):
            lst = getattr(blk, fld, None)
            if isinstance(lst, list) and node in lst:
                sibs = lst[lst.index(node) + 1:]
        loaded = {x.id for s in sibs for x in ast.walk(s) if isinstance(x, ast.Name) and isinstance(x.ctx, ast.Load)}
        after = sorted(loaded & set().union(*per_branch)) if per_branch else []
        ctx.need(len(after) >= n_after, f"{f.qname}: fewer than {n_after} names flow out of the dispatch chain ({after})")
        for i, assigned in enumerate(per_branch):
            ctx.ob(R, f.qname, f"branch {i}: {after} assigned", set(after) <= assigned, f"assigned {sorted(assigned & set(after))}", node)
    ctx.floor(R, 2)


def _option_key_of(fnode, name):
    """Option key that the local `name` is read from (`self.options.get(<key>, ...)`), following a tuple unpacking of a
    tuple / generator of such reads by position; None when it cannot be told."""
    for st in ast.walk(fnode):
        if not isinstance(st, ast.Assign) or len(st.targets) != 1:
            continue
        t, v = st.targets[0], st.value
        if isinstance(t, ast.Name) and t.id == name:
            if isinstance(v, ast.Call) and norm(v.func) in ("self.options.get", "options.get", "self.options.pop") and v.args and isinstance(v.args[0], ast.Constant):
                return v.args[0].value
            if isinstance(v, ast.Subscript) and norm(v.value) in ("self.options", "options") and isinstance(v.slice, ast.Constant):
                return v.slice.value
            return None
        if isinstance(t, (ast.Tuple, ast.List)) and any(isinstance(e, ast.Name) and e.id == name for e in t.elts):
            pos = next(i for i, e in enumerate(t.elts) if isinstance(e, ast.Name) and e.id == name)
            if isinstance(v, (ast.Tuple, ast.List)) and len(v.elts) == len(t.elts):
                e = v.elts[pos]
                if isinstance(e, ast.Call) and norm(e.func) in ("self.options.get", "options.get") and e.args and isinstance(e.args[0], ast.Constant):
                    return e.args[0].value
                return None
            if isinstance(v, (ast.GeneratorExp, ast.ListComp)) and len(v.generators) == 1 and isinstance(v.generators[0].iter, (ast.Tuple, ast.List)) \
                    and len(v.generators[0].iter.elts) == len(t.elts) and isinstance(v.generators[0].target, ast.Name):
                kv = v.generators[0].target.id
                e = v.elt
                if isinstance(e, ast.Call) and norm(e.func) in ("self.options.get", "options.get") and e.args and isinstance(e.args[0], ast.Name) and e.args[0].id == kv:
                    k = v.generators[0].iter.elts[pos]
                    return k.value if isinstance(k, ast.Constant) else None
            return None
    return None


def rule_h(ctx):
    R = "C04.h"
    ctx.rule(R, "each stopping criterion is compared with the tolerance the caller set for it: in the conjunction that sets converged = True, "
             "the history entry `...residual` is bounded by the local read from option 'tol_residual', the entries `...increment` "
             "(other than the distance increment) by 'tol_increment', and `distance_increment` by 'tol_distance' (definitions resolved "
             "through tuple unpacking by position)")
    m = ctx.model
    for cname in SOLVERS:
        f = m.func(WAS, f"{cname}._solve")
        crit = []
        for n in ast.walk(f.node):
            if isinstance(n, ast.If) and any(isinstance(s_, ast.Break) for s_ in n.body) and sum(
                    1 for c in ast.walk(n.test) if isinstance(c, ast.Compare) and any(isinstance(x, ast.Subscript) and isinstance(x.slice, ast.Constant) and isinstance(x.slice.value, str) for x in ast.walk(c.left))) >= 2:
                crit.append(n)
        ctx.need(len(crit) == 1, f"{f.qname}: the stopping test (a conjunction over the convergence history that leaves the loop) was not found")
        comps = [c for c in ast.walk(crit[0].test) if isinstance(c, ast.Compare) and len(c.ops) == 1 and isinstance(c.ops[0], (ast.Lt, ast.LtE))]
        n_hist = 0
        for c in comps:
            keys = [x.slice.value for x in ast.walk(c.left) if isinstance(x, ast.Subscript) and isinstance(x.slice, ast.Constant) and isinstance(x.slice.value, str)]
            if len(keys) != 1:
                continue
            hist = keys[0]
            tols = [x.id for x in ast.walk(c.comparators[0]) if isinstance(x, ast.Name) and x.id not in (a.arg for a in f.node.args.args)]
            tols = [t for t in tols if _option_key_of(f.node, t) is not None or t.startswith("tol")]
            n_hist += 1
            ctx.instance(R)
            want = "tol_distance" if "distance" in hist else ("tol_residual" if "residual" in hist else ("tol_increment" if "increment" in hist else None))
            got = [_option_key_of(f.node, t) for t in tols]
            ctx.ob(R, f.qname, f"criterion on history '{hist}' is bounded by the option '{want}'", want is not None and got == [want],
                   f"`{norm(c)[:90]}` uses {dict(zip(tols, got))}: the caller's {want} does not control this criterion", c)
        ctx.need(n_hist >= 3, f"{f.qname}: fewer than three stopping criteria recognised")
    ctx.floor(R, 6)


def run(ctx):
    from . import c15 as _c15
    from .common import shared as _sh15
    ctx.guard(_sh15, ctx, "C04.b", _c15.run, why="the cost reported is the quadrature of the flux norm: the rules selected by transport_density must be exact (corner rule: the 2^dim distinct vertices)")
    from .common import rule_abs_tolerance
    ctx.guard(rule_abs_tolerance, ctx, "C04.i", [f for mn_ in (WAS, "darsia.utils.linalg") for k in ctx.model.mod(mn_).classes.values() for f in k.methods.values()], "mass balance and reported cost must hold for masses of any magnitude")
    ctx.guard(rule_a, ctx)
    ctx.guard(rule_b, ctx)
    ctx.guard(rule_f, ctx)
    ctx.guard(rule_g, ctx)
    ctx.guard(rule_c, ctx)
    ctx.guard(rule_d, ctx)
    ctx.guard(rule_e, ctx)
    ctx.guard(rule_h, ctx)
    # the distance is the cost of the *cell* flux reconstructed from the face flux by face_to_cell (C06.c)
    from . import c06
    from .common import shared

    from . import c05 as _c05
    from . import c07 as _c07
    shared(ctx, "C04.a", _c07.rule_d, why="the mass balance is posed on the grid generate_grid builds for the image (face areas, voxel sizes, connectivity)")
    shared(ctx, "C04.b", _c05.rule_e, why="the reported distance is the weighted transport cost of the returned flux: the weights that enter the cost must be the user's")
    shared(ctx, "C04.d", c06.rule_c, why="distance, transport density and info['flux'] all integrate face_to_cell(flat_flux, pt)")
    # mass balance to linear-solver precision needs every set-up to build its preconditioner / factorisation from the matrix it is given (C08.f)
    from . import c08

    shared(ctx, "C04.g", c08.rule_f, why="an iterative back-end preconditioned for an earlier matrix misses its tolerance silently: the residual is a mass defect")
