"""E7 -- option vocabularies, dispatch exhaustiveness and vocabulary-aware definite assignment."""
from __future__ import annotations

import ast
import re

from .srcmodel import norm


def option_attr(cls_funcs, key):
    """(attr, default literal) for `self.<attr> = self.options.get("<key>", default)` in the given functions."""
    for f in cls_funcs:
        for st in ast.walk(f.node):
            if isinstance(st, (ast.Assign, ast.AnnAssign)):
                tgt = st.targets[0] if isinstance(st, ast.Assign) else st.target
                v = st.value
                if (isinstance(tgt, ast.Attribute) and isinstance(v, ast.Call) and norm(v.func).endswith("options.get") and v.args
                        and isinstance(v.args[0], ast.Constant) and v.args[0].value == key):
                    d = v.args[1].value if len(v.args) > 1 and isinstance(v.args[1], ast.Constant) else None
                    return tgt.attr, d
    return None, None


def test_literals(test, attr):
    """Literals L such that the test is (a disjunction of) self.<attr> == L / in [L...]; None if not of that form."""
    name = f"self.{attr}"
    if isinstance(test, ast.BoolOp) and isinstance(test.op, ast.Or):
        out = []
        for v in test.values:
            r = test_literals(v, attr)
            if r is None:
                return None
            out += r
        return out
    if isinstance(test, ast.Compare) and len(test.ops) == 1 and norm(test.left) == name:
        c = test.comparators[0]
        if isinstance(test.ops[0], ast.Eq) and isinstance(c, ast.Constant):
            return [c.value]
        if isinstance(test.ops[0], ast.In) and isinstance(c, (ast.List, ast.Tuple, ast.Set)) and all(isinstance(e, ast.Constant) for e in c.elts):
            return [e.value for e in c.elts]
    return None


def compared_literals(funcs, attr):
    """Every literal the option attribute is compared with, with its site."""
    out = []
    for f in funcs:
        for n in ast.walk(f.node):
            if isinstance(n, ast.Compare):
                lits = test_literals(n, attr)
                if lits:
                    out += [(l, f, n) for l in lits]
    return out


def asserted_membership(funcs, attr):
    """Literal set of `assert self.<attr> in [...]` (first found)."""
    for f in funcs:
        for n in ast.walk(f.node):
            if isinstance(n, ast.Assert):
                lits = test_literals(n.test, attr)
                if lits:
                    return lits, f, n
    return None, None, None


def doc_bullets(doc, key):
    """Literals documented for option `key` in a docstring of the shape used by the solver classes:
        - key (type): ... Supported ... are:
            - "lit": ...
    """
    if not doc:
        return []
    lines = doc.splitlines()
    out = []
    for i, ln in enumerate(lines):
        m = re.match(r"^(\s*)- " + re.escape(key) + r"\b", ln)
        if not m:
            continue
        ind = len(m.group(1))
        for ln2 in lines[i + 1:]:
            if not ln2.strip():
                continue
            ind2 = len(ln2) - len(ln2.lstrip())
            if ind2 <= ind and ln2.lstrip().startswith("- "):
                break
            m2 = re.match(r'^\s*- "([^"]+)"\s*:', ln2)
            if m2 and ind2 > ind:
                out.append(m2.group(1))
        break
    return out


class VocabDA:
    """Definite assignment that understands option vocabularies.

    vocab: {attr: set(allowed literals)}.  An if/elif chain over `self.attr == lit` without else
    is exhaustive when the allowed set minus the handled literals is empty; `assert` narrows."""

    def __init__(self):
        self.unhandled = []  # (attr, leftover literals, node)
        self.returns = []  # assigned-name sets at each `return` reached

    def block(self, stmts, assigned, vocab):
        for st in stmts:
            r = self.stmt(st, assigned, vocab)
            if r is None:
                return None
            assigned, vocab = r
        return assigned, vocab

    def names(self, t):
        if isinstance(t, ast.Name):
            return {t.id}
        if isinstance(t, (ast.Tuple, ast.List)):
            out = set()
            for e in t.elts:
                out |= self.names(e)
            return out
        return set()

    def stmt(self, st, assigned, vocab):
        if isinstance(st, ast.Assign):
            a = set(assigned)
            for t in st.targets:
                a |= self.names(t)
            return a, vocab
        if isinstance(st, (ast.AnnAssign, ast.AugAssign)):
            a = set(assigned)
            if getattr(st, "value", None) is not None:
                a |= self.names(st.target)
            return a, vocab
        if isinstance(st, ast.Return):
            self.returns.append(set(assigned))
            return None
        if isinstance(st, ast.Raise):
            return None
        if isinstance(st, ast.Assert):
            for attr in list(vocab):
                lits = test_literals(st.test, attr)
                if lits is not None:
                    vocab = dict(vocab)
                    vocab[attr] = vocab[attr] & set(lits)
            return assigned, vocab
        if isinstance(st, ast.If):
            # option chain?
            for attr in vocab:
                lits = test_literals(st.test, attr)
                if lits is not None:
                    results = []
                    cur, remaining = st, set(vocab[attr])
                    while True:
                        l = test_literals(cur.test, attr)
                        if l is None:
                            break
                        take = remaining & set(l)
                        if take:
                            v2 = dict(vocab)
                            v2[attr] = take
                            results.append(self.block(cur.body, assigned, v2))
                        remaining = remaining - set(l)
                        if len(cur.orelse) == 1 and isinstance(cur.orelse[0], ast.If) and test_literals(cur.orelse[0].test, attr) is not None:
                            cur = cur.orelse[0]
                            continue
                        if remaining or cur.orelse:
                            if remaining:
                                v2 = dict(vocab)
                                v2[attr] = remaining
                                if not cur.orelse:
                                    self.unhandled.append((attr, sorted(remaining), st))
                                results.append(self.block(cur.orelse, assigned, v2))
                        break
                    live = [r for r in results if r is not None]
                    if not live:
                        return None
                    a = set.intersection(*[set(r[0]) for r in live])
                    return a, vocab
            r1 = self.block(st.body, assigned, vocab)
            r2 = self.block(st.orelse, assigned, vocab)
            live = [r for r in (r1, r2) if r is not None]
            if not live:
                return None
            return set.intersection(*[set(r[0]) for r in live]), vocab
        if isinstance(st, (ast.For, ast.While)):
            self.block(st.body, assigned, vocab)
            return assigned, vocab
        if isinstance(st, ast.With):
            return self.block(st.body, assigned, vocab)
        if isinstance(st, ast.Try):
            r = self.block(st.body, assigned, vocab)
            hs = [self.block(h.body, assigned, vocab) for h in st.handlers]
            live = [x for x in [r] + hs if x is not None]
            if not live:
                return None
            return set.intersection(*[set(x[0]) for x in live]), vocab
        return assigned, vocab
